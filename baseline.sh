#!/bin/bash
# Runs the repository's own test suite (guard off) and reports which of the
# pinned stable-pass tests did not pass. Exit 0 iff all of them passed.
export GOFLAGS=-mod=mod GOPROXY=off GOSUMDB=off GOTOOLCHAIN=local
out=$(mktemp)
(cd /repo && go test -json -vet=off -count=1 -timeout 25m ./... > "$out" 2>/dev/null)
python3 - "$out" <<'P'
import json,sys
want=set(json.load(open('/root/.vp/BASELINE.json'))['stable_pass'])
got=set()
for l in open(sys.argv[1]):
    try: d=json.loads(l)
    except Exception: continue
    if d.get('Action')=='pass' and d.get('Test'): got.add(d['Package']+'::'+d['Test'])
miss=sorted(want-got)
print(f"baseline: {len(want&got)}/{len(want)} pinned tests pass")
for m in miss: print("MISSING", m)
sys.exit(1 if miss else 0)
P
rc=$?; rm -f "$out"; exit $rc
