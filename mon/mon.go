// Package mon holds the global monitors that every lab evaluates at quiescent
// states: reported checksum vs from-scratch checksum (C04), log chain shape
// (C09), and logical image vs the reference image.
package mon

import (
	"fmt"
	"os"
	"path/filepath"

	"verif/lab"
	"verif/oracle"
)

// Finding is one monitor failure.
type Finding struct {
	Prop string // property the monitor belongs to
	Key  string
	What string
}

func (f Finding) String() string { return fmt.Sprintf("[%s %s] %s", f.Prop, f.Key, f.What) }

// DBState is what the monitors read from a node about one database.
type DBState struct {
	TXID     uint64
	Checksum uint64
	PageN    uint32
	Image    *oracle.Image // logical image from raw files
}

// CheckDB runs the C04 and C09 monitors on one database of a node and, when
// want is non-nil, compares the on-disk logical image with it.
func CheckDB(n *lab.Node, name string, want *oracle.Image) (DBState, []Finding) {
	var out []Finding
	var st DBState
	db := n.DB(name)
	if db == nil {
		if want != nil && want.N() > 0 {
			out = append(out, Finding{"image", "db-missing", fmt.Sprintf("%s: database %q unknown to the store but reference has %d pages", n.Cfg.Name, name, want.N())})
		}
		return st, out
	}
	pos := db.Pos()
	st.TXID, st.Checksum, st.PageN = uint64(pos.TXID), uint64(pos.PostApplyChecksum), db.PageN()

	hint := int(db.VerifPageSize())
	img, err := oracle.ReadLogicalImage(db.Path(), hint)
	if err != nil {
		out = append(out, Finding{"C04", "unreadable-image", fmt.Sprintf("%s/%s: cannot build logical image from raw files: %v", n.Cfg.Name, name, err)})
		return st, out
	}
	st.Image = img

	// C04: reported checksum == from-scratch checksum.
	if st.TXID == 0 {
		if st.Checksum != 0 {
			out = append(out, Finding{"C04", "checksum-at-zero", fmt.Sprintf("%s/%s: position 0 reports checksum %016x", n.Cfg.Name, name, st.Checksum)})
		}
		if img.N() != 0 {
			// A database with content but no transaction: only legal transiently (mid first transaction).
		}
	} else {
		if scratch := img.Checksum(); scratch != st.Checksum {
			out = append(out, Finding{"C04", "checksum-mismatch", fmt.Sprintf("%s/%s: position (%d,%016x) but from-scratch checksum of %d pages is %016x", n.Cfg.Name, name, st.TXID, st.Checksum, img.N(), scratch)})
		}
		if img.N() == 0 && st.Checksum != oracle.EmptyChecksum {
			out = append(out, Finding{"C04", "empty-checksum", fmt.Sprintf("%s/%s: empty database reports %016x", n.Cfg.Name, name, st.Checksum)})
		}
		if img.N() != st.PageN {
			out = append(out, Finding{"C04", "pagen-mismatch", fmt.Sprintf("%s/%s: DB.PageN()=%d but logical image has %d pages", n.Cfg.Name, name, st.PageN, img.N())})
		}
	}

	// C09: chain.
	ch := oracle.CheckChain(db.LTXDir(), st.TXID, st.Checksum)
	for _, e := range ch.Errors {
		out = append(out, Finding{"C09", "chain", fmt.Sprintf("%s/%s: %s", n.Cfg.Name, name, e)})
	}
	// Listing must never return a non-transaction name.
	if ents, err := db.ReadLTXDir(); err == nil {
		for _, e := range ents {
			if filepath.Ext(e.Name()) != ".ltx" {
				out = append(out, Finding{"C09", "tmp-listed", fmt.Sprintf("%s/%s: ReadLTXDir returned %q", n.Cfg.Name, name, e.Name())})
			}
		}
	}

	if want != nil {
		if ok, d := img.Equal(want); !ok {
			out = append(out, Finding{"image", "image-mismatch", fmt.Sprintf("%s/%s at (%d,%016x): on-disk logical image differs from reference: %s", n.Cfg.Name, name, st.TXID, st.Checksum, d)})
		}
	}
	return st, out
}

// ListLTX returns the sorted names in a database's ltx directory.
func ListLTX(dir string) []string {
	ents, err := os.ReadDir(dir)
	if err != nil {
		return nil
	}
	var out []string
	for _, e := range ents {
		out = append(out, e.Name())
	}
	return out
}
