// Package oracle holds the independent reference code the checks compare
// LiteFS against: the database checksum from the property statement (stdlib
// CRC64 only), a logical-image reader (database file overlaid with committed
// WAL frames by SQLite's rules), LTX decoding (via the third-party ltx module,
// never via package litefs) and the chain rules of the on-disk log.
package oracle

import (
	"bytes"
	"encoding/binary"
	"fmt"
	"hash/crc64"
	"io"
	"os"
	"path/filepath"
	"regexp"
	"sort"
	"strconv"

	"github.com/superfly/ltx"
)

const (
	// EmptyChecksum is what an empty or dropped database reports.
	EmptyChecksum = uint64(1) << 63
	PendingByte   = 0x40000000
)

var isoTable = crc64.MakeTable(crc64.ISO)

// LockPgno is the page that contains SQLite's lock bytes.
func LockPgno(pageSize int) uint32 { return uint32(PendingByte/pageSize) + 1 }

// PageChecksum is CRC64-ISO(big-endian page number || page bytes) with the top bit set.
func PageChecksum(pgno uint32, data []byte) uint64 {
	h := crc64.New(isoTable)
	var b [4]byte
	binary.BigEndian.PutUint32(b[:], pgno)
	h.Write(b[:])
	h.Write(data)
	return h.Sum64() | EmptyChecksum
}

// Image is a logical database image: page i (1-based) is Pages[i-1].
type Image struct {
	PageSize int
	Pages    [][]byte
}

// N returns the size in pages.
func (im *Image) N() uint32 {
	if im == nil {
		return 0
	}
	return uint32(len(im.Pages))
}

// Clone deep-copies the image.
func (im *Image) Clone() *Image {
	if im == nil {
		return nil
	}
	out := &Image{PageSize: im.PageSize, Pages: make([][]byte, len(im.Pages))}
	for i, p := range im.Pages {
		out.Pages[i] = append([]byte(nil), p...)
	}
	return out
}

// Checksum is the from-scratch database checksum of the property statement.
func (im *Image) Checksum() uint64 {
	if im == nil || len(im.Pages) == 0 {
		return EmptyChecksum
	}
	lock := LockPgno(im.PageSize)
	var c uint64
	for i, p := range im.Pages {
		pgno := uint32(i + 1)
		if pgno == lock {
			continue
		}
		c ^= PageChecksum(pgno, p)
	}
	return c | EmptyChecksum
}

// Bytes concatenates all pages.
func (im *Image) Bytes() []byte {
	if im == nil {
		return nil
	}
	var b bytes.Buffer
	for _, p := range im.Pages {
		b.Write(p)
	}
	return b.Bytes()
}

// Equal compares two images ignoring the lock page; it returns a description of the first difference.
func (im *Image) Equal(other *Image) (bool, string) {
	if im.N() != other.N() {
		return false, fmt.Sprintf("size %d pages vs %d pages", im.N(), other.N())
	}
	if im.N() == 0 {
		return true, ""
	}
	if im.PageSize != other.PageSize {
		return false, fmt.Sprintf("page size %d vs %d", im.PageSize, other.PageSize)
	}
	lock := LockPgno(im.PageSize)
	for i := range im.Pages {
		if uint32(i+1) == lock {
			continue
		}
		if !bytes.Equal(im.Pages[i], other.Pages[i]) {
			return false, fmt.Sprintf("page %d differs (%x.. vs %x..)", i+1, head(im.Pages[i]), head(other.Pages[i]))
		}
	}
	return true, ""
}

func head(b []byte) []byte {
	// skip the sqlite header region on page 1 so versions are visible
	if len(b) >= 128 {
		return b[112:128]
	}
	if len(b) > 16 {
		return b[:16]
	}
	return b
}

// ImageFromBytes splits raw database bytes into pages. A trailing partial page is an error.
func ImageFromBytes(b []byte, pageSize int) (*Image, error) {
	if len(b) == 0 {
		return &Image{PageSize: pageSize}, nil
	}
	if pageSize <= 0 {
		return nil, fmt.Errorf("page size unknown for %d bytes", len(b))
	}
	if len(b)%pageSize != 0 {
		return nil, fmt.Errorf("database length %d is not a multiple of page size %d", len(b), pageSize)
	}
	im := &Image{PageSize: pageSize}
	for off := 0; off < len(b); off += pageSize {
		im.Pages = append(im.Pages, append([]byte(nil), b[off:off+pageSize]...))
	}
	return im, nil
}

// HeaderPageSize reads the page size from a SQLite header (0 if none).
func HeaderPageSize(page1 []byte) int {
	if len(page1) < 100 || string(page1[:16]) != "SQLite format 3\x00" {
		return 0
	}
	ps := int(binary.BigEndian.Uint16(page1[16:]))
	if ps == 1 {
		ps = 65536
	}
	return ps
}

// HeaderPageCount reads the in-header database size in pages.
func HeaderPageCount(page1 []byte) uint32 {
	if len(page1) < 100 {
		return 0
	}
	return binary.BigEndian.Uint32(page1[28:])
}

// ---------------------------------------------------------------------------
// WAL reference reader (SQLite's rules: header magic/version/checksum, per-frame
// salt match, cumulative checksum, commit frames).

// WALFrame is one valid frame.
type WALFrame struct {
	Pgno   uint32
	Commit uint32
	Offset int64 // of the frame header
	Data   []byte
}

// WALInfo is the result of scanning a WAL by SQLite's rules.
type WALInfo struct {
	Valid      bool // header valid
	PageSize   int
	BigEndian  bool
	Salt1      uint32
	Salt2      uint32
	Frames     []WALFrame // longest valid prefix
	LastCommit int        // index+1 of the last commit frame in Frames (0 = none)
}

func walChecksum(bo binary.ByteOrder, s0, s1 uint32, b []byte) (uint32, uint32) {
	for i := 0; i+8 <= len(b); i += 8 {
		s0 += bo.Uint32(b[i:]) + s1
		s1 += bo.Uint32(b[i+4:]) + s0
	}
	return s0, s1
}

// ScanWAL parses raw WAL bytes.
func ScanWAL(b []byte) WALInfo {
	var info WALInfo
	if len(b) < 32 {
		return info
	}
	magic := binary.BigEndian.Uint32(b[0:])
	var bo binary.ByteOrder
	switch magic {
	case 0x377f0682:
		bo = binary.LittleEndian
	case 0x377f0683:
		bo = binary.BigEndian
		info.BigEndian = true
	default:
		return info
	}
	if binary.BigEndian.Uint32(b[4:]) != 3007000 {
		return info
	}
	ps := int(binary.BigEndian.Uint32(b[8:]))
	if ps < 512 || ps > 65536 || ps&(ps-1) != 0 {
		return info
	}
	c0, c1 := walChecksum(bo, 0, 0, b[:24])
	if c0 != binary.BigEndian.Uint32(b[24:]) || c1 != binary.BigEndian.Uint32(b[28:]) {
		return info
	}
	info.Valid = true
	info.PageSize = ps
	info.Salt1 = binary.BigEndian.Uint32(b[16:])
	info.Salt2 = binary.BigEndian.Uint32(b[20:])
	frameSize := 24 + ps
	for off := 32; off+frameSize <= len(b); off += frameSize {
		fh := b[off : off+24]
		if binary.BigEndian.Uint32(fh[8:]) != info.Salt1 || binary.BigEndian.Uint32(fh[12:]) != info.Salt2 {
			break
		}
		pgno := binary.BigEndian.Uint32(fh[0:])
		c0, c1 = walChecksum(bo, c0, c1, fh[:8])
		c0, c1 = walChecksum(bo, c0, c1, b[off+24:off+frameSize])
		if c0 != binary.BigEndian.Uint32(fh[16:]) || c1 != binary.BigEndian.Uint32(fh[20:]) {
			break
		}
		fr := WALFrame{Pgno: pgno, Commit: binary.BigEndian.Uint32(fh[4:]), Offset: int64(off), Data: append([]byte(nil), b[off+24:off+frameSize]...)}
		info.Frames = append(info.Frames, fr)
		if fr.Commit != 0 {
			info.LastCommit = len(info.Frames)
		}
	}
	return info
}

// LogicalImage overlays the committed WAL frames on the raw database file.
// pageSizeHint is used when the database file has no valid header.
func LogicalImage(dbBytes, walBytes []byte, pageSizeHint int) (*Image, error) {
	ps := HeaderPageSize(dbBytes)
	wal := ScanWAL(walBytes)
	if ps == 0 && wal.Valid {
		ps = wal.PageSize
	}
	if ps == 0 {
		ps = pageSizeHint
	}
	if len(dbBytes) == 0 && wal.LastCommit == 0 {
		return &Image{PageSize: ps}, nil
	}
	if ps == 0 {
		return nil, fmt.Errorf("cannot determine page size")
	}
	// The database file may be longer or shorter than the logical size while WAL frames are pending.
	pages := map[uint32][]byte{}
	n := uint32(len(dbBytes) / ps)
	for i := uint32(0); i < n; i++ {
		pages[i+1] = dbBytes[int(i)*ps : int(i+1)*ps]
	}
	size := n
	if len(dbBytes)%ps != 0 {
		return nil, fmt.Errorf("database file length %d not page aligned (%d)", len(dbBytes), ps)
	}
	if wal.Valid && wal.PageSize == ps {
		for _, fr := range wal.Frames[:wal.LastCommit] {
			pages[fr.Pgno] = fr.Data
		}
		if wal.LastCommit > 0 {
			size = wal.Frames[wal.LastCommit-1].Commit
		}
	}
	im := &Image{PageSize: ps}
	for pg := uint32(1); pg <= size; pg++ {
		p, ok := pages[pg]
		if !ok {
			if pg == LockPgno(ps) {
				p = make([]byte, ps)
			} else {
				// Neither in the log nor in the (shorter) file: SQLite reads such a page as zeros (a free-list leaf that was
				// never written). A page that should have content and is missing shows up in the comparison with the reference image.
				p = make([]byte, ps)
			}
		}
		im.Pages = append(im.Pages, append([]byte(nil), p...))
	}
	return im, nil
}

// ReadLogicalImage reads dbs/<name>/{database,wal} from a data directory.
func ReadLogicalImage(dbDir string, pageSizeHint int) (*Image, error) {
	dbBytes, err := os.ReadFile(filepath.Join(dbDir, "database"))
	if err != nil && !os.IsNotExist(err) {
		return nil, err
	}
	walBytes, err := os.ReadFile(filepath.Join(dbDir, "wal"))
	if err != nil && !os.IsNotExist(err) {
		return nil, err
	}
	return LogicalImage(dbBytes, walBytes, pageSizeHint)
}

// ---------------------------------------------------------------------------
// LTX files.

// LTXPage is one page of a decoded LTX file.
type LTXPage struct {
	Pgno uint32
	Data []byte
}

// LTXFile is a fully decoded and CRC-verified transaction file.
type LTXFile struct {
	Name    string
	Header  ltx.Header
	Trailer ltx.Trailer
	Pages   []LTXPage
	Size    int64
}

// DecodeLTX decodes and verifies b.
func DecodeLTX(b []byte) (*LTXFile, error) {
	dec := ltx.NewDecoder(bytes.NewReader(b))
	if err := dec.DecodeHeader(); err != nil {
		return nil, fmt.Errorf("header: %w", err)
	}
	f := &LTXFile{Header: dec.Header(), Size: int64(len(b))}
	for {
		var ph ltx.PageHeader
		buf := make([]byte, f.Header.PageSize)
		if err := dec.DecodePage(&ph, buf); err == io.EOF {
			break
		} else if err != nil {
			return nil, fmt.Errorf("page: %w", err)
		}
		f.Pages = append(f.Pages, LTXPage{Pgno: ph.Pgno, Data: buf})
	}
	if err := dec.Close(); err != nil {
		return nil, fmt.Errorf("close: %w", err)
	}
	f.Trailer = dec.Trailer()
	return f, nil
}

// DecodeLTXFile reads and decodes path.
func DecodeLTXFile(path string) (*LTXFile, error) {
	b, err := os.ReadFile(path)
	if err != nil {
		return nil, err
	}
	f, err := DecodeLTX(b)
	if err != nil {
		return nil, fmt.Errorf("%s: %w", filepath.Base(path), err)
	}
	f.Name = filepath.Base(path)
	return f, nil
}

// Apply applies the file's pages and commit size to prev and returns the new image.
func (f *LTXFile) Apply(prev *Image) (*Image, error) {
	ps := int(f.Header.PageSize)
	out := &Image{PageSize: ps}
	if prev != nil && prev.N() > 0 {
		if prev.PageSize != ps {
			if !f.Header.IsSnapshot() {
				return nil, fmt.Errorf("ltx page size %d applied to image with page size %d", ps, prev.PageSize)
			}
		} else {
			out = prev.Clone()
		}
	}
	if f.Header.IsSnapshot() {
		out = &Image{PageSize: ps}
	}
	commit := f.Header.Commit
	lock := LockPgno(ps)
	for _, p := range f.Pages {
		if p.Pgno == 0 || p.Pgno > commit {
			return nil, fmt.Errorf("ltx page %d beyond commit %d", p.Pgno, commit)
		}
		if p.Pgno == lock {
			return nil, fmt.Errorf("ltx contains the lock page %d", p.Pgno)
		}
		for uint32(len(out.Pages)) < p.Pgno {
			out.Pages = append(out.Pages, nil)
		}
		out.Pages[p.Pgno-1] = append([]byte(nil), p.Data...)
	}
	if uint32(len(out.Pages)) > commit {
		out.Pages = out.Pages[:commit]
	}
	for uint32(len(out.Pages)) < commit {
		out.Pages = append(out.Pages, nil)
	}
	for i, p := range out.Pages {
		if p == nil {
			if uint32(i+1) == lock {
				out.Pages[i] = make([]byte, ps)
				continue
			}
			return nil, fmt.Errorf("after applying %s page %d of %d has no content", f.Name, i+1, commit)
		}
	}
	return out, nil
}

var ltxNameRe = regexp.MustCompile(`^([0-9a-f]{16})-([0-9a-f]{16})\.ltx$`)

// ChainResult is the verdict on an LTX directory.
type ChainResult struct {
	Files  []*LTXFile
	Stray  []string // names in the directory that are not transaction files (tmp files etc.)
	Errors []string
}

// CheckChain validates a database's ltx directory: names parse, files decode
// and pass their own CRC, ranges are contiguous, pre = previous post, and the
// chain ends at (wantTXID, wantChecksum) when wantTXID != 0. An empty
// directory is valid only for position zero.
func CheckChain(dir string, wantTXID uint64, wantChecksum uint64) ChainResult {
	var res ChainResult
	ents, err := os.ReadDir(dir)
	if err != nil {
		if os.IsNotExist(err) {
			if wantTXID != 0 {
				res.Errors = append(res.Errors, fmt.Sprintf("ltx directory missing but position is %d", wantTXID))
			}
			return res
		}
		res.Errors = append(res.Errors, err.Error())
		return res
	}
	var names []string
	for _, e := range ents {
		if ltxNameRe.MatchString(e.Name()) {
			names = append(names, e.Name())
		} else {
			res.Stray = append(res.Stray, e.Name())
		}
	}
	sort.Strings(names)
	var prev *LTXFile
	for _, name := range names {
		m := ltxNameRe.FindStringSubmatch(name)
		min, _ := strconv.ParseUint(m[1], 16, 64)
		max, _ := strconv.ParseUint(m[2], 16, 64)
		f, err := DecodeLTXFile(filepath.Join(dir, name))
		if err != nil {
			res.Errors = append(res.Errors, fmt.Sprintf("file does not verify: %v", err))
			continue
		}
		res.Files = append(res.Files, f)
		if uint64(f.Header.MinTXID) != min || uint64(f.Header.MaxTXID) != max {
			res.Errors = append(res.Errors, fmt.Sprintf("%s: header range %d-%d does not match name", name, f.Header.MinTXID, f.Header.MaxTXID))
		}
		if prev != nil {
			if uint64(f.Header.MinTXID) != uint64(prev.Header.MaxTXID)+1 {
				res.Errors = append(res.Errors, fmt.Sprintf("%s does not start at previous max+1 (%d)", name, uint64(prev.Header.MaxTXID)+1))
			}
			if !f.Header.IsSnapshot() && uint64(f.Header.PreApplyChecksum) != uint64(prev.Trailer.PostApplyChecksum) {
				res.Errors = append(res.Errors, fmt.Sprintf("%s pre-checksum %016x != previous post-checksum %016x", name, uint64(f.Header.PreApplyChecksum), uint64(prev.Trailer.PostApplyChecksum)))
			}
		}
		prev = f
	}
	if wantTXID != 0 || len(names) > 0 {
		if prev == nil {
			if wantTXID != 0 {
				res.Errors = append(res.Errors, fmt.Sprintf("no transaction file but position is %d", wantTXID))
			}
		} else if uint64(prev.Header.MaxTXID) != wantTXID || uint64(prev.Trailer.PostApplyChecksum) != wantChecksum {
			res.Errors = append(res.Errors, fmt.Sprintf("chain ends at (%d,%016x) but position is (%d,%016x)", uint64(prev.Header.MaxTXID), uint64(prev.Trailer.PostApplyChecksum), wantTXID, wantChecksum))
		}
	}
	return res
}
