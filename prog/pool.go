package prog

import (
	"encoding/json"
	"fmt"
	"testing"
	"time"

	"verif/vlib"
)

// Stats aggregates a pool run over cases.
type Stats struct {
	Cases     int
	Steps     int64
	Classes   vlib.Distinct
	Samples   []any
	Crashes   int
	Flaky     int
	Harness   int
}

// ServeIfWorker turns this process into a pool worker when it was started as one.
func ServeIfWorker(t *testing.T, prop string) {
	if !vlib.IsWorker() {
		return
	}
	vlib.Serve(func(in json.RawMessage) any {
		var c Case
		if err := json.Unmarshal(in, &c); err != nil {
			return Result{Harness: "bad case: " + err.Error()}
		}
		return Run(t, prop, c)
	})
}

// RunAll executes all cases on a worker pool and folds violations into run.
func RunAll(run *vlib.Run, prop string, cases []Case, st *Stats) {
	pool := vlib.NewPool()
	defer pool.Close()
	anyCases := make([]any, len(cases))
	for i := range cases {
		anyCases[i] = cases[i]
		if int64(cases[i].PageSize)*int64(cases[i].Start) >= 1<<28 {
			// programs on databases of a gigabyte and more share the machine's memory bandwidth with fifteen others
			pool.CaseTimeout = 20 * time.Minute
		}
	}
	pool.Run(anyCases, func(i int, out json.RawMessage, crash *vlib.Crash, flaky bool) {
		st.Cases++
		if flaky {
			st.Flaky++
			run.HarnessError("case %d crashed once and passed on re-run (non-determinism): %s", i, caseJSON(cases[i]))
		}
		if crash != nil {
			st.Crashes++
			key := "crash/" + crashKey(crash)
			run.Violation(key, fmt.Sprintf("worker process died twice on the same case (timeout=%v)\ncase: %s\noutput tail:\n%s", crash.Timeout, caseJSON(cases[i]), tail(crash.Output, 3000)),
				map[string]any{"case": cases[i]})
			return
		}
		var res Result
		if err := json.Unmarshal(out, &res); err != nil {
			run.HarnessError("bad result for case %d: %v", i, err)
			return
		}
		if res.Harness != "" {
			st.Harness++
			run.HarnessError("case %d: %s\ncase: %s", i, res.Harness, caseJSON(cases[i]))
		}
		st.Steps += int64(res.Steps)
		st.Classes.Add(res.Class)
		for _, v := range res.V {
			run.Violation(v.Key, v.What+"\ncase: "+caseJSON(cases[i]), map[string]any{"case": cases[i]})
		}
		if len(st.Samples) < 5 && i%(len(cases)/5+1) == 0 {
			st.Samples = append(st.Samples, map[string]any{"case": cases[i], "txid_deltas": res.Deltas, "file_operations": res.Steps})
		}
	})
}

func caseJSON(c Case) string { b, _ := json.Marshal(c); return string(b) }

func tail(s string, n int) string {
	if len(s) > n {
		return s[len(s)-n:]
	}
	return s
}

func crashKey(c *vlib.Crash) string {
	if c.Timeout {
		return "timeout"
	}
	if m := litefsFrameRe.FindStringSubmatch(c.Output); m != nil {
		return m[1] + "." + m[2]
	}
	return "exit"
}
