// Package prog runs single-node pager programs (sequences of rollback-journal
// transactions, WAL transactions, checkpoints, LiteFS recoveries, restarts)
// against a real primary store and evaluates the capture oracles of C02/C03
// plus the C04/C09 monitors after every operation.
package prog

import (
	"bytes"
	"context"
	"encoding/json"
	"fmt"
	"os"
	"path/filepath"
	"regexp"
	"runtime/debug"
	"strings"
	"testing"
	"testing/synctest"

	"github.com/superfly/litefs"
	"github.com/superfly/ltx"
	"verif/lab"
	"verif/mon"
	"verif/oracle"
	"verif/pager"
)

// Op is one operation of a program.
type Op struct {
	Kind string `json:"k"` // rtx | wtx | ckpt | recover | restart
	R    *pager.RTx `json:"r,omitempty"`
	W    *pager.WTx `json:"w,omitempty"`
	Mode string     `json:"m,omitempty"` // checkpoint mode
	Max  uint32     `json:"x,omitempty"` // checkpoint frame limit
}

func (o Op) String() string {
	switch o.Kind {
	case "rtx":
		b, _ := json.Marshal(o.R)
		return "rtx" + string(b)
	case "wtx":
		b, _ := json.Marshal(o.W)
		return "wtx" + string(b)
	case "ckpt":
		return fmt.Sprintf("ckpt(%s,%d)", o.Mode, o.Max)
	case "leave-wal":
		return "leave-wal(" + o.Mode + ")"
	case "stray-wal":
		return "stray-wal(" + o.Mode + ")"
	case "repage":
		return fmt.Sprintf("page_size=%d", o.Max)
	}
	return o.Kind
}

// Case is one program with its configuration.
type Case struct {
	PageSize int    `json:"ps"`
	Start    uint32 `json:"start"` // pages of the initial database
	StartWAL bool   `json:"wal"`
	Compress bool   `json:"lz4,omitempty"`
	Ops      []Op   `json:"ops"`
	// Intrude: while LiteFS captures a WAL transaction (the first file-system mutation of CommitWAL) two other
	// connections try their luck - a RESTART checkpoint and a one-frame write transaction. The capture runs before the
	// write lock is released, so both must find the database busy and change nothing.
	Intrude bool `json:"intrude,omitempty"`
}

// V is a violation found while running a case.
type V struct {
	Key  string `json:"key"`
	What string `json:"what"`
}

// Result is returned for each case.
type Result struct {
	V       []V      `json:"v,omitempty"`
	Class   string   `json:"class"` // outcome class (distinct-outcome counting)
	Steps   int      `json:"steps"` // file operations issued
	Deltas  []int    `json:"deltas"`
	Trace   []string `json:"trace,omitempty"`
	Harness string   `json:"harness,omitempty"`
}

var litefsFrameRe = regexp.MustCompile(`github\.com/superfly/litefs(?:/[a-z]+)?\.\(?\*?([A-Za-z]+)\)?\.([A-Za-z0-9_]+)`)

// PanicKey builds a stable key from a panic value and stack.
func PanicKey(r any, stack []byte) string {
	m := litefsFrameRe.FindSubmatch(stack)
	fn := "unknown"
	if m != nil {
		fn = string(m[1]) + "." + string(m[2])
	}
	msg := fmt.Sprint(r)
	msg = regexp.MustCompile(`[0-9]+`).ReplaceAllString(msg, "N")
	if len(msg) > 60 {
		msg = msg[:60]
	}
	return "panic/" + fn + "/" + strings.ReplaceAll(msg, " ", "_")
}

type runner struct {
	prop string
	c    Case
	res  *Result
	node *lab.Node
	dir  string
	img  *oracle.Image // committed reference image
	a, b *pager.Conn
	sub  *litefs.EventSubscriber
	hist []string

	lastLTX *oracle.LTXFile

	armed, intruding bool
	intruded         int
	intruderGotIn    string
}

func (r *runner) viol(key, format string, args ...any) {
	what := fmt.Sprintf(format, args...) + "\nprogram so far: " + strings.Join(r.hist, " ; ")
	for _, v := range r.res.V {
		if v.Key == key {
			return
		}
	}
	r.res.V = append(r.res.V, V{Key: key, What: what})
}

// Run executes the case inside a fresh bubble. prop names the property for keys of the capture oracle.
func Run(t *testing.T, prop string, c Case) (res Result) {
	synctest.Test(t, func(t *testing.T) {
		r := &runner{prop: prop, c: c, res: &res}
		r.dir = lab.ScratchDir("prog")
		defer lab.RemoveAll(r.dir)
		defer func() {
			if p := recover(); p != nil {
				st := debug.Stack()
				r.viol(PanicKey(p, st), "panic escaped to the file-system caller: %v\n%s", p, trimStack(st))
				res.Class += "|panic"
			}
			if r.a != nil {
				safeClose(r.a)
			}
			if r.b != nil {
				safeClose(r.b)
			}
			if r.node != nil {
				_ = r.node.Stop()
			}
		}()
		r.run()
	})
	return res
}

func safeClose(c *pager.Conn) {
	defer func() { _ = recover() }()
	c.Before = nil
	c.Close()
}

func trimStack(st []byte) string {
	lines := strings.Split(string(st), "\n")
	var keep []string
	for i := 0; i < len(lines) && len(keep) < 24; i++ {
		if strings.Contains(lines[i], "superfly/litefs") || strings.Contains(lines[i], "panic") {
			keep = append(keep, strings.TrimSpace(lines[i]))
		}
	}
	return strings.Join(keep, "\n")
}

// intrude is called from inside CommitWAL (through the OS layer) when the case asks for it.
func (r *runner) intrude(op, call, name string) error {
	if !r.c.Intrude || !r.armed || r.intruding || !strings.HasPrefix(op, "COMMITWAL") {
		return nil
	}
	r.intruding = true
	defer func() { r.intruding = false }()
	r.armed = false
	r.intruded++
	k := pager.NewConn(r.node.M, "db", 7, r.c.PageSize)
	if err := k.Checkpoint("RESTART", 0); err == nil {
		r.intruderGotIn += "checkpoint "
	}
	k.Close()
	w := pager.NewConn(r.node.M, "db", 8, r.c.PageSize)
	if res := w.RunWTx(pager.WTx{Frames: []uint32{2}, Outcome: "commit"}, r.img); res.Committed {
		r.intruderGotIn += "writer "
	}
	w.Close()
	return nil
}

func (r *runner) start() error {
	n, err := lab.StartPrimary(r.dir, lab.NodeConfig{Compress: r.c.Compress, WrapOS: func(inner litefs.OS) litefs.OS {
		return &lab.HookOS{Inner: inner, Before: r.intrude}
	}})
	if err != nil {
		return err
	}
	r.node = n
	r.sub = n.Store.SubscribeEvents()
	r.a = pager.NewConn(n.M, "db", 1, r.c.PageSize)
	r.b = pager.NewConn(n.M, "db", 2, r.c.PageSize)
	return nil
}

func (r *runner) run() {
	if err := r.start(); err != nil {
		r.res.Harness = "start: " + err.Error()
		return
	}
	// Initial database: one creating transaction, optionally a switch to WAL mode.
	if r.c.Start > 0 {
		r.hist = append(r.hist, fmt.Sprintf("create(%d pages, ps=%d)", r.c.Start, r.c.PageSize))
		if !r.rtx(pager.RTx{Create: true, NewSize: r.c.Start, Final: "DELETE", Outcome: "commit"}, true) {
			return
		}
		if r.c.StartWAL {
			r.hist = append(r.hist, "to-wal")
			if !r.rtx(pager.RTx{ToWAL: true, Final: "DELETE", Outcome: "commit"}, true) {
				return
			}
			r.a.Close()
		}
	}
	var classes []string
	for _, op := range r.c.Ops {
		r.hist = append(r.hist, op.String())
		ok := true
		switch op.Kind {
		case "rtx":
			ok = r.rtx(*op.R, false)
		case "wtx":
			ok = r.wtx(*op.W)
		case "ckpt":
			ok = r.ckpt(op.Mode, op.Max)
		case "recover":
			ok = r.recoverStore()
		case "leave-wal":
			ok = r.leaveWAL(op.Mode)
		case "stray-wal":
			ok = r.strayWAL(op.Mode)
		case "restart":
			ok = r.restart()
		case "repage":
			// PRAGMA page_size on a database that has no page yet: the next creating transaction uses op.Max bytes per page
			if r.img != nil && r.img.N() > 0 {
				r.res.Harness = "illegal program: repage on a database that has pages"
				ok = false
				break
			}
			r.c.PageSize = int(op.Max)
			r.a.Close()
			r.b.Close()
			r.a = pager.NewConn(r.node.M, "db", 1, r.c.PageSize)
			r.b = pager.NewConn(r.node.M, "db", 2, r.c.PageSize)
			r.img = &oracle.Image{PageSize: r.c.PageSize}
			ok = true
		}
		if !ok {
			classes = append(classes, "stop")
			break
		}
	}
	r.res.Steps = r.a.Steps + r.b.Steps
	for _, d := range r.res.Deltas {
		classes = append(classes, fmt.Sprint(d))
	}
	r.res.Class = strings.Join(classes, ",")
	if codes := r.node.ExitCodes(); len(codes) > 0 {
		r.viol("exit/"+fmt.Sprint(codes[0]), "Store.Exit(%v) was called on a legal program", codes)
	}
}

type posT struct {
	txid uint64
	chk  uint64
}

func (r *runner) pos() posT {
	db := r.node.DB("db")
	if db == nil {
		return posT{}
	}
	p := db.Pos()
	return posT{uint64(p.TXID), uint64(p.PostApplyChecksum)}
}

func (r *runner) drainTxEvent() (last *litefs.TxEventData, n int) {
	for {
		select {
		case ev, ok := <-r.sub.C():
			if !ok {
				return last, n
			}
			if ev.Type == litefs.EventTypeTx {
				d := ev.Data.(litefs.TxEventData)
				last = &d
				n++
			}
		default:
			return last, n
		}
	}
}

// afterOp evaluates everything that must hold once an operation has finished.
func (r *runner) afterOp(what string, before posT, prevImg *oracle.Image, committed bool, mustAdvance, mayAdvance bool, legalErr error, errStep string) bool {
	p := r.prop
	if legalErr != nil {
		r.viol(p+"/op-error/"+what+"/"+stepKind(errStep), "%s: operation %q failed on a writable node: %v", what, errStep, legalErr)
		return false
	}
	after := r.pos()
	delta := int(after.txid) - int(before.txid)
	r.res.Deltas = append(r.res.Deltas, delta)
	if delta < 0 || delta > 1 {
		r.viol(p+"/delta-txid/"+what, "%s: TXID moved by %d (from %d to %d)", what, delta, before.txid, after.txid)
		return false
	}
	if mustAdvance && delta != 1 {
		r.viol(p+"/commit-not-captured/"+what, "%s: committed transaction but TXID stayed at %d", what, before.txid)
	}
	if !mayAdvance && delta != 0 {
		r.viol(p+"/spurious-capture/"+what, "%s: no committed transaction but TXID advanced from %d to %d", what, before.txid, after.txid)
	}
	ev, nev := r.drainTxEvent()
	db := r.node.DB("db")
	if delta == 1 {
		// Exactly one new file named <txid>-<txid>.ltx that applied to the previous image gives the intended image.
		path := db.LTXPath(litefsTXID(after.txid), litefsTXID(after.txid))
		f, err := oracle.DecodeLTXFile(path)
		if err != nil {
			r.viol(p+"/ltx-unreadable/"+what, "%s: transaction file for TXID %d: %v (dir: %v)", what, after.txid, err, mon.ListLTX(db.LTXDir()))
			return false
		}
		if uint64(f.Header.MinTXID) != before.txid+1 || uint64(f.Header.MaxTXID) != before.txid+1 {
			r.viol(p+"/ltx-txid/"+what, "%s: file covers %d-%d, want %d", what, f.Header.MinTXID, f.Header.MaxTXID, before.txid+1)
		}
		if before.txid > 0 && uint64(f.Header.PreApplyChecksum) != before.chk {
			r.viol(p+"/ltx-prechecksum/"+what, "%s: pre-apply checksum %016x, previous position checksum %016x", what, uint64(f.Header.PreApplyChecksum), before.chk)
		}
		for i := 1; i < len(f.Pages); i++ {
			if f.Pages[i-1].Pgno >= f.Pages[i].Pgno {
				r.viol(p+"/ltx-order/"+what, "%s: pages not strictly ascending: %d then %d", what, f.Pages[i-1].Pgno, f.Pages[i].Pgno)
			}
		}
		applied, err := f.Apply(prevImg)
		if err != nil {
			r.viol(p+"/ltx-apply/"+what, "%s: %v", what, err)
		} else if ok, d := applied.Equal(r.img); !ok {
			r.viol(p+"/ltx-image/"+what, "%s: transaction file applied to the previous image differs from the image SQLite now sees: %s (file pages %v, commit %d)", what, d, pgnos(f), f.Header.Commit)
		}
		if got, want := uint64(f.Trailer.PostApplyChecksum), r.img.Checksum(); got != want {
			r.viol(p+"/ltx-postchecksum/"+what, "%s: post-apply checksum %016x, from-scratch checksum of the intended image %016x", what, got, want)
		}
		if uint64(f.Trailer.PostApplyChecksum) != after.chk {
			r.viol(p+"/pos-vs-ltx/"+what, "%s: position checksum %016x differs from the file's post-apply checksum %016x", what, after.chk, uint64(f.Trailer.PostApplyChecksum))
		}
		if f.Header.PageSize != uint32(r.img.PageSize) {
			r.viol(p+"/ltx-pagesize/"+what, "%s: page size %d want %d", what, f.Header.PageSize, r.img.PageSize)
		}
		if nev != 1 || ev == nil || uint64(ev.TXID) != after.txid || uint64(ev.PostApplyChecksum) != after.chk {
			r.viol(p+"/tx-event/"+what, "%s: %d tx events, last=%+v, position (%d,%016x)", what, nev, ev, after.txid, after.chk)
		}
		r.lastLTX = f
	} else {
		if after != before {
			r.viol(p+"/checksum-changed/"+what, "%s: TXID unchanged but checksum moved %016x -> %016x", what, before.chk, after.chk)
		}
		if nev != 0 {
			r.viol(p+"/tx-event/"+what, "%s: %d tx events without a transaction", what, nev)
		}
	}
	if !committed {
		if ok, d := r.img.Equal(prevImg); !ok {
			r.res.Harness = "simulator changed the reference image on a non-commit: " + d
			return false
		}
	}
	// pos file through the mount
	if after.txid > 0 || r.node.M.Exists("db-pos") {
		if s, err := r.node.M.ReadPos("db"); err != nil {
			r.viol(p+"/pos-file/"+what, "%s: cannot read db-pos: %v", what, err)
		} else if want := fmt.Sprintf("%016x/%016x\n", after.txid, after.chk); s != want {
			r.viol(p+"/pos-file/"+what, "%s: db-pos reads %q want %q", what, s, want)
		}
	}
	// Monitors + on-disk logical image.
	_, fs := mon.CheckDB(r.node, "db", r.img)
	for _, f := range fs {
		r.viol("mon-"+f.Prop+"/"+f.Key+"/"+what, "%s: %s", what, f.What)
	}
	// What a fresh connection reads through the mount.
	if r.img.N() > 0 {
		rd := pager.NewConn(r.node.M, "db", 9, r.img.PageSize)
		var got *oracle.Image
		var err error
		if r.walMode() {
			got, err = rd.ReadImageWAL()
		} else {
			got, err = rd.ReadImage()
		}
		rd.Close()
		if err != nil {
			r.viol(p+"/read-error/"+what, "%s: reader through the mount failed: %v", what, err)
		} else if ok, d := got.Equal(r.img); !ok {
			r.viol(p+"/read-image/"+what, "%s: image read through the mount differs from the image at the current position: %s", what, d)
		}
	}
	if codes := r.node.ExitCodes(); len(codes) > 0 {
		r.viol("exit/"+fmt.Sprint(codes[0])+"/"+what, "%s: Store.Exit(%v) called", what, codes)
		return false
	}
	return len(r.res.V) == 0
}

func stepKind(s string) string {
	f := strings.Fields(s)
	if len(f) > 3 {
		f = f[:3]
	}
	out := strings.Join(f, "_")
	return regexp.MustCompile(`[0-9]+`).ReplaceAllString(out, "N")
}

func pgnos(f *oracle.LTXFile) []uint32 {
	var out []uint32
	for _, p := range f.Pages {
		out = append(out, p.Pgno)
	}
	if len(out) > 12 {
		out = append(out[:12], 0)
	}
	return out
}

func (r *runner) walMode() bool {
	return r.img.N() > 0 && r.img.Pages[0][18] == 2
}

func (r *runner) guarded(what string, fn func()) (ok bool) {
	defer func() {
		if p := recover(); p != nil {
			st := debug.Stack()
			r.viol(PanicKey(p, st), "%s: panic escaped to the file-system caller: %v\n%s", what, p, trimStack(st))
			ok = false
		}
	}()
	fn()
	return true
}

func (r *runner) rtx(tx pager.RTx, setup bool) bool {
	before := r.pos()
	prev := r.img
	var res pager.RTxResult
	what := "rtx-" + tx.Outcome + "-" + tx.Final
	if !r.guarded(what, func() { res = r.a.RunRTx(tx, r.img) }) {
		return false
	}
	if res.Committed {
		r.img = res.Intended
	}
	if prev == nil {
		prev = &oracle.Image{PageSize: r.c.PageSize}
	}
	if r.img == nil {
		r.img = &oracle.Image{PageSize: r.c.PageSize}
	}
	ok := r.afterOp(what, before, prev, res.Committed, res.Committed, tx.Outcome != "lockonly", res.Err, res.ErrStep)
	if setup && !ok {
		r.res.Harness = ""
	}
	if res.Committed && (tx.ToWAL || tx.FromWAL) {
		r.a.Close()
	}
	return ok
}

func (r *runner) wtx(tx pager.WTx) bool {
	before := r.pos()
	prev := r.img
	var res pager.WTxResult
	what := "wtx-" + tx.Outcome
	r.armed = true
	if !r.guarded(what, func() { res = r.a.RunWTx(tx, r.img) }) {
		return false
	}
	r.armed = false
	if r.intruderGotIn != "" {
		r.viol(r.prop+"/capture-after-release/"+strings.ReplaceAll(strings.TrimSpace(r.intruderGotIn), " ", "+"), "while LiteFS was capturing the transaction another connection got in (%s): the capture must run before the write lock is released", r.intruderGotIn)
		r.intruderGotIn = ""
	}
	if res.Busy {
		r.res.Harness = "unexpected SQLITE_BUSY in a single-writer program at " + res.ErrStep
		return false
	}
	if res.Committed {
		r.img = res.Intended
	}
	ok := r.afterOp(what, before, prev, res.Committed, res.Committed, res.Committed, res.Err, res.ErrStep)
	if ok && res.Committed && r.lastLTX != nil {
		h := r.lastLTX.Header
		if h.WALOffset != res.WALOffset || h.WALSize != res.WALSize || h.WALSalt1 != res.Salt1 || h.WALSalt2 != res.Salt2 {
			r.viol(r.prop+"/ltx-wal-fields", "wtx: LTX header says WAL offset=%d size=%d salt=%08x,%08x; the frames were written at offset=%d size=%d salt=%08x,%08x",
				h.WALOffset, h.WALSize, h.WALSalt1, h.WALSalt2, res.WALOffset, res.WALSize, res.Salt1, res.Salt2)
			ok = false
		}
	}
	return ok
}

func (r *runner) ckpt(mode string, max uint32) bool {
	before := r.pos()
	var err error
	what := "ckpt-" + mode
	if !r.guarded(what, func() { err = r.b.Checkpoint(mode, max) }) {
		return false
	}
	if err == pager.ErrBusy {
		r.res.Harness = "unexpected SQLITE_BUSY in checkpoint"
		return false
	}
	return r.afterOp(what, before, r.img, false, false, false, err, "checkpoint")
}

// leaveWAL switches a WAL database back to a rollback-journal mode the way SQLite does: close the log
// (checkpoint, unlink), then one rollback-journal transaction that rewrites page 1.
func (r *runner) leaveWAL(final string) bool {
	before := r.pos()
	var err error
	r.a.Close()
	if !r.guarded("leave-wal", func() { err = r.b.LeaveWAL() }) {
		return false
	}
	if !r.afterOp("leave-wal-close", before, r.img, false, false, false, err, "close wal") {
		return false
	}
	return r.rtx(pager.RTx{FromWAL: true, Final: final, Outcome: "commit"}, false)
}

// strayWAL: a connection writes to the log without holding the WAL write lock. The write must be refused and
// nothing may change (the next transactions show whether the capture state survived).
func (r *runner) strayWAL(kind string) bool {
	before := r.pos()
	var err error
	if !r.guarded("stray-wal", func() { err = r.b.StrayWALWrite(kind) }) {
		return false
	}
	if err == nil && kind == "held-body" {
		r.viol("C03/wal-rewrite-below-captured-offset-accepted", "the rewrite of a frame body below the captured position was accepted")
	} else if err == nil {
		r.viol("C11/wal-write-without-lock-accepted/"+kind, "a %s write to the WAL by a connection that does not hold the write lock was accepted", kind)
	}
	return r.afterOp("stray-wal-"+kind, before, r.img, false, false, false, nil, "")
}

func (r *runner) recoverStore() bool {
	before := r.pos()
	var err error
	r.a.Close()
	r.b.Close()
	if !r.guarded("recover", func() { err = r.node.Store.Recover(bgctx) }) {
		return false
	}
	return r.afterOp("recover", before, r.img, false, false, false, err, "Store.Recover")
}

func (r *runner) restart() bool {
	before := r.pos()
	r.a.Close()
	r.b.Close()
	r.sub.Stop()
	if err := r.node.Stop(); err != nil {
		r.viol(r.prop+"/stop-error", "Store.Close: %v", err)
	}
	var err error
	if !r.guarded("restart", func() { err = r.start() }) {
		return false
	}
	if err != nil {
		r.viol(r.prop+"/reopen-failed", "Store.Open after a clean stop failed: %v", err)
		return false
	}
	after := r.pos()
	if after != before {
		r.viol(r.prop+"/restart-moved-position", "restart moved the position from (%d,%016x) to (%d,%016x)", before.txid, before.chk, after.txid, after.chk)
	}
	r.res.Deltas = append(r.res.Deltas, 0)
	_, fs := mon.CheckDB(r.node, "db", r.img)
	for _, f := range fs {
		r.viol("mon-"+f.Prop+"/"+f.Key+"/restart", "restart: %s", f.What)
	}
	for _, name := range []string{"journal"} {
		if _, err := os.Stat(filepath.Join(r.node.DB("db").Path(), name)); err == nil {
			r.viol(r.prop+"/restart-left-"+name, "restart left a %s file", name)
		}
	}
	if b, err := os.ReadFile(r.node.DB("db").WALPath()); err == nil && len(b) > 0 {
		if oracle.ScanWAL(b).LastCommit > 0 || !bytes.Equal(b, nil) {
			r.viol(r.prop+"/restart-left-wal", "restart left %d bytes of WAL", len(b))
		}
	}
	return len(r.res.V) == 0
}

var bgctx = context.Background()

func litefsTXID(v uint64) ltx.TXID { return ltx.TXID(v) }
