#!/bin/bash
# Usage: ./runall.sh quick|thorough [IDs...]  - runs the checks one after another on the current /repo tree and prints one line each.
tier=${1:-quick}; shift
ids=${@:-C01 C02 C03 C04 C05 C06 C07 C08 C09 C10 C11 C12 C13 C14 C15 C16 C17 C18 C19 C20}
cd "$(dirname "$0")"
for id in $ids; do
  s=$(date +%s)
  out=$(VERIF_WATCHDOG=${VERIF_WATCHDOG:-7000} ./check "$id" "$tier" 2>&1); rc=$?
  echo "$id $tier exit=$rc $(( $(date +%s) - s ))s $(echo "$out" | grep -c '^VIOLATION') violations; $(echo "$out" | grep "^$id $tier" | tail -1 | cut -c1-200)"
  [ $rc -ne 0 ] && echo "$out" | grep -A4 "^VIOLATION\|HARNESS\|BUILD" | head -30 | cut -c1-400
done
exit 0
