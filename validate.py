#!/usr/bin/env python3
"""Validate MANIFEST.json and evidence/*.json against the given schemas."""
import json, sys, glob, os
try:
    import jsonschema
except ImportError:
    sys.path.insert(0, '/opt/veriftools/pyvenv/lib/python3.11/site-packages')
    import jsonschema
ok = True
def check(path, schema):
    global ok
    try:
        jsonschema.validate(json.load(open(path)), json.load(open(schema)))
        print("valid:", path)
    except Exception as e:
        ok = False
        print("INVALID:", path, str(e)[:500])
if os.path.exists('MANIFEST.json'):
    check('MANIFEST.json', '/root/.vp/MANIFEST.schema.json')
for f in sorted(glob.glob('evidence/*.json')):
    check(f, '/root/.vp/EVIDENCE.schema.json')
sys.exit(0 if ok else 1)
