#!/usr/bin/env python3
"""Generates MANIFEST.json from the table below (kept in one place so it stays valid)."""
import json, subprocess

HOOK_COMMITS = subprocess.run(
    ["git", "-C", "/repo", "log", "--format=%H %s", "--grep=^verif:"],
    capture_output=True, text=True).stdout.strip().splitlines()

BASELINE_OFF = ("cd /repo && GOFLAGS=-mod=mod GOPROXY=off GOSUMDB=off go test -json -vet=off -count=1 -timeout 25m ./...")

# id -> (level, engine, technique, text, note, design_ref)
CHECKS = {
 "C06": ("model_checking", "E1-histories+inputs",
   "explicit-state BFS over fork/staleness histories on a real 3-node cluster plus an exhaustive matrix of non-extending and corrupt LTX files offered through the three entry points",
   "Part 1: BFS from fork preludes (equal TXID with different checksum, former primary ahead by two, fork behind) in both journal modes over transactions, partitions, demotions, retention, restarts and late joiners: every node's image equals the primary's at the position it reports, every log is one chain, connected nodes converge. Part 2: for each entry point (stream from a scripted primary into the real replica loop, POST /tx under a halt lock, restore from a backup service) x journal mode x {valid control, wrong/gapped/lower MinTXID, wrong pre-checksum, flipped page / header / trailer bytes, nine truncation classes, garbage, malformed snapshots}: database bytes, position and log unchanged, node keeps running and restarts cleanly.",
   "Same lab as C01; LTX files are built with the ltx module's encoder. Forged files with a valid CRC but a lying post-apply checksum are out of scope.", "§4 C06"),
 "C07": ("model_checking", "E1-sequences",
   "exhaustive enumeration of operation sequences on a replica's mount (full rollback and WAL transaction scripts continued past refusals with every extra mutating operation inserted at every position; digest compared after every operation) and of every position of a primary's transaction at which write authority is lost",
   "On a connected, caught-up replica the 28-step rollback script (with and without a left-over journal) and the 23-step WAL script are run through the real FUSE handlers with each of 35 extra operations (writes of every alignment, truncates, journal/WAL/SHM create-write-truncate-unlink, lock and unlock incl. the WAL capture trigger, database unlink, /import to the replica, a primary commit) inserted at every position; after every single operation the replica's position, logical image and LTX directory contents must be unchanged, page/journal/WAL writes must fail with EACCES, and modes must be 0444/0555 on the replica vs 0666/0777 on the primary; the position moves only when the primary commits. Part B: on the primary, before every file operation of five transaction shapes (rollback: modify/DELETE, grow+spill/TRUNCATE, modify/PERSIST; WAL: one frame, three frames with growth) the node loses write authority in one of three ways (Store.Demote, lease lapsed on the service while partitioned and taken by the other candidate, hand-off) and the application carries on as SQLite does: a transaction whose commit step (journal finalisation / release of the WAL write lock) begins after the loss is never published - no position moves, no LTX appears on any node - one whose commit step came first is published; afterwards every node holds the reference image of the position it reports and follows the next primary's commit.",
   "Handler methods are called directly (no kernel permission check). Authority lost in the middle of a transaction is enumerated at the granularity of the application's file operations; Store.Exit is modelled as process death (restart from the directory as it was at that instant).", "§4 C07"),
 "C08": ("exploration", "E2-deviation-scripts",
   "deviation-bounded exhaustive search over lease-service answer scripts and environment events (bound 2 quick / 3 thorough) on real stores on the fake clock, monitors evaluated every 0.5 fake seconds",
   "For each of 30 configurations (candidate x stored cluster ID x service cluster ID x {alone, joining a primary M, primary with replica M}) every script in which the lease service deviates from the truthful answer at most twice (Acquire: held/error; AcquireExisting: error; Renew: expired / error / errors from now on; PrimaryInfo: none / error / stale; ClusterID: error / 'none stored'; SetClusterID: error) or the environment issues Demote, Handoff(unknown) or Handoff(M) at 5-second marks is run for 40 fake seconds (about 2.6x10^5 scripts; a script whose recorded call order does not recur in four runs - two nodes reaching the lease service at one fake instant - is counted, judged as run, and turns exhaustive to false); monitors: primary only with a granted, un-expired lease renewed within TTL+2 s, primary context cancelled on loss, each lease destroyed exactly once unless handed off (then never), non-candidate never acquires, no primary or replication across differing cluster IDs, stored ID never changes, handoff only to a subscribed node, local commits succeed only on a primary.",
   "Lease service is the in-memory SimLeaser; the Consul leaser against a fake Consul endpoint and the static leaser's trivial behaviour are not separately explored. Decisions of the node under test only.", "§4 C08"),
 "C09": ("model_checking", "E1-histories",
   "chain monitor at every state of every cluster search plus a dedicated explicit-state BFS over retention histories with a removed-set oracle per sweep",
   "Dedicated BFS (depth 4 quick / 5 thorough) over commits, monotone ageing of LTX files, left-over temporary files of interrupted writes in the log directory, high-water-mark settings around the current TXID, sweeps with retention 0 / 1 ns / 10 min on primary and replica, with and without a backup client, partitions, restarts, drops, re-creation, import and a lagging replica behind a trimmed log: every sweep's removed set must exclude the newest file, contain only files older than the period, and with a backup client only files below the high-water mark; the chain monitor (contiguity, pre=post linkage, per-file CRC, end = DB.Pos(), no temporary file listed, snapshot leaves only itself) is evaluated on every node at every state.",
   "Same lab as C01. Sweep racing commit/stream at lock granularity is not claimed here.", "§4 C09"),
 "C10": ("exploration", "E2-schedules",
   "stateless DFS over thread schedules of the real implementation inside a synctest bubble with iterative preemption bounding (bound 2 quick / 3 thorough); points at every non-trivial RWMutex operation, internal page write/truncate and client WAL write",
   "A snapshot / export / GET /export thread, a writer connection (two transactions) and a checkpointer connection (WAL: PASSIVE then RESTART; thorough adds LiteFS's own recovery) run over one real DB in both journal modes; every schedule with at most the stated number of preemptions is executed from scratch (about 5x10^4 schedules quick); whenever the snapshot/export returns success its bytes must equal the reference image of exactly the position it reports (for GET /export: of some committed position).",
   "Cooperative scheduler: data races below lock granularity are not visible; timers fire only when no thread is enabled; one writer connection.", "§4 C10"),
 "C11": ("model_checking", "E1-closure+E2-schedules",
   "explicit-state BFS to closure over the real lock table (two protocol-following owners + LiteFS's internal owner) compared with a POSIX byte-range lock specification; plus schedule DFS with a write-section monitor",
   "Part A: from the empty table every request the rollback-mode (PENDING/RESERVED/SHARED) or WAL-mode (DMS/WRITE/CKPT/RECOVER/READ0-4, single and range requests) protocol automaton of two owners can issue, every TryAcquireWriteLock/release of the internal owner and WAL header/frame/data writes are executed on one real DB until no new lock-table state appears (about 4.6x10^4 states, 8.8x10^5 transitions in WAL mode); each outcome, the resulting table, the all-or-nothing behaviour of the internal attempt, the checkpoint-gating rule, the exclusion invariant and the WAL write guard are compared with the specification. Part B: all schedules up to 2 (thorough 3) preemptions of an application transaction or reader against Store.Recover and against a replicated apply, with a monitor in every page write (internal writes only under the full exclusive write set held by a non-client owner).",
   "One lock per SQLite lock byte; partial grants of refused multi-byte requests follow LiteFS's order; WAL write guard checked as 'no owner holds WRITE exclusively'. Cooperative scheduler limits as in C10.", "§4 C11"),
 "C13": ("exploration", "E1-scenarios+E2-schedules",
   "exhaustive scenario matrix on a real 3-node cluster (real /halt, /tx, /stream handlers and FUSE lock handle) plus stateless schedule DFS with preemption bounding of holder, local writer and lock expiry",
   "Part A: every scenario {acquire -> writer on primary refused -> two forwarded commits (primary position equals replica's at commit return, third replica converges) -> repeat acquire with same ID (also two requests with one ID in flight at once, with a local writer before / between / absent) -> release -> primary writes, former holder refused and unpublished; expiry; expiry then commit; lost reply of POST /halt, POST /tx, DELETE /halt; POST /tx caller matrix lock state x lock ID x node ID} x both journal modes. Part B: all schedules up to 2 (thorough 3) preemptions of the application on the replica, a local writer on the primary and the lock's expiry, judged by: no local commit between grant and release, acknowledged commit already on the primary, one converged history on all three nodes, no exit, no handler panic.",
   "Kernel/SQLite simulated; a WAL-mode commit that fails in its final phase stops the node by design and is accepted as such. Primary change while halted is not enumerated.", "§4 C13"),
 "C12": ("model_checking", "E1-closure+fake-clock",
   "explicit-state BFS to closure over the real RWMutex (private-state key) vs POSIX one-byte model; exhaustive blocking-variant matrix on the synctest fake clock",
   "Every operation from every reachable state of one real RWMutex with four guards is executed and compared with the reader/writer rules (20 states x 20 operations, closure reached); blocking Lock/RLock are decided for every holder/waiter/event/timing combination on a fake clock. Complete for the stated alphabet, which is the property's own quantifier.",
   "Trusted: Go runtime, testing/synctest fake clock. Data races are only covered by the auxiliary free-running -race pass.", "§4 C12"),
 "C19": ("model_checking", "E1-inputs",
   "exhaustive request matrix against the real ProxyServer handler on the fake clock with a stub application behind an in-memory dialer",
   "Every combination of role (primary, replica with known primary, node without primary) x 7 methods x 5 path classes (plain, passthrough, always-forward, both, health) x 6 cookie relations (absent, malformed, behind, equal, ahead by one, far ahead) x delivery timing of the missing transaction (0, 1, 5, 4999 polling intervals, never), plus the tracked database existing at position 0 (created, nothing applied yet), is sent through the real handler: a read with cookie t reaches the application only at position >= t (else 504 and the application saw nothing), reads whose position can be reached are served, writes on a non-primary never reach the application and get fly-replay (or 503 without a primary), the cookie issued after a proxied write names a position at or after the application's commit, passthrough requests arrive unchanged in every role.",
   "Handler called directly (no listener); time-outs on the synctest fake clock; application is a stub.", "§4 C19"),
 "C01": ("model_checking", "E1-histories",
   "explicit-state BFS over event histories on a real 3-node cluster (replay-from-scratch successors, canonical state keys incl. private caches); reader-through-page-cache oracle at every state",
   "Every history up to the depth bound over {7 transaction shapes, checkpoint, partition/heal/cut, restarts, retention, demotion, handoff} from five start states (incl. lagging replica and fork-ahead-by-one preludes, both journal modes, LZ4) is executed on real stores; at every state every node's reader (position + all pages through a page cache only LiteFS invalidations refresh) must equal the primary's recorded image at that position, connected replicas must converge on the fake clock, no node may Exit, and the C04/C09/C15 monitors run.",
   "Kernel, SQLite and the socket are simulated; lfshttp client/server code is real. Interleavings inside a burst are not enumerated here. Fake-clock bounds: 70 s single primary, 40 s convergence.", "§4 C01"),
 "C04": ("model_checking", "E1-histories",
   "from-scratch CRC64 monitor evaluated at every state of an explicit-state BFS over mixed histories (commits in both modes, checkpoints, recover, replication, restarts, imports, drops, failover)",
   "The independent checksum (stdlib crc64 over database file + committed WAL frames per an independent WAL scanner) is compared with DB.Pos() on every node and database at every state of a dedicated BFS over mixed histories from sizes 1, 256 and 513 pages; the same monitor also runs in the C01/C02/C03/C15 searches.",
   "Same lab as C01. Lock-page geometry not enumerated.", "§4 C04"),
 "C15": ("model_checking", "E1-histories",
   "explicit-state BFS over create/write/to-WAL/drop/re-create histories with connected, lagging, restarting and late-joining replicas",
   "After every event: a drop advances the TXID by one with exactly the empty checksum; database, journal, wal and shm are gone on the primary and on every connected replica (also after restart or late join); directory listings hide the name on every node; re-creation continues the TXID sequence and replicates; chain monitor across the tombstone.",
   "Same lab as C01; crash points inside the drop belong to C05.", "§4 C15"),
 "C05": ("fault_enumeration", "E3-crash-images",
   "crash-point enumeration: the data directory is copied before every client file operation, every mutating Store.OS call and every internal page write/truncate of a history; every image is reopened by a real Store and judged",
   "For 18 histories (first transaction, grow, shrink with post-finalise truncate, multi-segment journal, rollback after spill, all three finalisation modes, WAL transaction on a fresh and a restarted log, SQLite checkpoints of four modes, LiteFS recovery of a hot journal / WAL, drop, import, replica applying incremental LTX in both modes, replica applying a snapshot onto an empty and onto a populated database (lagging behind a trimmed log), primary adopting the backup service's snapshot, replica applying a tombstone) x variants x geometries every crash point's disk image must reopen, recover to the position named by the newest LTX file, which must be the position before or after the operation (after, once the client's commit had returned), with the exact reference image, passing the C04/C09 monitors, no journal or WAL left, and accept a follow-up commit.",
   "Process-crash model only (completed syscalls persist; fsync omissions unobservable). SQLite simulated. Forwarded-commit histories are not enumerated here.", "§4 C05"),
 "C16": ("model_checking", "E1-inputs",
   "exhaustive enumeration of (image, target) pairs through the real /import and /export handlers and HTTP client on a 2-node cluster",
   "Every pair of 7 targets (absent, empty, dropped, rollback-mode, WAL with un-checkpointed frames, WAL checkpointed, left-over PERSIST journal) x target page sizes x {valid images of each page size, 1/2/3/257 pages, rollback or WAL header; 13 invalid inputs} runs export -> import -> export -> replicate -> restart. Success: export equals the imported bytes except the zeroed change counter and schema cookie, exactly one new TXID, monitors pass, the replica reads the identical image through its mount. Failure: position, logical image and log listing unchanged, no Exit, restart at the same position. Export alone always equals the reference image of the current position.",
   "Same lab as C01. A different page size on a populated or dropped database counts as 'cannot be applied'. 1 GiB lock-page images not enumerated.", "§4 C16"),
 "C17": ("model_checking", "E1-inputs",
   "exhaustive enumeration of interruption points and torn writes of simulated journals plus field-wise mutation/truncation families of journals and WALs, each opened by a real Store; differential against an independent WAL scanner",
   "Every file-operation boundary (and three torn variants of every journal write) of rollback-journal transactions of 7-8 shapes incl. multi-segment, no-sync, stale PERSIST tails and a database's very first transaction, at three or more (page, sector) geometries, is reopened by a fresh Store and must yield exactly the pre-transaction image (post-transaction once the journal was finalised). Every header/record field mutation, zeroed region and truncation class of complete journals and of WALs in both byte orders must neither panic, hang, exit, write outside the database nor open successfully with an image other than the one the position names; litefs.WALReader's accepted frame sequence must equal an independent scanner's longest valid prefix.",
   "Journals come from the pager simulator (not real SQLite). Random bytes replaced by exhaustive families. Hang = 25 s real-time watchdog confirmed by a re-run.", "§4 C17"),
 "C18": ("model_checking", "E1-inputs",
   "exhaustive input enumeration of the real codecs: all values x all <=3-piece read splits x all proper prefixes x hostile length fields, allocation measured in rlimit-ed worker subprocesses",
   "Every frame type with names {empty, a, 255 B, all byte values, 64 KiB} and six integer values, six position maps and 120 chunk writer/reader configurations around the 65535 limit are encoded by the real writers and decoded by the real readers under every split into at most three reads (complete for encodings up to 64 bytes, boundary-focused above) and one byte at a time; every proper prefix must be an error and never a clean EOF; every length field is replaced by five hostile values and the decoder's allocation must stay within 1 MiB + 64 x bytes received; ReadFullAt is run over every short-read/EOF script for buffers up to 4.",
   "Random byte strings are replaced by exhaustive families. Go runtime MemStats trusted for allocation measurement.", "§4 C18"),
 "C14": ("model_checking", "E1-histories",
   "explicit-state BFS over histories of commits, drops, sweeps, restarts, fail-overs, sync calls with and without one injected fault, and service mutations, on a real cluster running the real file and LiteFS Cloud backup clients; the service's files are decoded independently after every event",
   "For both client implementations (litefs.FileBackupClient on a directory; lfsc.BackupClient against a local server speaking GET /pos, POST /db/tx, GET /db/snapshot with EPOSMISMATCH errors) every history up to the depth bound over {two transaction shapes, checkpoint, drop, re-create, retention sweep with aged files, primary restart, partition/heal/demote (fail-over with a forked former primary), one Store.SyncBackup call healthy or with one of six faults (upload refused, upload stored but reply lost, upload cut, position map unavailable, snapshot unavailable, snapshot cut), service rolled back by one file / one transaction ahead / forked at its newest file / wiped} from start states incl. a 257-transaction backlog is executed; the same alphabet is also run against the store's own continuous sync loop with its cached position map. After every event: the service holds one contiguous chain from TXID 1 whose every boundary position and restored image is one some primary committed; no file on the service was removed or rewritten by a node; no node (primary or replica, via HWM frames) publishes a high-water mark above the largest TXID the service held when it acknowledged; after every healthy sync the service is at the primary's position with a byte-identical restored image (the primary having adopted the service's state where it was ahead, forked or not extendable) or at least 256 transactions closer; a node never discards its database for the service's snapshot while the service's position is a point of its own log with every later file present and its view of the service must be accurate (all answers reached it, nobody touched the service); all C01/C04/C09/C15 cluster monitors run as well.",
   "Same lab as C01. The service's durable state is a directory of LTX files; the local LiteFS Cloud server is verif's own (it checks contiguity as the real service is documented to). A restore after a lost reply or a change behind the node's back is by LiteFS's design (any position mismatch reverts to the service) and is not judged.", "§4 C14"),
 "C20": ("model_checking", "E1-inputs",
   "exhaustive request matrix sent over real loopback TCP (HTTP/1.1 and h2c) to the real API server of a primary, a replica and a node without a primary; node digest compared around every request",
   "Every endpoint (/stream, /tx, /halt, /handoff, /promote, /import, /export, /info, /events, an unknown path) x 5 methods x {missing, empty, unknown, valid, misspelt} names x six id / lockID / nodeID spellings (missing, non-numeric, overflowing, negative, zero, valid) x own / foreign / malformed / absent Litefs-Id x {empty, garbage, valid, truncated, hostile-length} bodies, on each of three roles and both protocols, plus the /halt and /tx part again while another caller holds a halt lock: each request must get an HTTP response, log no panic, not stop the node, leave GET /info answering, and - when it is malformed, not allowed in the role or names a missing database/lock - leave databases, positions, logical images, LTX directory contents, the twelve lock tables and the halt lock exactly as before (a foreign caller's halt lock is never disturbed by a request that does not name it).",
   "The one check on real sockets and real time: each request is a synchronous round trip on an otherwise idle node; bodies up to a few hundred bytes (allocation against hostile lengths is C18's). 'Invalid' follows the endpoint's own contract: POST /halt may create a database by design; any non-zero int64 is a well-formed lock id.", "§4 C20"),
 "C02": ("model_checking", "E1-programs",
   "exhaustive enumeration of rollback-journal pager programs executed on the real store through the FUSE handlers; every LTX decoded and applied to a reference image",
   "All single-transaction pager programs of the enumerated shape space (modified set x new size x spill points x sync mode x finalisation x outcome) from seven start sizes straddling the 256-page checksum blocks, and all chains of two (thorough: three) over a core of shapes, are executed; after each the position delta, the decoded LTX applied to the previous reference image, pre/post checksums, the tx event, the -pos file, the image read back through a page cache and the C04/C09 monitors are checked.",
   "SQLite is played by the pager simulator (file-operation level model of the unix VFS + pager); the kernel by the page-cache/lock-owner simulator. ltx module trusted for LTX framing. Lock-page geometry not enumerated.", "§4 C02"),
 "C03": ("model_checking", "E1-programs",
   "exhaustive enumeration of WAL pager programs (transactions, rollbacks, checkpoints of every mode, LiteFS recovery) up to depth 3/4 on the real store; every LTX decoded and applied to a reference image",
   "All WAL programs up to the stated depth over write transactions (repeated pages, split frame writes, rollbacks later overwritten, lock-only, growth, shrink incl. across a checksum block), SQLite checkpoints (PASSIVE, partial, FULL, RESTART, TRUNCATE) and LiteFS recovery are executed from several (page size, start size) points; at each write-lock release TXID advances iff a committed transaction was appended, and the LTX (pages, commit size, WAL offset/size/salts) reproduces exactly the image the simulator's SQLite sees.",
   "WAL module and wal-index header handling are simulated (verif/pager/wal.go); both checksum byte orders; single writer + separate checkpointer connection (no concurrency here: see C10/C11).", "§4 C03"),
}

NOT_YET = {}
for i in range(1, 21):
    pid = "C%02d" % i
    if pid not in CHECKS:
        NOT_YET[pid] = "check not built yet in this revision of /verif (planned per DESIGN.md §4); nothing is claimed for it"

manifest = {
 "version": 1,
 "setup_cmd": "cd /verif && ./setup.sh",
 "hooks": {
   "guard": "verif (Go build tag)",
   "enable": "go1.26.8 test -c -tags verif ./checks/<id> in module /verif, which replaces github.com/superfly/litefs => /repo",
   "baseline_off_cmd": BASELINE_OFF,
   "source_commits": [l.split()[0] for l in HOOK_COMMITS],
   "add_only": True,
 },
 "engines": [
   {"name": "E1", "path": "/verif/vlib, /verif/lab, /verif/hist, /verif/prog", "kind_free_text": "explicit-state / exhaustive-input search on the real implementation: replay-from-scratch successors, canonical keys incl. private state, worker subprocess pool",
    "serves_properties": sorted(k for k, v in CHECKS.items() if v[1].startswith("E1"))},
   {"name": "E2", "path": "/verif/sched", "kind_free_text": "schedule explorer: harness threads are real goroutines in a testing/synctest bubble, released one at a time at hooked points; stateless DFS with iterative preemption bounding, subtree sharding over worker subprocesses, replay by choice sequence",
    "serves_properties": sorted(k for k, v in CHECKS.items() if v[1].startswith("E2"))},
   {"name": "E3", "path": "/verif/checks/c05, /verif/lab/crash.go", "kind_free_text": "crash-point enumeration: data-directory image before every mutation of a history, each reopened and judged",
    "serves_properties": sorted(k for k, v in CHECKS.items() if v[1].startswith("E3"))},
 ],
 "checks": [],
 "not_applicable": [{"property_id": k, "reason": v} for k, v in sorted(NOT_YET.items())],
 "notes": "All checks rebuild their test binary from /repo's working tree with -tags verif via ./check <ID> <tier>. Exit 0 held / 1 VIOLATION / 2 harness error.",
}
for pid, (level, engine, technique, text, note, ref) in sorted(CHECKS.items()):
    manifest["checks"].append({
        "property_id": pid,
        "quick_cmd": "./check %s quick" % pid,
        "thorough_cmd": "./check %s thorough" % pid,
        "evidence_file": "/verif/evidence/%s.json" % pid,
        "replay_cmd_template": "./check %s quick --replay {path}" % pid,
        "engine": engine,
        "level_claimed": {"category": level, "text": text, "design_ref": ref},
        "level_note": note,
        "technique": technique,
    })
json.dump(manifest, open("/verif/MANIFEST.json", "w"), indent=1)
print("checks:", len(manifest["checks"]), "not_applicable:", len(manifest["not_applicable"]))
