#!/usr/bin/env python3
"""Generates MANIFEST.json from the table below (kept in one place so it stays valid)."""
import json, subprocess

HOOK_COMMITS = subprocess.run(
    ["git", "-C", "/repo", "log", "--format=%H %s", "--grep=^verif:"],
    capture_output=True, text=True).stdout.strip().splitlines()

BASELINE_OFF = ("cd /repo && GOFLAGS=-mod=mod GOPROXY=off GOSUMDB=off go test -json -vet=off -count=1 -timeout 25m ./...")

# id -> (level, engine, technique, text, note, design_ref)
CHECKS = {
 "C12": ("model_checking", "E1-closure+fake-clock",
   "explicit-state BFS to closure over the real RWMutex (private-state key) vs POSIX one-byte model; exhaustive blocking-variant matrix on the synctest fake clock",
   "Every operation from every reachable state of one real RWMutex with four guards is executed and compared with the reader/writer rules (20 states x 20 operations, closure reached); blocking Lock/RLock are decided for every holder/waiter/event/timing combination on a fake clock. Complete for the stated alphabet, which is the property's own quantifier.",
   "Trusted: Go runtime, testing/synctest fake clock. Data races are only covered by the auxiliary free-running -race pass.", "§4 C12"),
}

NOT_YET = {}
for i in range(1, 21):
    pid = "C%02d" % i
    if pid not in CHECKS:
        NOT_YET[pid] = "check not built yet in this revision of /verif (planned per DESIGN.md §4); nothing is claimed for it"

manifest = {
 "version": 1,
 "setup_cmd": "cd /verif && ./setup.sh",
 "hooks": {
   "guard": "verif (Go build tag)",
   "enable": "go1.26.8 test -c -tags verif ./checks/<id> in module /verif, which replaces github.com/superfly/litefs => /repo",
   "baseline_off_cmd": BASELINE_OFF,
   "source_commits": [l.split()[0] for l in HOOK_COMMITS],
   "add_only": True,
 },
 "engines": [
   {"name": "E1", "path": "/verif/vlib, /verif/lab", "kind_free_text": "explicit-state / exhaustive-input search on the real implementation: replay-from-scratch successors, canonical keys incl. private state, worker subprocess pool",
    "serves_properties": sorted(k for k, v in CHECKS.items() if v[1].startswith("E1"))},
 ],
 "checks": [],
 "not_applicable": [{"property_id": k, "reason": v} for k, v in sorted(NOT_YET.items())],
 "notes": "All checks rebuild their test binary from /repo's working tree with -tags verif via ./check <ID> <tier>. Exit 0 held / 1 VIOLATION / 2 harness error.",
}
for pid, (level, engine, technique, text, note, ref) in sorted(CHECKS.items()):
    manifest["checks"].append({
        "property_id": pid,
        "quick_cmd": "./check %s quick" % pid,
        "thorough_cmd": "./check %s thorough" % pid,
        "evidence_file": "/verif/evidence/%s.json" % pid,
        "replay_cmd_template": "./check %s quick --replay {path}" % pid,
        "engine": engine,
        "level_claimed": {"category": level, "text": text, "design_ref": ref},
        "level_note": note,
        "technique": technique,
    })
json.dump(manifest, open("/verif/MANIFEST.json", "w"), indent=1)
print("checks:", len(manifest["checks"]), "not_applicable:", len(manifest["not_applicable"]))
