// Package sched is the schedule explorer (engine E2): harness threads are real
// goroutines running real LiteFS code inside a testing/synctest bubble; exactly
// one of them is released at a time and runs until it reaches the next point
// (a hooked lock operation, page write, or harness step) or blocks. The
// explorer enumerates schedules depth-first with iterative preemption bounding.
package sched

import (
	"fmt"
	"runtime"
	"runtime/debug"
	"sort"
	"strconv"
	"strings"
	"sync"
	"testing"
	"testing/synctest"
	"time"

	"github.com/superfly/litefs"
)

// goid returns the current goroutine's id.
func goid() int64 {
	var buf [64]byte
	n := runtime.Stack(buf[:], false)
	// "goroutine 123 ["
	s := string(buf[:n])
	s = strings.TrimPrefix(s, "goroutine ")
	if i := strings.IndexByte(s, ' '); i > 0 {
		v, _ := strconv.ParseInt(s[:i], 10, 64)
		return v
	}
	return -1
}

// Thread is one logical thread of control of a harness.
type Thread struct {
	Name string
	id   int
	s    *Exec
	wake chan struct{}

	mu      sync.Mutex
	parked  bool
	done    bool
	at      string
	failed  any // panic value
	stack   string
	steps   int
}

// Exec is one execution of a harness under a given choice prefix.
type Exec struct {
	threads []*Thread
	byGoid  sync.Map // int64 -> *Thread

	prefix  []int
	Choices []int    // choices actually taken
	Points  []Point  // one per decision
	Trace   []string // "thread@point" per step
	last    *Thread

	// Quantum is the first clock advance when nothing is enabled (doubles while idle).
	Quantum time.Duration
	// Horizon bounds the total fake time spent idle (deadlock / livelock detection).
	Horizon time.Duration
	// MaxSteps bounds the number of decisions.
	MaxSteps int

	// Observer, if set, sees every hooked site of every goroutine (monitors); it must not block.
	Observer func(site string, obj any, a int64, b bool)

	aborted  bool
	Deadlock bool
	Diverged string // replay divergence description (hard error)
	Elided   int
}

// Point records one scheduling decision.
type Point struct {
	Enabled        int  // number of enabled threads
	RunningEnabled bool // the previously running thread was among them (choosing another one is a preemption)
	Chosen         int
}

// Go registers and starts a harness thread. Must be called from the bubble's root goroutine before Run.
func (e *Exec) Go(name string, body func(t *Thread)) *Thread {
	th := &Thread{Name: name, id: len(e.threads), s: e, wake: make(chan struct{})}
	e.threads = append(e.threads, th)
	go func() {
		e.byGoid.Store(goid(), th)
		defer func() {
			if p := recover(); p != nil {
				th.mu.Lock()
				th.failed = p
				th.stack = string(debug.Stack())
				th.mu.Unlock()
			}
			th.mu.Lock()
			th.done = true
			th.parked = false
			th.mu.Unlock()
			e.byGoid.Delete(goid())
		}()
		th.Point("start")
		body(th)
	}()
	return th
}

// Adopt makes the calling goroutine act as thread th (e.g. an HTTP handler goroutine serving th's request).
func (th *Thread) Adopt() func() {
	g := goid()
	th.s.byGoid.Store(g, th)
	return func() { th.s.byGoid.Delete(g) }
}

// Point parks the thread until the explorer releases it.
func (th *Thread) Point(desc string) {
	th.mu.Lock()
	th.parked = true
	th.at = desc
	th.steps++
	th.mu.Unlock()
	<-th.wake
}

// Failed returns the panic value of a thread that panicked (nil otherwise) and its stack.
func (th *Thread) Failed() (any, string) {
	th.mu.Lock()
	defer th.mu.Unlock()
	return th.failed, th.stack
}

// Done reports whether the thread's body returned.
func (th *Thread) Done() bool { th.mu.Lock(); defer th.mu.Unlock(); return th.done }

// hook is installed as the litefs verif hook for the duration of an execution.
func (e *Exec) hook(site string, obj any, a int64, b bool) {
	if e.Observer != nil {
		e.Observer(site, obj, a, b)
	}
	v, ok := e.byGoid.Load(goid())
	if !ok {
		return // background goroutine: runs freely between points
	}
	th := v.(*Thread)
	switch site {
	case "rw.trylock", "rw.tryrlock", "rw.unlock":
		g := obj.(*litefs.RWMutexGuard)
		st := g.State()
		// Trivial operations cannot change the lock table and commute with everything: no point.
		if (site == "rw.unlock" && st == litefs.RWMutexStateUnlocked) ||
			(site == "rw.trylock" && st == litefs.RWMutexStateExclusive) ||
			(site == "rw.tryrlock" && st == litefs.RWMutexStateShared) {
			e.Elided++
			return
		}
		th.Point(site)
	case "db.writepage":
		th.Point(fmt.Sprintf("writepage %d", a))
	case "db.truncate":
		th.Point(fmt.Sprintf("truncate %d", a))
	}
}

// Run drives the threads to completion following prefix, then choice 0.
// It must be called from the bubble's root goroutine after all Go calls.
func (e *Exec) Run(prefix []int) {
	e.prefix = prefix
	if e.Quantum == 0 {
		e.Quantum = 10 * time.Microsecond
	}
	if e.Horizon == 0 {
		e.Horizon = 120 * time.Second
	}
	if e.MaxSteps == 0 {
		e.MaxSteps = 20000
	}
	litefs.VerifSetHook(e.hook)
	defer litefs.VerifSetHook(nil)
	idle := time.Duration(0)
	q := e.Quantum
	for step := 0; ; step++ {
		synctest.Wait()
		var enabled []*Thread
		allDone := true
		for _, th := range e.threads {
			th.mu.Lock()
			if !th.done {
				allDone = false
			}
			if th.parked {
				enabled = append(enabled, th)
			}
			th.mu.Unlock()
		}
		if allDone {
			return
		}
		if len(enabled) == 0 {
			// Nobody can be released: let the fake clock run (polling retries, timeouts).
			if idle >= e.Horizon {
				e.Deadlock = true
				e.abort()
				return
			}
			time.Sleep(q)
			idle += q
			if q < time.Second {
				q *= 2
			}
			continue
		}
		idle, q = 0, e.Quantum
		if step >= e.MaxSteps {
			e.Diverged = fmt.Sprintf("step bound %d exceeded", e.MaxSteps)
			e.abort()
			return
		}
		// Canonical order: the thread that ran last first (if enabled), then ascending id.
		sort.Slice(enabled, func(i, j int) bool {
			if (enabled[i] == e.last) != (enabled[j] == e.last) {
				return enabled[i] == e.last
			}
			return enabled[i].id < enabled[j].id
		})
		choice := 0
		k := len(e.Choices)
		if k < len(prefix) {
			choice = prefix[k]
			if choice >= len(enabled) {
				e.Diverged = fmt.Sprintf("replay divergence at decision %d: choice %d but only %d threads enabled", k, choice, len(enabled))
				e.abort()
				return
			}
		}
		e.Points = append(e.Points, Point{Enabled: len(enabled), RunningEnabled: e.last != nil && enabled[0] == e.last, Chosen: choice})
		e.Choices = append(e.Choices, choice)
		th := enabled[choice]
		th.mu.Lock()
		th.parked = false
		at := th.at
		th.mu.Unlock()
		e.Trace = append(e.Trace, th.Name+"@"+at)
		e.last = th
		th.wake <- struct{}{}
	}
}

// abort releases every parked thread repeatedly so that the bubble can drain (bodies should observe Aborted()).
func (e *Exec) abort() {
	e.aborted = true
	for i := 0; i < 100000; i++ {
		synctest.Wait()
		any := false
		allDone := true
		for _, th := range e.threads {
			th.mu.Lock()
			p, d := th.parked, th.done
			if p {
				th.parked = false
			}
			th.mu.Unlock()
			if !d {
				allDone = false
			}
			if p {
				any = true
				th.wake <- struct{}{}
			}
		}
		if allDone {
			return
		}
		if !any {
			time.Sleep(time.Second)
		}
	}
}

// Aborted reports whether the execution was aborted (deadlock, step bound, divergence).
func (e *Exec) Aborted() bool { return e.aborted }

// Preemptions counts the preemptions among the first n decisions.
func Preemptions(points []Point, n int) int {
	c := 0
	for i := 0; i < n && i < len(points); i++ {
		if points[i].RunningEnabled && points[i].Chosen != 0 {
			c++
		}
	}
	return c
}

// Harness builds and runs one execution; it returns an observation string
// (distinct outcomes are counted) and violations.
type Harness func(t *testing.T, e *Exec, prefix []int) (obs string, viol []Violation)

// Violation found by a harness oracle on one execution.
type Violation struct {
	Key  string
	What string
}

// Stats of an exploration.
type Stats struct {
	Executions  int
	Bound       int
	MaxPoints   int
	Outcomes    map[string]int
	Deadlocks   int
	Capped      string
	Violations  []FoundViolation
	Divergences []string
	Elided      int
}

// FoundViolation is a violation with its schedule.
type FoundViolation struct {
	Violation
	Schedule []int
	Trace    []string
}

// Explore runs the DFS under `prefix` with the given preemption bound. budget
// (real time) stops the search between executions (reported in Capped).
func Explore(t *testing.T, h Harness, prefix []int, bound int, budget time.Duration, maxExec int, st *Stats) {
	ExploreSplit(t, h, prefix, bound, budget, maxExec, st, nil)
}

// ExploreSplit is Explore with an optional emit callback: when emit returns true for a child prefix the
// subtree below it is not explored here (the caller hands it to a worker).
func ExploreSplit(t *testing.T, h Harness, prefix []int, bound int, budget time.Duration, maxExec int, st *Stats, emit func(child []int) bool) {
	start := time.Now()
	if st.Outcomes == nil {
		st.Outcomes = map[string]int{}
	}
	st.Bound = bound
	var rec func(prefix []int)
	rec = func(prefix []int) {
		if st.Capped != "" {
			return
		}
		if (budget > 0 && time.Since(start) > budget) || (maxExec > 0 && st.Executions >= maxExec) {
			st.Capped = fmt.Sprintf("stopped after %d executions (%s)", st.Executions, time.Since(start).Round(time.Second))
			return
		}
		e := &Exec{}
		var obs string
		var viol []Violation
		synctest.Test(t, func(t *testing.T) {
			obs, viol = h(t, e, prefix)
		})
		st.Executions++
		st.Elided += e.Elided
		if len(e.Points) > st.MaxPoints {
			st.MaxPoints = len(e.Points)
		}
		if e.Diverged != "" {
			st.Divergences = append(st.Divergences, fmt.Sprintf("prefix %v: %s", prefix, e.Diverged))
			return
		}
		if e.Deadlock {
			st.Deadlocks++
		}
		st.Outcomes[obs]++
		for _, v := range viol {
			dup := false
			for _, f := range st.Violations {
				if f.Key == v.Key {
					dup = true
				}
			}
			if !dup {
				st.Violations = append(st.Violations, FoundViolation{v, append([]int{}, e.Choices...), append([]string{}, e.Trace...)})
			}
		}
		for i := len(prefix); i < len(e.Points); i++ {
			p := e.Points[i]
			if p.Enabled < 2 {
				continue
			}
			cost := Preemptions(e.Points, i)
			for alt := 1; alt < p.Enabled; alt++ {
				c := cost
				if p.RunningEnabled {
					c++
				}
				if c > bound {
					continue
				}
				child := append(append([]int{}, e.Choices[:i]...), alt)
				if emit != nil && emit(child) {
					continue
				}
				rec(child)
				if st.Capped != "" {
					return
				}
			}
		}
	}
	rec(prefix)
}

// Current returns the thread the calling goroutine belongs to (nil for background goroutines).
func (e *Exec) Current() *Thread {
	if v, ok := e.byGoid.Load(goid()); ok {
		return v.(*Thread)
	}
	return nil
}

// Spawner returns a function suitable for lab.Net.Spawn: goroutines started on behalf of a
// harness thread (HTTP handlers serving its requests) act as that thread.
func (e *Exec) Spawner() func(fn func()) {
	return func(fn func()) {
		th := e.Current()
		go func() {
			if th != nil {
				undo := th.Adopt()
				defer undo()
			}
			fn()
		}()
	}
}
