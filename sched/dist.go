package sched

import (
	"encoding/json"
	"fmt"
	"io"
	"log"
	"testing"
	"time"

	"verif/vlib"
)

// Job is one subtree handed to a worker.
type Job struct {
	Harness string          `json:"harness"`
	Config  json.RawMessage `json:"config"`
	Prefix  []int           `json:"prefix"`
	Bound   int             `json:"bound"`
	Budget  int             `json:"budget_s"`
	MaxExec int             `json:"max_exec"`
}

// JobResult is what a worker returns for a subtree.
type JobResult struct {
	Executions  int            `json:"executions"`
	MaxPoints   int            `json:"max_points"`
	Outcomes    map[string]int `json:"outcomes"`
	Deadlocks   int            `json:"deadlocks"`
	Capped      string         `json:"capped"`
	Divergences []string       `json:"divergences"`
	Violations  []FoundViolation `json:"violations"`
	Elided      int            `json:"elided"`
	Harness     string         `json:"harness_error,omitempty"`
}

// Registry maps harness names to constructors taking the JSON config.
type Registry map[string]func(cfg json.RawMessage) Harness

// ServeIfWorker runs the worker loop for schedule jobs.
func ServeIfWorker(t *testing.T, reg Registry) {
	if !vlib.IsWorker() {
		return
	}
	vlib.Serve(func(in json.RawMessage) any {
		var j Job
		if err := json.Unmarshal(in, &j); err != nil {
			return JobResult{Harness: "bad job: " + err.Error()}
		}
		mk, ok := reg[j.Harness]
		if !ok {
			return JobResult{Harness: "unknown harness " + j.Harness}
		}
		var st Stats
		Explore(t, mk(j.Config), j.Prefix, j.Bound, time.Duration(j.Budget)*time.Second, j.MaxExec, &st)
		return toResult(&st)
	})
}

// ServeJob returns a dispatcher for checks whose workers serve several kinds of case: it answers (result, true) when
// the input is a schedule job for a harness of reg, else (nil, false).
func ServeJob(t *testing.T, reg Registry) func(in json.RawMessage) (any, bool) {
	return func(in json.RawMessage) (any, bool) {
		var j Job
		if err := json.Unmarshal(in, &j); err != nil || j.Harness == "" {
			return nil, false
		}
		mk, ok := reg[j.Harness]
		if !ok {
			return nil, false
		}
		var st Stats
		Explore(t, mk(j.Config), j.Prefix, j.Bound, time.Duration(j.Budget)*time.Second, j.MaxExec, &st)
		return toResult(&st), true
	}
}

// ToResult converts exploration stats to the worker result shape.
func ToResult(st *Stats) JobResult { return toResult(st) }

func toResult(st *Stats) JobResult {
	return JobResult{Executions: st.Executions, MaxPoints: st.MaxPoints, Outcomes: st.Outcomes, Deadlocks: st.Deadlocks, Capped: st.Capped, Divergences: st.Divergences, Violations: st.Violations, Elided: st.Elided}
}

// Totals aggregates a distributed exploration.
type Totals struct {
	Executions int
	MaxPoints  int
	Outcomes   map[string]int
	Deadlocks  int
	Capped     []string
	Jobs       int
	Elided     int
}

// Distributed explores harness `name` with the given bound: the first splitDepth decisions are expanded
// in this process, every deeper subtree is a worker job.
func Distributed(t *testing.T, run *vlib.Run, pool *vlib.Pool, reg Registry, name string, cfg any, bound, splitDepth int, jobBudget time.Duration, tot *Totals) {
	log.SetOutput(io.Discard) // the first levels are explored in this process
	cfgJSON, _ := json.Marshal(cfg)
	h := reg[name](cfgJSON)
	if tot.Outcomes == nil {
		tot.Outcomes = map[string]int{}
	}
	var jobs []any
	var st Stats
	ExploreSplit(t, h, nil, bound, 0, 0, &st, func(child []int) bool {
		if len(child) < splitDepth {
			return false
		}
		jobs = append(jobs, Job{Harness: name, Config: cfgJSON, Prefix: child, Bound: bound, Budget: int(jobBudget / time.Second)})
		return true
	})
	fold := func(r JobResult, prefix []int) {
		tot.Executions += r.Executions
		tot.Deadlocks += r.Deadlocks
		tot.Elided += r.Elided
		if r.MaxPoints > tot.MaxPoints {
			tot.MaxPoints = r.MaxPoints
		}
		for k, v := range r.Outcomes {
			tot.Outcomes[k] += v
		}
		if r.Capped != "" {
			tot.Capped = append(tot.Capped, fmt.Sprintf("subtree %v: %s", prefix, r.Capped))
		}
		for _, d := range r.Divergences {
			run.HarnessError("%s: %s", name, d)
		}
		if r.Harness != "" {
			run.HarnessError("%s: %s", name, r.Harness)
		}
		for _, v := range r.Violations {
			run.Violation(v.Key, fmt.Sprintf("%s\nharness=%s config=%s\nschedule=%v\ntrace=%v", v.What, name, cfgJSON, v.Schedule, v.Trace),
				map[string]any{"harness": name, "config": json.RawMessage(cfgJSON), "schedule": v.Schedule, "trace": v.Trace})
		}
	}
	fold(toResult(&st), nil)
	tot.Jobs += len(jobs)
	pool.Run(jobs, func(i int, out json.RawMessage, crash *vlib.Crash, flaky bool) {
		j := jobs[i].(Job)
		if flaky {
			run.HarnessError("%s: subtree %v crashed once and passed on re-run", name, j.Prefix)
		}
		if crash != nil {
			run.Violation("crash/"+name, fmt.Sprintf("worker died twice exploring %s below %v (timeout=%v)\n%s", name, j.Prefix, crash.Timeout, tailS(crash.Output, 3000)),
				map[string]any{"harness": name, "config": json.RawMessage(cfgJSON), "schedule": j.Prefix})
			return
		}
		var r JobResult
		if err := json.Unmarshal(out, &r); err != nil {
			run.HarnessError("bad job result: %v", err)
			return
		}
		fold(r, j.Prefix)
	})
}

func tailS(s string, n int) string {
	if len(s) > n {
		return s[len(s)-n:]
	}
	return s
}
