package hist

import (
	"time"

	"verif/vlib"
)

// Job is one breadth-first search with its bounds.
type Job struct {
	Name   string
	Cfg    Config
	Depth  int
	Budget time.Duration
}

// RunJobs runs the searches and returns the coverage map for the evidence file.
func RunJobs(run *vlib.Run, jobs []Job) map[string]any {
	pool := vlib.NewPool()
	defer pool.Close()
	var all []any
	states, transitions, maxDepth := 0, 0, 0
	exhaustive := true
	var classes vlib.Distinct
	var samples []any
	for _, j := range jobs {
		var st Stats
		Search(run, pool, j.Cfg, j.Depth, j.Budget, &st)
		all = append(all, map[string]any{"job": j.Name, "config": j.Cfg, "depth_bound": j.Depth, "states": st.States, "transitions": st.Transitions,
			"new_states_per_depth": st.PerDepth, "depth_completed": st.DepthDone, "frontier_exhausted": st.Exhausted, "capped": st.Capped, "classes": st.Classes.N()})
		states += st.States
		transitions += st.Transitions
		if st.DepthDone > maxDepth {
			maxDepth = st.DepthDone
		}
		if st.Capped != "" {
			exhaustive = false
		}
		for k, v := range st.Classes.Top(100000) {
			for i := 0; i < v; i++ {
				classes.Add(k)
			}
		}
		samples = append(samples, st.Samples...)
		if run.NViolations() > 0 {
			break
		}
	}
	if len(samples) == 0 {
		samples = append(samples, "no non-root state sampled")
	}
	if len(samples) > 12 {
		samples = samples[:12]
	}
	if transitions < 10 && run.NViolations() == 0 {
		run.HarnessError("vacuous: %d transitions", transitions)
	}
	return map[string]any{
		"states":                         states,
		"transitions":                    transitions,
		"traces_validated_against_impl":  transitions,
		"max_depth":                      maxDepth,
		"exhaustive":                     exhaustive,
		"jobs":                           all,
		"distinct_event_outcome_classes": classes.N(),
		"event_outcome_classes":          classes.Top(40),
		"samples":                        samples,
		"rule":                           "BFS over event histories on a real 3-node cluster; a state is the history that reaches it (replayed from scratch on fresh stores), merged by a canonical key over durable files, decoded LTX directories and DB.VerifDump() private caches; every history is an implementation trace. exhaustive=true means every history up to each job's depth bound was executed.",
	}
}

// CommonAssumptions are the assumptions shared by every cluster history search.
var CommonAssumptions = []string{
	"Kernel page cache, POSIX lock owners and SQLite are simulated (DESIGN.md §2.3/2.4); HTTP client and server code are real, the socket is an in-process pipe.",
	"Quiescence is on the testing/synctest fake clock: up to 70 fake seconds for a single primary, 40 for convergence.",
	"Page contents are a function of (page, per-page version) so that histories reaching the same logical state merge.",
}
