// Package hist runs event histories on a multi-node lab cluster and evaluates
// the replication oracles (C01 safety/liveness, C04/C09 monitors, C06 "never
// patched", C15 drop) at every quiescent state. A state is the history that
// reaches it; successors are built by replaying the history on a fresh cluster.
package hist

import (
	"bytes"
	"context"
	"crypto/sha256"
	"encoding/hex"
	"fmt"
	"io"
	"net/http"
	"net/url"
	"os"
	"path/filepath"
	"runtime/debug"
	"sort"
	"strings"
	"testing"
	"testing/synctest"
	"time"

	"github.com/superfly/litefs"
	lfshttp "github.com/superfly/litefs/http"
	"github.com/superfly/litefs/lfsc"
	"github.com/superfly/ltx"
	"verif/lab"
	"verif/mon"
	"verif/oracle"
	"verif/pager"
	"verif/prog"
)

// Config selects the cluster shape and the alphabet.
type Config struct {
	PageSize  int      `json:"ps"`
	Start     uint32   `json:"start"`    // pages of database "a" created in the initial state
	WAL       bool     `json:"wal"`      // database "a" runs in WAL mode
	Compress  bool     `json:"lz4"`      // LZ4 on every node
	SecondDB  bool     `json:"db2"`      // a second database "b" exists
	FilterR2  bool     `json:"filter"`   // R2 replicates only "a"
	R2Starts  string   `json:"r2"`       // "" connected | "partitioned" | "absent" (not started until start:R2)
	Alphabet  []string `json:"alphabet"` // event templates enabled (see Enabled)
	Retention bool     `json:"retention"`
	Backup    bool     `json:"backup"` // nodes are configured with a (dummy) backup client: retention must honour the high-water mark
	// BackupKind selects a real backup client on every candidate node, all talking to one service:
	// "file" (litefs.FileBackupClient), "lfsc" (lfsc.BackupClient against lab.FakeLFSC) or "lfsc-lag" (the same with a
	// service whose acknowledged high-water mark trails its data by one upload). Enables the C14 oracles.
	BackupKind string `json:"backup_kind,omitempty"`
	// BackupLoop runs the store's own continuous sync loop (1 s batching delay, position map cached for the
	// whole history) instead of explicit sync events; faults are armed by "arm:<fault>" events.
	BackupLoop bool `json:"backup_loop,omitempty"`
	// BackupFullSync (with BackupLoop), in seconds: the loop's periodic full sync (position map fetched again) runs
	// at this interval instead of practically never; an idle primary must then notice every change of the service.
	BackupFullSync int `json:"backup_full_sync,omitempty"`
	// Prelude is a fixed event sequence applied (and checked) before the search starts: non-initial start states.
	Prelude []string `json:"prelude,omitempty"`
}

// V is a violation.
type V = prog.V

// Result of running one history.
type Result struct {
	Key     string   `json:"key"`     // canonical state key of the final state
	Enabled []string `json:"enabled"` // events enabled in the final state
	V       []V      `json:"v,omitempty"`
	Class   string   `json:"class"`
	Harness string   `json:"harness,omitempty"`
	Info    string   `json:"info,omitempty"`
}

type posKey struct {
	TXID uint64
	Chk  uint64
}

type runner struct {
	cfg  Config
	res  *Result
	c    *lab.Cluster
	ref  map[string]map[posKey]*oracle.Image // RefDB
	hist []string
	part map[string]bool // node -> partitioned from everyone
	down map[string]bool
	own  uint64
	snapshotsSent int
	// transcript of LTX frames seen on streams: (to, db, header)
	frames []frameRec
	noConverge bool

	// backup service (C14)
	svc       *lab.BackupSvc
	fcs       map[string]*lab.FaultClient // per node
	acked     map[string]uint64           // db -> largest TXID the service held when it acknowledged an upload
	svcDigest map[string]string           // service files after the previous event
	viewOK    map[string]bool             // node/db -> the node's view of the service's position must be accurate: every answer and acknowledgement reached it and nobody touched the service since
	svcPosPrev map[string]ltx.Pos         // service positions after the previous event (loop mode)
	priPosPrev map[string]ltx.Pos         // primary positions after the previous event (loop mode)
	priPrevName string
	restores  int
	hotLeft   map[string]bool // databases on which hotj left a journal at some point
	keep      map[string]*keptConn
	recreateRolledBack map[string]bool // databases whose re-creation was started and rolled back (an empty database file may exist)
	idles int // idle events so far (an idle period changes no state the key sees; at most two per history)
}

type frameRec struct {
	To    string
	From  string
	DB    string
	Hdr   ltx.Header
	ToPos posKey // receiver's position when the frame header was written
}

func (r *runner) viol(key, format string, args ...any) {
	what := fmt.Sprintf(format, args...) + "\nhistory: " + strings.Join(r.hist, " ; ")
	for _, v := range r.res.V {
		if v.Key == key {
			return
		}
	}
	r.res.V = append(r.res.V, V{Key: key, What: what})
}

// Run replays history on a fresh cluster inside a bubble.
func Run(t *testing.T, cfg Config, history []string) (res Result) {
	synctest.Test(t, func(t *testing.T) {
		r := &runner{cfg: cfg, res: &res, ref: map[string]map[posKey]*oracle.Image{}, part: map[string]bool{}, down: map[string]bool{}}
		defer func() {
			if p := recover(); p != nil {
				st := debug.Stack()
				r.viol(prog.PanicKey(p, st), "panic: %v\n%s", p, string(st))
			}
			if r.c != nil {
				r.c.Close()
			}
		}()
		if !r.setup() {
			return
		}
		for _, ev := range history {
			r.hist = append(r.hist, ev)
			res.Class = ""
			if !r.apply(ev) {
				return
			}
			if !r.quiesceAndCheck(ev) {
				return
			}
		}
		res.Key = r.stateKey()
		res.Enabled = r.enabled()
	})
	return res
}

const ttl = 10 * time.Second

func (r *runner) setup() bool {
	c := lab.NewCluster(ttl)
	r.c = c
	c.Compress = r.cfg.Compress
	c.Defaults = func(cfg *lab.NodeConfig) {
		cfg.DemoteDelay = 3 * time.Second
		if r.cfg.Backup {
			cfg.BackupClient = nopBackup{}
		}
		if r.cfg.BackupKind != "" && cfg.Candidate {
			r.attachBackup(cfg)
		}
	}
	if r.cfg.BackupKind != "" {
		r.svc = lab.NewBackupSvc(filepath.Join(c.Base, "svc"))
		r.fcs = map[string]*lab.FaultClient{}
		r.acked = map[string]uint64{}
		r.viewOK = map[string]bool{}
		r.svcDigest = map[string]string{}
		if strings.HasPrefix(r.cfg.BackupKind, "lfsc") {
			c.Net.Register("lfsc", &lab.FakeLFSC{Svc: r.svc, HWMLag: r.cfg.BackupKind == "lfsc-lag"})
		}
	}
	c.AddNode("P", true, nil)
	c.AddNode("R1", true, nil)
	c.AddNode("R2", false, func(cfg *lab.NodeConfig) {
		if r.cfg.FilterR2 {
			cfg.Filter = []string{"a"}
		}
	})
	c.Net.Tap = nil
	if err := c.Start("P"); err != nil {
		r.res.Harness = "start P: " + err.Error()
		return false
	}
	if p := c.WaitPrimary(5 * time.Second); p == nil || p.Cfg.Name != "P" {
		r.res.Harness = "P did not become primary"
		return false
	}
	if err := c.Start("R1"); err != nil {
		r.res.Harness = "start R1: " + err.Error()
		return false
	}
	switch r.cfg.R2Starts {
	case "absent":
		r.down["R2"] = true
	case "partitioned":
		r.block("R2")
		fallthrough
	default:
		if err := c.Start("R2"); err != nil {
			r.res.Harness = "start R2: " + err.Error()
			return false
		}
	}
	r.hist = append(r.hist, fmt.Sprintf("init(a:%dp ps=%d wal=%v)", r.cfg.Start, r.cfg.PageSize, r.cfg.WAL))
	if !r.createDB("a", r.cfg.Start, r.cfg.WAL) {
		return false
	}
	if r.cfg.SecondDB {
		if !r.createDB("b", 2, false) {
			return false
		}
	}
	if !r.quiesceAndCheck("init") {
		return false
	}
	for _, ev := range r.cfg.Prelude {
		r.hist = append(r.hist, "prelude:"+ev)
		if !r.apply(ev) || !r.quiesceAndCheck(ev) {
			return false
		}
	}
	return true
}

func (r *runner) block(n string) {
	for _, other := range r.c.Names() {
		if other != n {
			r.c.Net.Block(n, other)
		}
	}
	r.part[n] = true
}

func (r *runner) unblock(n string) {
	for _, other := range r.c.Names() {
		if other != n && !r.part[other] {
			r.c.Net.Unblock(n, other)
		}
	}
	delete(r.part, n)
}

func (r *runner) record(db string, p ltx.Pos, img *oracle.Image) {
	if r.ref[db] == nil {
		r.ref[db] = map[posKey]*oracle.Image{}
	}
	r.ref[db][posKey{uint64(p.TXID), uint64(p.PostApplyChecksum)}] = img
}

// current returns the reference image at node n's position of db (nil, false if the position is unknown).
func (r *runner) current(n *lab.Node, db string) (*oracle.Image, bool) {
	d := n.DB(db)
	if d == nil {
		return &oracle.Image{PageSize: r.cfg.PageSize}, true
	}
	p := d.Pos()
	if p.TXID == 0 {
		return &oracle.Image{PageSize: r.cfg.PageSize}, true
	}
	img, ok := r.ref[db][posKey{uint64(p.TXID), uint64(p.PostApplyChecksum)}]
	return img, ok
}

// forward plays a foreign node that takes the halt lock of db on the primary over HTTP, sends one transaction
// file and releases the lock. kind: ok (the next transaction), overlap (a range that starts at the primary's
// current TXID and ends at the next), gap (starts two ahead), again (the current TXID once more). Only "ok"
// extends the position; the others must be refused and leave position, image and log as they are.
func (r *runner) forward(db, kind string) bool {
	p := r.c.Primary()
	if p == nil || p.DB(db) == nil {
		return true
	}
	cur, ok := r.current(p, db)
	if !ok || cur.N() < 2 {
		return true
	}
	cl := lfshttp.NewClient()
	cl.HTTPClient = &http.Client{Transport: r.c.Net.Transport("X")}
	ctx, cancel := context.WithTimeout(context.Background(), 20*time.Second)
	defer cancel()
	const node, lockID = 0xF00D, 4711
	hl, err := cl.AcquireHaltLock(ctx, "http://"+p.Cfg.Name, node, db, lockID)
	if err != nil {
		r.viol("C13/acquire-failed/fwd", "POST /halt for %q on primary %s failed: %v", db, p.Cfg.Name, err)
		return false
	}
	defer func() { _ = cl.ReleaseHaltLock(context.Background(), "http://"+p.Cfg.Name, node, db, lockID) }()
	pos := hl.Pos
	next := cur.Clone()
	next.Pages[1] = pager.MakePage(cur.PageSize, 2, 0xF0000000+uint32(pos.TXID))
	min, max := pos.TXID+1, pos.TXID+1
	switch kind {
	case "overlap":
		min = pos.TXID
	case "gap":
		min, max = pos.TXID+2, pos.TXID+2
	case "again":
		min, max = pos.TXID, pos.TXID
	}
	if min < 2 {
		return true
	}
	var b bytes.Buffer
	enc := ltx.NewEncoder(&b)
	_ = enc.EncodeHeader(ltx.Header{Version: 1, PageSize: uint32(cur.PageSize), Commit: next.N(), MinTXID: min, MaxTXID: max, Timestamp: time.Now().UnixMilli(), PreApplyChecksum: pos.PostApplyChecksum, NodeID: node})
	_ = enc.EncodePage(ltx.PageHeader{Pgno: 2}, next.Pages[1])
	enc.SetPostApplyChecksum(ltx.Checksum(next.Checksum()))
	if err := enc.Close(); err != nil {
		r.res.Harness = "fwd: encode: " + err.Error()
		return false
	}
	before := p.DB(db).Pos()
	names := mon.ListLTX(p.DB(db).LTXDir())
	err = cl.Commit(ctx, "http://"+p.Cfg.Name, node, db, lockID, io.NopCloser(bytes.NewReader(b.Bytes())))
	after := p.DB(db).Pos()
	if kind == "ok" {
		if err != nil {
			r.viol("C13/forwarded-commit-failed/fwd", "a transaction extending the position of %q, forwarded under the halt lock, was refused: %v", db, err)
			return false
		}
		r.record(db, after, next)
		return true
	}
	if err == nil {
		r.viol("C06/bad-file-accepted/fwd-"+kind, "POST /tx with a file covering %s-%s (kind %s) at position %s of %q was accepted", min, max, kind, before, db)
	}
	if after != before {
		r.viol("C06/position-moved/fwd-"+kind, "POST /tx with a file covering %s-%s (kind %s) moved %q from %s to %s", min, max, kind, db, before, after)
		return false
	}
	if now := mon.ListLTX(p.DB(db).LTXDir()); fmt.Sprint(now) != fmt.Sprint(names) {
		r.viol("C09/log-changed/fwd-"+kind, "POST /tx with a file covering %s-%s (kind %s) changed the transaction log of %q: %v -> %v", min, max, kind, db, names, now)
	}
	return true
}

func (r *runner) nextOwner() uint64 { r.own++; return 100 + r.own }

func (r *runner) createDB(name string, pages uint32, wal bool) bool {
	p := r.c.Primary()
	if p == nil {
		r.res.Harness = "createDB without primary"
		return false
	}
	conn := pager.NewConn(p.M, name, r.nextOwner(), r.cfg.PageSize)
	conn.Det = true
	defer conn.Close()
	res := conn.RunRTx(pager.RTx{Create: true, NewSize: pages, Final: "DELETE", Outcome: "commit"}, nil)
	if res.Err != nil || !res.Committed {
		r.viol("C01/create-failed", "creating database %q on the primary failed at %q: %v", name, res.ErrStep, res.Err)
		return false
	}
	r.record(name, p.DB(name).Pos(), res.Intended)
	if wal {
		// Let the initial snapshot to connected replicas finish: it holds read locks on the primary's database.
		lab.Settle(500 * time.Millisecond)
		res = conn.RunRTx(pager.RTx{ToWAL: true, Final: "DELETE", Outcome: "commit"}, res.Intended)
		if res.Err != nil || !res.Committed {
			r.viol("C01/towal-failed", "switching %q to WAL failed at %q: %v", name, res.ErrStep, res.Err)
			return false
		}
		r.record(name, p.DB(name).Pos(), res.Intended)
	}
	return true
}

func isWAL(img *oracle.Image) bool { return img.N() > 0 && img.Pages[0][18] == 2 }

// tx runs one transaction shape on the primary.
func (r *runner) tx(db, shape string) bool {
	p := r.c.Primary()
	if p == nil {
		return true // not enabled; treated as no-op
	}
	cur, ok := r.current(p, db)
	if !ok {
		r.viol("C01/primary-unknown-position", "primary %s reports a position of %q that no primary ever committed: %s", p.Cfg.Name, db, p.DB(db).Pos())
		return false
	}
	s := cur.N()
	if s == 0 || r.hotJournal(p, db) {
		return true
	}
	conn := pager.NewConn(p.M, db, r.nextOwner(), cur.PageSize)
	conn.Det = true
	defer conn.Close()
	var committed bool
	var intended *oracle.Image
	var err error
	var errStep string
	seq := func(a, b uint32) []uint32 {
		var out []uint32
		for x := a; x <= b; x++ {
			out = append(out, x)
		}
		return out
	}
	nextBlk := (s/256+1)*256 + 1
	prevBlk := uint32(0)
	if s > 256 {
		prevBlk = ((s-1)/256)*256 - 56
	}
	if isWAL(cur) {
		var w pager.WTx
		switch shape {
		case "t1":
			w = pager.WTx{Frames: []uint32{1}, Outcome: "commit"}
		case "tl":
			w = pager.WTx{Frames: []uint32{s}, Outcome: "commit"}
		case "g1":
			w = pager.WTx{Frames: []uint32{1, s + 1}, Outcome: "commit"}
		case "gb":
			w = pager.WTx{Frames: append([]uint32{1}, seq(s+1, nextBlk)...), Outcome: "commit"}
		case "s1":
			if s < 2 {
				return true
			}
			w = pager.WTx{Frames: []uint32{1}, NewSize: s - 1, Outcome: "commit"}
		case "sb":
			if prevBlk == 0 {
				return true
			}
			w = pager.WTx{Frames: []uint32{1}, NewSize: prevBlk, Outcome: "commit"}
		case "tr":
			// the same page twice in one transaction (written to the log by a cache spill, modified again, written again)
			w = pager.WTx{Frames: []uint32{2, 1, 2}, Outcome: "commit"}
		case "fl":
			// growth by free-list leaves that get no frame (what readers find for them: an earlier frame, the file, zeros)
			w = pager.WTx{Frames: []uint32{1, s}, NewSize: s + 2, FreeLeaves: true, Outcome: "commit"}
		case "sp":
			// a page appended, spilled to the log and freed again: its frame lies beyond the commit size
			w = pager.WTx{Frames: []uint32{s + 1, 1}, NewSize: s, Outcome: "commit"}
		case "rb":
			w = pager.WTx{Frames: []uint32{2, 1}, Outcome: "rollback"}
		case "ck":
			e := conn.Checkpoint("TRUNCATE", 0)
			if e != nil {
				r.viol("C01/ckpt-failed", "checkpoint on primary failed: %v", e)
				return false
			}
			return true
		default:
			r.res.Harness = "bad shape " + shape
			return false
		}
		res := conn.RunWTx(w, cur)
		committed, intended, err, errStep = res.Committed, res.Intended, res.Err, res.ErrStep
	} else {
		var x pager.RTx
		switch shape {
		case "t1":
			x = pager.RTx{Final: "DELETE", Outcome: "commit"}
		case "tl":
			x = pager.RTx{Mods: []uint32{s}, Final: "TRUNCATE", Outcome: "commit"}
		case "g1":
			x = pager.RTx{NewSize: s + 1, Final: "PERSIST", Outcome: "commit"}
		case "gb":
			x = pager.RTx{NewSize: nextBlk, Final: "DELETE", Outcome: "commit"}
		case "fl":
			x = pager.RTx{Mods: []uint32{s}, NewSize: s + 4, FreeLeaves: true, FirstNew: 1, Final: "DELETE", Outcome: "commit"} // s+1 written, s+2 and s+3 never, s+4 the zero page that extends the file
		case "sp":
			return true // WAL only
		case "s1":
			if s < 2 {
				return true
			}
			x = pager.RTx{NewSize: s - 1, Final: "DELETE", Outcome: "commit"}
		case "sb":
			if prevBlk == 0 {
				return true
			}
			x = pager.RTx{NewSize: prevBlk, Final: "TRUNCATE", Outcome: "commit"}
		case "tr":
			x = pager.RTx{Mods: []uint32{2}, SpillAfter: []int{1}, Final: "DELETE", Outcome: "commit"}
		case "rb":
			x = pager.RTx{Mods: []uint32{2}, SpillAfter: []int{1}, Final: "DELETE", Outcome: "rollback"}
		case "ck":
			return true
		default:
			r.res.Harness = "bad shape " + shape
			return false
		}
		res := conn.RunRTx(x, cur)
		committed, intended, err, errStep = res.Committed, res.Intended, res.Err, res.ErrStep
	}
	if err != nil {
		r.viol("C01/primary-tx-failed/"+shape, "transaction %s on primary %s failed at %q: %v", shape, p.Cfg.Name, errStep, err)
		return false
	}
	if committed {
		r.record(db, p.DB(db).Pos(), intended)
	} else {
		// a rollback may still advance the TXID with an unchanged image
		r.record(db, p.DB(db).Pos(), cur)
	}
	return true
}

func (r *runner) apply(ev string) bool {
	f := strings.Split(ev, ":")
	switch f[0] {
	case "tx":
		return r.tx(f[1], f[2])
	case "part":
		r.block(f[1])
	case "heal":
		r.unblock(f[1])
	case "cut":
		r.c.Net.CutAll(f[1])
	case "restart":
		n := r.c.Nodes[f[1]]
		if err := n.Stop(); err != nil {
			r.viol("C01/stop-error", "%s: Store.Close: %v", f[1], err)
		}
		if err := n.Start(); err != nil {
			r.viol("C05/reopen-failed", "%s: Store.Open after clean stop failed: %v", f[1], err)
			return false
		}
	case "start":
		n := r.c.Nodes[f[1]]
		delete(r.down, f[1])
		if err := n.Start(); err != nil {
			r.viol("C01/start-failed", "%s: Store.Open failed: %v", f[1], err)
			return false
		}
	case "demote":
		if p := r.c.Primary(); p != nil {
			p.Store.Demote()
		}
	case "handoff":
		if p := r.c.Primary(); p != nil {
			tgt := r.c.Nodes[f[1]]
			if tgt != p && tgt.Running() {
				_ = p.Store.Handoff(context.Background(), tgt.Store.ID())
			}
		}
	case "retain":
		if p := r.c.Primary(); p != nil {
			for _, db := range p.Store.DBs() {
				ents, _ := os.ReadDir(db.LTXDir())
				old := time.Now().Add(-24 * time.Hour)
				for _, e := range ents {
					_ = os.Chtimes(filepath.Join(db.LTXDir(), e.Name()), old, old)
				}
			}
			p.Store.Retention = time.Minute
			if err := p.Store.EnforceRetention(context.Background()); err != nil {
				r.viol("C09/retention-error", "EnforceRetention: %v", err)
			}
		}
	case "drop":
		if p := r.c.Primary(); p != nil {
			if err := p.M.Remove(f[1]); err != nil {
				r.viol("C15/drop-failed", "unlink of database %q on primary failed: %v", f[1], err)
				return false
			}
			d := p.DB(f[1])
			r.record(f[1], d.Pos(), &oracle.Image{PageSize: r.cfg.PageSize})
		}
	case "age":
		// age:<node>:<which> sets the mtime of LTX files of "a" far into the past. which: o(ldest) n(ewest) a(ll)
		if n := r.c.Nodes[f[1]]; n.Running() && n.DB("a") != nil {
			names := ltxNames(n.DB("a").LTXDir())
			old := time.Now().Add(-24 * time.Hour)
			for i, name := range names {
				if f[2] == "a" || (f[2] == "o" && i == 0) || (f[2] == "n" && i == len(names)-1) {
					_ = os.Chtimes(filepath.Join(n.DB("a").LTXDir(), name), old, old)
				}
			}
		}
	case "litter":
		// litter:<node> leaves the temporary files of interrupted writes in the ltx directory of "a": two with adjacent
		// names that sort after the newest transaction file (local commit / WriteLTXFileAt and stream apply) and one that sorts first.
		if n := r.c.Nodes[f[1]]; n.Running() && n.DB("a") != nil {
			dir := n.DB("a").LTXDir()
			names := ltxNames(dir)
			if len(names) > 0 {
				newest := names[len(names)-1]
				for _, nm := range []string{newest + ".tmp", newest + ".4037200794235010051.tmp", "0000000000000000-0000000000000000.ltx.tmp"} {
					_ = os.WriteFile(filepath.Join(dir, nm), []byte("partial"), 0o666)
				}
			}
		}
	case "hwm":
		// hwm:<node>:<rel> sets the high-water mark relative to the node's TXID: -1, 0, +1, or z for zero
		if n := r.c.Nodes[f[1]]; n.Running() && n.DB("a") != nil {
			db := n.DB("a")
			t := uint64(db.Pos().TXID)
			switch f[2] {
			case "z":
				db.SetHWM(0)
			case "m":
				if t > 0 {
					db.SetHWM(ltx.TXID(t - 1))
				}
			case "e":
				db.SetHWM(ltx.TXID(t))
			case "p":
				db.SetHWM(ltx.TXID(t + 1))
			}
		}
	case "sweep":
		// sweep:<node>:<retention> runs the retention sweep with retention 0 (disabled), 1ns or 10m.
		if n := r.c.Nodes[f[1]]; n.Running() {
			return r.sweep(n, f[2])
		}
	case "recover":
		if p := r.c.Primary(); p != nil {
			if err := p.Store.Recover(context.Background()); err != nil {
				r.viol("C04/recover-error", "Store.Recover on primary: %v", err)
				return false
			}
		}
	case "hot", "hotj":
		// hotj: the first half of hot only - the journal is left behind. While it is there the database file holds
		// uncommitted pages which every reader (SQLite's, LiteFS's export) has to roll back first; the per-event image
		// oracles skip the database on that node until the journal is gone.
		// An application dies in the middle of a rollback-journal transaction on the primary (pages - among them the
		// database's last one - already overwritten in the file after a cache spill, a valid journal next to it); then
		// LiteFS recovers, as it does on a role change. Nothing was committed: everything is as before.
		if p := r.c.Primary(); p != nil {
			cur, ok := r.current(p, f[1])
			if !ok || cur.N() < 2 || isWAL(cur) || r.hotJournal(p, f[1]) {
				return true
			}
			conn := pager.NewConn(p.M, f[1], r.nextOwner(), cur.PageSize)
			conn.Det = true
			func() {
				defer func() {
					if x := recover(); x != nil {
						if _, ok := x.(pager.Abort); !ok {
							panic(x)
						}
					}
				}()
				writes := 0
				conn.Before = func(step int, desc string) {
					if strings.HasPrefix(desc, "db fsync") {
						panic(pager.Abort{Step: step})
					}
					if strings.HasPrefix(desc, "db write page") {
						writes++
					}
				}
				conn.RunRTx(pager.RTx{Mods: []uint32{2, cur.N()}, NewSize: cur.N() + 2, SpillAfter: []int{2}, Final: "DELETE", Outcome: "commit"}, cur)
			}()
			conn.Before = nil
			conn.Close()
			if f[0] == "hotj" {
				if r.hotLeft == nil {
					r.hotLeft = map[string]bool{}
				}
				r.hotLeft[f[1]] = true
				// nobody has opened the database since: the journal stays until LiteFS itself has a reason to recover
				return true
			}
			if err := p.Store.Recover(context.Background()); err != nil {
				r.viol("C04/recover-error", "Store.Recover on primary with a dead application's hot journal: %v", err)
				return false
			}
		}
	case "towal":
		if p := r.c.Primary(); p != nil {
			cur, ok := r.current(p, f[1])
			if ok && cur.N() > 0 && !isWAL(cur) {
				conn := pager.NewConn(p.M, f[1], r.nextOwner(), cur.PageSize)
				conn.Det = true
				res := conn.RunRTx(pager.RTx{ToWAL: true, Final: "DELETE", Outcome: "commit"}, cur)
				conn.Close()
				if res.Err != nil || !res.Committed {
					r.viol("C01/towal-failed", "switching %q to WAL failed at %q: %v", f[1], res.ErrStep, res.Err)
					return false
				}
				r.record(f[1], p.DB(f[1]).Pos(), res.Intended)
			}
		}
	case "fromwal":
		// PRAGMA journal_mode=DELETE on a WAL database: checkpoint, unlink the log, page 1 through a rollback journal
		if p := r.c.Primary(); p != nil {
			cur, ok := r.current(p, f[1])
			if ok && cur.N() > 0 && isWAL(cur) {
				conn := pager.NewConn(p.M, f[1], r.nextOwner(), cur.PageSize)
				conn.Det = true
				err := conn.LeaveWAL()
				var res pager.RTxResult
				if err == nil {
					res = conn.RunRTx(pager.RTx{FromWAL: true, Final: "DELETE", Outcome: "commit"}, cur)
					err = res.Err
				}
				conn.Close()
				if err != nil || !res.Committed {
					r.viol("C01/fromwal-failed", "switching %q back to a rollback journal failed at %q: %v", f[1], res.ErrStep, err)
					return false
				}
				r.record(f[1], p.DB(f[1]).Pos(), res.Intended)
			}
		}
	case "import":
		if p := r.c.Primary(); p != nil {
			return r.importDB(p, f[1], f[2])
		}
	case "create":
		if p := r.c.Primary(); p != nil {
			if d := p.DB(f[1]); d == nil || d.PageN() == 0 {
				return r.recreate(p, f[1], false)
			}
		}
	case "createrb", "createrb0":
		// the application starts to create the database again and rolls its first transaction back (createrb:
		// synchronous=OFF, the journal header is valid at once; createrb0: the default, the header's magic is still zero
		// when the journal goes) - nothing may change, and late joiners must still be served
		if p := r.c.Primary(); p != nil {
			if d := p.DB(f[1]); d != nil && d.PageN() == 0 {
				before := d.Pos()
				conn := pager.NewConn(p.M, f[1], r.nextOwner(), r.cfg.PageSize)
				conn.Det = true
				syncMode := 2
				if f[0] == "createrb0" {
					syncMode = 0
				}
				res := conn.RunRTx(pager.RTx{Create: true, NewSize: 2, SyncMode: syncMode, Final: "DELETE", Outcome: "rollback"}, nil)
				conn.Close()
				if r.recreateRolledBack == nil {
					r.recreateRolledBack = map[string]bool{}
				}
				r.recreateRolledBack[f[1]] = true
				if res.Err != nil {
					r.viol("C02/op-error/recreate-rollback", "rolling back the first transaction of re-created database %q failed at %q: %v", f[1], res.ErrStep, res.Err)
					return false
				}
				if d.Pos() != before {
					r.viol("C15/recreate-rollback-moved", "a rolled-back re-creation of %q moved its position %s -> %s", f[1], before, d.Pos())
				}
			}
		}
	case "createps":
		if p := r.c.Primary(); p != nil {
			if d := p.DB(f[1]); d == nil || d.PageN() == 0 {
				return r.recreate(p, f[1], true)
			}
		}
	case "sync":
		fault := ""
		if len(f) > 1 {
			fault = f[1]
		}
		return r.syncBackup(fault)
	case "svc":
		return r.svcEvent(f[1], f[2])
	case "arm":
		if p := r.c.Primary(); p != nil && r.fcs[p.Cfg.Name] != nil {
			r.fcs[p.Cfg.Name].Arm = f[1]
		}
	case "idle":
		r.idles++
		// nothing happens for longer than two periods of the backup loop's full sync
		d := 12 * time.Second
		if r.cfg.BackupFullSync > 0 {
			d = time.Duration(2*r.cfg.BackupFullSync+2) * time.Second
		}
		lab.Settle(d)
	case "fwd":
		return r.forward(f[1], f[2])
	case "burst":
		return r.burst(f[1], 257)
	default:
		r.res.Harness = "unknown event " + ev
		return false
	}
	return true
}

type nopBackup struct{}

func (nopBackup) URL() string { return "nop://" }
func (nopBackup) PosMap(ctx context.Context) (map[string]ltx.Pos, error) {
	return nil, fmt.Errorf("backup service unreachable")
}
func (nopBackup) WriteTx(ctx context.Context, name string, r io.Reader) (ltx.TXID, error) {
	return 0, fmt.Errorf("backup service unreachable")
}
func (nopBackup) FetchSnapshot(ctx context.Context, name string) (io.ReadCloser, error) {
	return nil, fmt.Errorf("backup service unreachable")
}

func ltxNames(dir string) []string {
	ents, _ := os.ReadDir(dir)
	var out []string
	for _, e := range ents {
		if strings.HasSuffix(e.Name(), ".ltx") {
			out = append(out, e.Name())
		}
	}
	sort.Strings(out)
	return out
}

// sweep runs Store.EnforceRetention and checks which files it removed against the property's guards.
func (r *runner) sweep(n *lab.Node, ret string) bool {
	var d time.Duration
	switch ret {
	case "0":
		d = 0
	case "1ns":
		d = time.Nanosecond
	case "10m":
		d = 10 * time.Minute
	}
	type fileInfo struct {
		mtime time.Time
		max   uint64
	}
	before := map[string]map[string]fileInfo{}
	hwm := map[string]uint64{}
	for _, db := range n.Store.DBs() {
		m := map[string]fileInfo{}
		for _, name := range ltxNames(db.LTXDir()) {
			fi, err := os.Stat(filepath.Join(db.LTXDir(), name))
			if err != nil {
				continue
			}
			_, max, _ := ltx.ParseFilename(name)
			m[name] = fileInfo{fi.ModTime(), uint64(max)}
		}
		before[db.Name()] = m
		hwm[db.Name()] = uint64(db.HWM())
	}
	n.Store.Retention = d
	now := time.Now()
	if err := n.Store.EnforceRetention(context.Background()); err != nil {
		r.viol("C09/retention-error", "%s: EnforceRetention: %v", n.Cfg.Name, err)
	}
	for _, db := range n.Store.DBs() {
		after := map[string]bool{}
		names := ltxNames(db.LTXDir())
		for _, name := range names {
			after[name] = true
		}
		var newest string
		var all []string
		for name := range before[db.Name()] {
			all = append(all, name)
		}
		sort.Strings(all)
		if len(all) > 0 {
			newest = all[len(all)-1]
		}
		for _, name := range all {
			fi := before[db.Name()][name]
			if after[name] {
				continue
			}
			// name was removed
			who := n.Cfg.Name + "/" + db.Name()
			if name == newest {
				r.viol("C09/removed-newest", "%s: retention removed the newest transaction file %s", who, name)
			}
			if d <= 0 {
				r.viol("C09/removed-while-disabled", "%s: retention is disabled (0) but %s was removed", who, name)
			} else if !fi.mtime.Before(now.Add(-d)) {
				r.viol("C09/removed-young", "%s: %s (mtime %s) is not older than the retention period %s at %s", who, name, fi.mtime, d, now)
			}
			if (r.cfg.Backup || r.cfg.BackupKind != "") && !(fi.max < hwm[db.Name()]) {
				r.viol("C09/removed-unconfirmed", "%s: %s (max TXID %d) was removed although the backup high-water mark is %d", who, name, fi.max, hwm[db.Name()])
			}
		}
	}
	return true
}

// importDB posts an image to the primary's /import endpoint through the real HTTP client.
// kind: "s" (2 pages, same page size), "b" (300 pages), "w" (2 pages, WAL header).
func (r *runner) importDB(p *lab.Node, name, kind string) bool {
	ps := r.cfg.PageSize
	n := uint32(2)
	if kind == "b" {
		n = 300
	}
	var base uint32 = 0x400000
	if d := p.DB(name); d != nil {
		base += uint32(d.Pos().TXID) << 8
	}
	img := &oracle.Image{PageSize: ps}
	img.Pages = append(img.Pages, pager.MakePage1(ps, base, n, kind == "w", 7))
	for pg := uint32(2); pg <= n; pg++ {
		img.Pages = append(img.Pages, pager.MakePage(ps, pg, base))
	}
	cl := lfshttp.NewClient()
	cl.HTTPClient = &http.Client{Transport: r.c.Net.Transport("client")}
	err := cl.Import(context.Background(), "http://"+p.Cfg.Name, name, bytes.NewReader(img.Bytes()))
	if err != nil {
		r.viol("C16/import-failed", "importing a valid %d-page image into %q failed: %v\nhandler panics: %v\nexit codes: %v", n, name, err, r.c.Net.Panics, p.ExitCodes())
		return false
	}
	want := img.Clone()
	for _, off := range []int{24, 25, 26, 27, 40, 41, 42, 43} {
		want.Pages[0][off] = 0
	}
	r.record(name, p.DB(name).Pos(), want)
	return true
}

// recreate creates a database under a name that was dropped before: the TXID sequence must continue.
func (r *runner) recreate(p *lab.Node, name string, otherPageSize bool) bool {
	var before ltx.Pos
	if d := p.DB(name); d != nil {
		before = d.Pos()
	}
	ps := r.cfg.PageSize
	if otherPageSize {
		// the application re-creates the database with another page size (PRAGMA page_size before the first write)
		ps = 1024
		if r.cfg.PageSize == 1024 {
			ps = 4096
		}
	}
	conn := pager.NewConn(p.M, name, r.nextOwner(), ps)
	conn.Det = true
	defer conn.Close()
	res := conn.RunRTx(pager.RTx{Create: true, NewSize: 2, Final: "DELETE", Outcome: "commit"}, nil)
	if res.Err != nil || !res.Committed {
		if otherPageSize && res.Err != nil && strings.Contains(res.Err.Error(), "must be exactly one page") {
			r.viol("C15/recreate-other-page-size", "re-creating database %q with page size %d (it had %d before it was dropped) failed at %q: %v", name, ps, r.cfg.PageSize, res.ErrStep, res.Err)
			return false
		}
		r.viol("C15/recreate-failed", "re-creating database %q failed at %q: %v", name, res.ErrStep, res.Err)
		return false
	}
	after := p.DB(name).Pos()
	if after.TXID != before.TXID+1 {
		r.viol("C15/recreate-txid", "database %q re-created: TXID went from %d to %d, want +1", name, before.TXID, after.TXID)
	}
	r.record(name, after, res.Intended)
	return true
}

func (r *runner) connected(n string) bool { return !r.part[n] && !r.down[n] && r.c.Nodes[n].Running() }

// quiesceAndCheck drains the cluster and evaluates every oracle.
func (r *runner) quiesceAndCheck(ev string) bool {
	// Wait for exactly one primary among connected nodes (role changes take a few fake seconds).
	p := r.c.WaitPrimary(40 * time.Second)
	if p == nil {
		// A partitioned former primary may still hold on for a TTL; give it the full lease horizon.
		p = r.c.WaitPrimary(3 * ttl)
	}
	if p == nil {
		r.viol("C01/no-single-primary/"+evKind(ev), "after %q and 70 fake seconds the primaries are %v", ev, r.c.Primaries())
		return false
	}
	skip := map[string]bool{}
	for _, n := range r.c.Names() {
		if !r.connected(n) {
			skip[n] = true
		}
	}
	if r.part[p.Cfg.Name] {
		// the primary itself is cut off: nobody can converge
		for _, n := range r.c.Names() {
			skip[n] = true
		}
	}
	ok, why := r.c.WaitConverged(40*time.Second, skip)
	lab.Settle(1500 * time.Millisecond)
	if !ok {
		if ok2, why2 := r.c.Converged(skip); !ok2 {
			r.viol("C01/no-convergence/"+evKind(ev), "after %q and 40 fake seconds with links healed: %s (%s)", ev, why2, why)
		}
	}
	for _, name := range r.c.Names() {
		n := r.c.Nodes[name]
		if !n.Running() {
			continue
		}
		if codes := n.ExitCodes(); len(codes) > 0 {
			r.viol("C01/exit/"+evKind(ev), "%s called Store.Exit(%v) on a healthy history", name, codes)
			return false
		}
		for _, db := range n.Store.DBs() {
			dbn := db.Name()
			img, known := r.current(n, dbn)
			if !known {
				r.viol("C01/unknown-position/"+evKind(ev), "%s/%s reports position %s which no primary ever committed", name, dbn, db.Pos())
				continue
			}
			if r.hotJournal(n, dbn) {
				continue
			}
			_, fs := mon.CheckDB(n, dbn, img)
			for _, f := range fs {
				pr := f.Prop
				if pr == "image" {
					pr = "C01"
				}
				r.viol(pr+"/"+f.Key+"/"+evKind(ev), "%s", f.What)
			}
			r.readerCheck(n, dbn, ev)
		}
		// Directory listing: dropped (zero-page) databases are hidden, live ones are listed.
		names, err := n.M.ReadDir()
		if err == nil {
			listed := map[string]bool{}
			for _, x := range names {
				listed[x] = true
			}
			for _, db := range n.Store.DBs() {
				if db.PageN() == 0 {
					for _, suf := range []string{"", "-pos", "-journal", "-wal", "-shm"} {
						if listed[db.Name()+suf] {
							r.viol("C15/listed-after-drop", "%s lists %q although the database has zero pages", name, db.Name()+suf)
						}
					}
					for _, fn := range []string{"database", "journal", "wal", "shm"} {
						if fi, err := os.Stat(filepath.Join(db.Path(), fn)); err == nil {
							if fn == "database" && fi.Size() == 0 && (r.recreateRolledBack[db.Name()] || db.Pos().TXID == 0) {
								// the empty file an application created and then gave up on (createrb), or that of a database which
								// never had a transaction (created, nothing written yet): not a left-over of a drop
								continue
							}
							r.viol("C15/file-left-after-drop/"+fn, "%s/%s: file %q still exists although the database has zero pages at %s", name, db.Name(), fn, db.Pos())
						}
					}
					if db.Pos().TXID > 0 && uint64(db.Pos().PostApplyChecksum) != oracle.EmptyChecksum {
						r.viol("C15/drop-checksum", "%s/%s: dropped database reports checksum %016x", name, db.Name(), uint64(db.Pos().PostApplyChecksum))
					}
				} else if !listed[db.Name()] {
					r.viol("C15/not-listed", "%s does not list live database %q", name, db.Name())
				}
			}
		}
	}
	r.checkBackup(ev)
	if len(r.c.Net.Panics) > 0 {
		r.viol("C20/handler-panic", "HTTP handler panicked: %s", r.c.Net.Panics[0])
	}
	return len(r.res.V) == 0
}

func evKind(ev string) string {
	f := strings.Split(ev, ":")
	if f[0] == "tx" {
		return "tx-" + f[2]
	}
	return f[0]
}

// hotJournal reports whether the hotj event left a journal next to the node's database that is still there.
func (r *runner) hotJournal(n *lab.Node, db string) bool {
	d := n.DB(db)
	if d == nil || !r.hotLeft[db] {
		return false
	}
	if _, err := os.Stat(d.JournalPath()); err != nil {
		return false
	}
	return true
}

// readerCheck is the C01 safety oracle: what an application reads through the
// node's mount, under the locks SQLite would hold, equals the reference image
// of the position it reads under those locks.
func (r *runner) readerCheck(n *lab.Node, db, ev string) {
	d := n.DB(db)
	if d == nil || d.PageN() == 0 {
		return
	}
	conn := pager.NewConn(n.M, db, r.nextOwner(), r.cfg.PageSize)
	defer conn.Close()
	wal := d.Mode() == litefs.DBModeWAL
	var got *oracle.Image
	var err error
	posStr, perr := n.M.ReadPos(db)
	if wal {
		got, err = conn.ReadImageWAL()
	} else {
		got, err = conn.ReadImage()
	}
	if err != nil {
		r.viol("C01/reader-error/"+evKind(ev), "%s/%s: reading through the mount failed: %v", n.Cfg.Name, db, err)
		return
	}
	if perr != nil {
		r.viol("C01/pos-read-error", "%s/%s: reading -pos failed: %v", n.Cfg.Name, db, perr)
		return
	}
	var txid, chk uint64
	if _, e := fmt.Sscanf(posStr, "%016x/%016x\n", &txid, &chk); e != nil {
		r.viol("C01/pos-format", "%s/%s: -pos content %q", n.Cfg.Name, db, posStr)
		return
	}
	want, ok := r.ref[db][posKey{txid, chk}]
	if !ok {
		r.viol("C01/reader-unknown-position/"+evKind(ev), "%s/%s: -pos reads (%d,%016x), a position no primary ever committed (DB.Pos=%s)", n.Cfg.Name, db, txid, chk, d.Pos())
		return
	}
	if ok, diff := got.Equal(want); !ok {
		r.viol("C01/reader-image/"+evKind(ev), "%s/%s: at position (%d,%016x) an application reads through the page cache an image that differs from the primary's image at that position: %s\ncache log tail: %v",
			n.Cfg.Name, db, txid, chk, diff, tailS(n.PC.Log, 8))
	}
	// A connection opened for this check is the only one and therefore rebuilds the wal-index from the log, as
	// SQLite's first opener does. An application that has been connected all along trusts the index it finds - the
	// one LiteFS publishes after every apply. In WAL mode the same read is made through such a connection too.
	key := n.Cfg.Name + "/" + db
	if k := r.keep[key]; k != nil && k.m != n.M {
		k.c.Close()
		delete(r.keep, key)
	}
	if !wal {
		// (the connection stays attached while the database is in a rollback mode - an idle application does not
		// notice - so that after a switch back the next opener is not the first and trusts the index again)
		return
	}
	k := r.keep[key]
	if k == nil {
		if r.keep == nil {
			r.keep = map[string]*keptConn{}
		}
		k = &keptConn{c: pager.NewConn(n.M, db, r.nextOwner(), r.cfg.PageSize), m: n.M}
		r.keep[key] = k
	}
	posStr2, _ := n.M.ReadPos(db)
	got2, err2 := k.c.ReadImageWAL()
	if err2 != nil {
		// the database was replaced under the connection (dropped and created again): connect anew next time
		k.c.Close()
		delete(r.keep, key)
		return
	}
	if posStr2 != posStr {
		return // the node moved between the two reads
	}
	if ok, diff := got2.Equal(want); !ok {
		r.viol("C01/reader-image-long-lived/"+evKind(ev), "%s/%s: at position (%d,%016x) an application that has been connected since an earlier state reads an image that differs from the primary's image at that position: %s", n.Cfg.Name, db, txid, chk, diff)
	}
}

// keptConn is a reader connection that stays open from state to state (on the mount it was opened on).
type keptConn struct {
	c *pager.Conn
	m *lab.Mount
}

func tailS(a []string, n int) []string {
	if len(a) > n {
		return a[len(a)-n:]
	}
	return a
}

// enabled lists the events enabled in the current state, simplest first.
func (r *runner) enabled() []string {
	var out []string
	has := func(t string) bool {
		for _, a := range r.cfg.Alphabet {
			if a == t {
				return true
			}
		}
		return false
	}
	p := r.c.Primary()
	dbs := []string{"a"}
	if r.cfg.SecondDB {
		dbs = append(dbs, "b")
	}
	for _, db := range dbs {
		if p == nil {
			break
		}
		cur, ok := r.current(p, db)
		if !ok || cur.N() == 0 {
			if has("create") && p.DB(db) != nil {
				out = append(out, "create:"+db)
			}
			if has("createps") && p.DB(db) != nil && db == "a" {
				out = append(out, "createps:"+db)
			}
			if has("createrb") && p.DB(db) != nil && db == "a" {
				out = append(out, "createrb:"+db)
			}
			if has("createrb0") && p.DB(db) != nil && db == "a" {
				out = append(out, "createrb0:"+db)
			}
			continue
		}
		for _, sh := range []string{"t1", "tl", "tr", "g1", "gb", "s1", "sb", "fl", "sp", "rb", "ck"} {
			if !has("tx:" + sh) {
				continue
			}
			s := cur.N()
			switch sh {
			case "tr":
				if s < 2 {
					continue
				}
			case "s1":
				if s < 3 {
					continue
				}
			case "sb":
				if s <= 256 {
					continue
				}
			case "gb":
				if s > 300 {
					continue
				}
			case "ck", "sp":
				if !isWAL(cur) {
					continue
				}
			}
			if db == "b" && sh != "t1" && sh != "g1" {
				continue
			}
			out = append(out, "tx:"+db+":"+sh)
		}
		if db == "a" && cur.N() >= 2 {
			for _, k := range []string{"ok", "overlap", "gap", "again"} {
				if has("fwd:" + k) {
					out = append(out, "fwd:"+db+":"+k)
				}
			}
		}
		if has("hot") && db == "a" && !isWAL(cur) && cur.N() >= 2 {
			out = append(out, "hot:"+db)
		}
		if has("hotj") && db == "a" && !isWAL(cur) && cur.N() >= 2 {
			out = append(out, "hotj:"+db)
		}
		if has("drop") {
			out = append(out, "drop:"+db)
		}
		if has("towal") && !isWAL(cur) {
			out = append(out, "towal:"+db)
		}
		if has("fromwal") && isWAL(cur) && cur.N() > 0 {
			out = append(out, "fromwal:"+db)
		}
		if db == "a" {
			for _, k := range []string{"s", "b", "w"} {
				if has("import:" + k) {
					out = append(out, "import:"+db+":"+k)
				}
			}
		}
	}
	if has("recover") && p != nil {
		out = append(out, "recover")
	}
	if has("idle") && r.idles < 2 {
		out = append(out, "idle")
	}
	for _, n := range []string{"R1", "R2"} {
		if r.down[n] {
			if has("start") {
				out = append(out, "start:"+n)
			}
			continue
		}
		if r.part[n] {
			if has("heal") {
				out = append(out, "heal:"+n)
			}
		} else {
			if has("part") {
				out = append(out, "part:"+n)
			}
			if has("cut") {
				out = append(out, "cut:"+n)
			}
		}
		if has("restart") {
			out = append(out, "restart:"+n)
		}
	}
	if has("restartP") && p != nil {
		out = append(out, "restart:"+p.Cfg.Name)
	}
	if has("retain") {
		out = append(out, "retain")
	}
	for _, n := range []string{"P", "R1"} {
		if !r.c.Nodes[n].Running() {
			continue
		}
		if has("litter") && r.c.Nodes[n].DB("a") != nil {
			if _, err := os.Stat(filepath.Join(r.c.Nodes[n].DB("a").LTXDir(), "0000000000000000-0000000000000000.ltx.tmp")); err != nil {
				out = append(out, "litter:"+n)
			}
		}
		if has("age") {
			// Ageing keeps modification times monotone in the TXID (as file creation order guarantees): the oldest file, or all files.
			out = append(out, "age:"+n+":o", "age:"+n+":a")
		}
		if has("hwm") && r.cfg.Backup {
			out = append(out, "hwm:"+n+":z", "hwm:"+n+":m", "hwm:"+n+":e", "hwm:"+n+":p")
		}
		if has("sweep") {
			out = append(out, "sweep:"+n+":0", "sweep:"+n+":1ns", "sweep:"+n+":10m")
		}
	}
	if r.svc != nil && p != nil {
		if has("sync") && !r.cfg.BackupLoop {
			out = append(out, "sync")
		}
		for _, flt := range []string{"wt-before", "wt-after", "wt-partial", "pm", "pm-omit", "fs", "fs-partial"} {
			if has("sync:"+flt) && !r.cfg.BackupLoop {
				out = append(out, "sync:"+flt)
			}
			if has("arm:"+flt) && r.cfg.BackupLoop && r.fcs[p.Cfg.Name] != nil && r.fcs[p.Cfg.Name].Arm == "" {
				out = append(out, "arm:"+flt)
			}
		}
		if has("svc:stray") {
			if _, err := os.Stat(filepath.Join(r.svc.Dir, "zz")); err != nil {
				out = append(out, "svc:stray:zz")
			}
		}
		if has("svc:newdb") && p.DB("yy") == nil {
			if _, err := os.Stat(filepath.Join(r.svc.Dir, "yy")); err != nil {
				out = append(out, "svc:newdb:yy")
			}
		}
		for _, db := range dbs {
			ch := r.svc.Chain(db)
			for _, k := range []string{"wipe", "back", "ahead", "fork"} {
				if !has("svc:" + k) {
					continue
				}
				switch k {
				case "wipe":
					if len(ch.Files) == 0 {
						continue
					}
				case "back":
					if len(ch.Files) < 2 {
						continue
					}
				case "ahead", "fork":
					if ch.Image() == nil || ch.Image().N() < 2 || ch.Pos().TXID > 40 {
						continue
					}
				}
				out = append(out, "svc:"+k+":"+db)
			}
			if has("burst") {
				if d := p.DB(db); d != nil && d.PageN() > 0 && d.Pos().TXID < 100 {
					out = append(out, "burst:"+db)
				}
			}
		}
	}
	if has("demote") && p != nil {
		out = append(out, "demote")
	}
	if has("handoff") && p != nil {
		for _, n := range []string{"P", "R1"} {
			if n != p.Cfg.Name && r.connected(n) {
				out = append(out, "handoff:"+n)
			}
		}
	}
	return out
}

// stateKey is the canonical key: everything durable or cached that can influence the future.
func (r *runner) stateKey() string {
	h := sha256.New()
	for _, name := range r.c.Names() {
		n := r.c.Nodes[name]
		fmt.Fprintf(h, "node %s running=%v part=%v down=%v\n", name, n.Running(), r.part[name], r.down[name])
		if !n.Running() {
			continue
		}
		fmt.Fprintf(h, "primary=%v\n", n.Store.IsPrimary())
		dbs := n.Store.DBs()
		sort.Slice(dbs, func(i, j int) bool { return dbs[i].Name() < dbs[j].Name() })
		for _, db := range dbs {
			fmt.Fprintf(h, "db %s\n%s", db.Name(), db.VerifDump())
			for _, fn := range []string{"database", "wal", "journal"} {
				b, err := os.ReadFile(filepath.Join(db.Path(), fn))
				if err != nil {
					fmt.Fprintf(h, "%s absent\n", fn)
				} else {
					sum := sha256.Sum256(b)
					fmt.Fprintf(h, "%s %d %x\n", fn, len(b), sum[:8])
				}
			}
			ents, _ := os.ReadDir(db.LTXDir())
			for _, e := range ents {
				f, err := oracle.DecodeLTXFile(filepath.Join(db.LTXDir(), e.Name()))
				if err != nil {
					fmt.Fprintf(h, "ltx %s undecodable\n", e.Name())
					continue
				}
				if fi, err := e.Info(); err == nil {
					fmt.Fprintf(h, "old=%v ", fi.ModTime().Before(time.Now().Add(-time.Hour)))
				}
				hd := f.Header
				fmt.Fprintf(h, "ltx %s pre=%x post=%x commit=%d pages=%d node=%x\n", e.Name(), uint64(hd.PreApplyChecksum), uint64(f.Trailer.PostApplyChecksum), hd.Commit, len(f.Pages), hd.NodeID)
			}
		}
	}
	if r.svc != nil {
		d := r.svc.Digest()
		var ks []string
		for k := range d {
			ks = append(ks, k)
		}
		sort.Strings(ks)
		for _, k := range ks {
			fmt.Fprintf(h, "svc %s %s\n", k, d[k])
		}
		if ents, err := os.ReadDir(r.svc.Dir); err == nil {
			for _, e := range ents {
				fmt.Fprintf(h, "svcdir %s\n", e.Name()) // also directories without a transaction file
			}
		}
		for _, name := range r.c.Names() {
			if fc := r.fcs[name]; fc != nil && r.c.Nodes[name].Running() {
				fmt.Fprintf(h, "client %s arm=%s view=%s\n", name, fc.Arm, fc.ViewString())
			}
		}
	}
	if r.idles > 0 {
		fmt.Fprintf(h, "idles %d\n", r.idles) // elapsed time is state too where a periodic task is under test
	}
	// The reference history matters for the oracles (which positions are known).
	return hex.EncodeToString(h.Sum(nil)[:16])
}


// attachBackup configures the node with the real backup client of the configured kind behind a FaultClient.
func (r *runner) attachBackup(cfg *lab.NodeConfig) {
	name := cfg.Name
	prev := cfg.Configure
	cfg.Configure = func(s *litefs.Store) {
		if prev != nil {
			prev(s)
		}
		var inner litefs.BackupClient
		switch r.cfg.BackupKind {
		case "file":
			fc := litefs.NewFileBackupClient(r.svc.Dir)
			if err := fc.Open(); err != nil {
				panic(err)
			}
			inner = fc
		case "lfsc", "lfsc-lag":
			bc := lfsc.NewBackupClient(s, url.URL{Scheme: "http", Host: "lfsc"})
			bc.HTTPClient = &http.Client{Transport: r.c.Net.Transport(name)}
			if err := bc.Open(); err != nil {
				panic(err)
			}
			inner = bc
		default:
			panic("bad backup kind " + r.cfg.BackupKind)
		}
		f := &lab.FaultClient{Inner: inner}
		f.OnAck = func(db string, hwm ltx.TXID) {
			// what the service acknowledged is what it answered, which may trail what it holds
			if t := uint64(hwm); t > r.acked[db] {
				r.acked[db] = t
			}
			r.viewOK[name+"/"+db] = true
		}
		f.OnPosMap = func() {
			for _, db := range []string{"a", "b"} {
				r.viewOK[name+"/"+db] = true
			}
		}
		f.OnFault = func(kind string) {
			for _, db := range []string{"a", "b"} {
				r.viewOK[name+"/"+db] = false
			}
		}
		f.OnFetch = func(db string) { r.restoreJudged(name, db) }
		r.fcs[name] = f
		s.BackupClient = f
		s.BackupDelay = 0 // the continuous monitor is off; sync events call Store.SyncBackup
		if r.cfg.BackupLoop {
			s.BackupDelay = time.Second
			s.BackupFullSyncInterval = time.Hour // the cached position map is never refreshed within a history
			if r.cfg.BackupFullSync > 0 {
				s.BackupFullSyncInterval = time.Duration(r.cfg.BackupFullSync) * time.Second
			}
		}
	}
}

// localImage reads the primary's logical image of db from its data directory.
func localImage(n *lab.Node, db string) (*oracle.Image, error) {
	d := n.DB(db)
	if d == nil || d.PageN() == 0 {
		return &oracle.Image{}, nil
	}
	return oracle.ReadLogicalImage(d.Path(), int(d.VerifPageSize()))
}

// syncBackup runs one Store.SyncBackup on the primary, optionally with one injected fault, and judges the step.
func (r *runner) syncBackup(fault string) bool {
	p := r.c.Primary()
	if p == nil || r.svc == nil {
		return true
	}
	fc := r.fcs[p.Cfg.Name]
	if fc == nil {
		r.res.Harness = "primary has no backup client"
		return false
	}
	type ps struct{ pri, svc ltx.Pos }
	before := map[string]ps{}
	names := map[string]bool{}
	for _, db := range p.Store.DBs() {
		names[db.Name()] = true
	}
	for _, n := range r.svc.DBs() {
		names[n] = true
	}
	for n := range names {
		var b ps
		if d := p.DB(n); d != nil {
			b.pri = d.Pos()
		}
		b.svc = r.svc.Chain(n).Pos()
		before[n] = b
	}
	fc.Arm, fc.Fired, fc.Calls = fault, "", nil
	err := p.Store.SyncBackup(context.Background())
	armedLeft := fc.Arm
	fc.Arm = ""
	lab.Settle(10 * time.Millisecond)
	{
		// outcome class for the evidence file: which client calls the sync made and how it ended
		kinds := map[string]int{}
		for _, c := range fc.Calls {
			kinds[strings.Fields(c)[0]]++
		}
		moved := false
		for n, b := range before {
			if d := p.DB(n); d != nil && d.Pos() != b.pri {
				moved = true
			}
		}
		r.res.Class = fmt.Sprintf("%s posmap=%d upload=%d fetch=%d err=%v fired=%q primary-moved=%v", r.cfg.BackupKind, kinds["PosMap"], kinds["WriteTx"], kinds["FetchSnapshot"], err != nil, fc.Fired, moved)
	}
	if fault != "" {
		if fc.Fired == "" {
			r.res.Info = "fault " + fault + " did not fire (no matching call)"
		}
		_ = armedLeft
		return true // only the invariants (chain, lineage, never overwritten, high-water mark) are judged after a faulty sync
	}
	if err != nil {
		r.viol("C14/sync-error", "Store.SyncBackup on an idle primary against a healthy service failed: %v\nclient calls: %v", err, fc.Calls)
		return false
	}
	for n, b := range before {
		var pri ltx.Pos
		d := p.DB(n)
		if d != nil {
			pri = d.Pos()
		}
		ch := r.svc.Chain(n)
		svc := ch.Pos()
		if pri.IsZero() && svc.IsZero() {
			continue
		}
		if pri != b.pri {
			r.restores++
		}
		if svc == pri {
			if r.hotJournal(p, n) {
				continue // uncommitted pages in the file until the journal is rolled back
			}
			img, ierr := localImage(p, n)
			simg := ch.Image()
			if ierr != nil || simg == nil {
				r.viol("C14/restore-unreadable", "%s: after sync at %s: local image error %v, service image %v", n, pri, ierr, simg != nil)
				continue
			}
			if simg.N() == 0 && img.N() == 0 {
				continue
			}
			if ok, diff := img.Equal(simg); !ok {
				r.viol("C14/restored-image-differs", "%s: service and primary are both at %s but the database restored from the service differs from the primary's: %s\nclient calls: %v", n, pri, diff, fc.Calls)
			}
			continue
		}
		if pri == b.pri && !b.svc.IsZero() && pri.TXID > svc.TXID && uint64(svc.TXID) >= uint64(b.svc.TXID)+litefs.MaxBackupLTXFileN {
			continue // a full batch of the compaction limit was uploaded; the next sync continues
		}
		r.viol("C14/sync-no-catch-up", "%s: before the sync the primary was at %s and the service at %s; after a successful sync of an idle primary the primary is at %s and the service at %s (want equal positions, or at least one batch of %d transactions uploaded)\nclient calls: %v",
			n, b.pri, b.svc, pri, svc, litefs.MaxBackupLTXFileN, fc.Calls)
	}
	return len(r.res.V) == 0
}

// svcEvent mutates the service behind the primary's back.
func (r *runner) svcEvent(kind, db string) bool {
	if kind == "stray" {
		// what a first upload that failed before its first byte leaves behind: a directory without a transaction file,
		// for a database no node has (any more)
		_ = os.MkdirAll(filepath.Join(r.svc.Dir, db), 0o777)
		return true
	}
	if kind == "newdb" {
		// the service holds a database this primary has never seen (the primary runs on a fresh volume, or another
		// cluster member uploaded it long ago): one snapshot file at TXID 1
		ps := r.cfg.PageSize
		img := &oracle.Image{PageSize: ps}
		img.Pages = append(img.Pages, pager.MakePage1(ps, 1, 2, false, 9), pager.MakePage(ps, 2, 0x770000))
		data := lab.EncodeLTX(ltx.Header{Version: 1, PageSize: uint32(ps), Commit: 2, MinTXID: 1, MaxTXID: 1, Timestamp: 3, NodeID: 0xA4EAD},
			map[uint32][]byte{1: img.Pages[0], 2: img.Pages[1]}, img.Checksum())
		if err := r.svc.Put(db, 1, 1, data); err != nil {
			r.res.Harness = err.Error()
			return false
		}
		r.record(db, ltx.Pos{TXID: 1, PostApplyChecksum: ltx.Checksum(img.Checksum())}, img)
		return true
	}
	for _, n := range r.c.Names() {
		r.viewOK[n+"/"+db] = false
	}
	ch := r.svc.Chain(db)
	if len(ch.Errors) > 0 {
		return true
	}
	switch kind {
	case "wipe":
		r.svc.Wipe(db)
	case "back":
		if len(ch.Files) >= 2 {
			r.svc.RemoveNewest(db)
		}
	case "ahead":
		img := ch.Image()
		if img == nil || img.N() < 2 {
			return true
		}
		pos := ch.Pos()
		next := img.Clone()
		next.Pages[1] = pager.MakePage(img.PageSize, 2, 0x500000+uint32(pos.TXID)<<8)
		data := lab.EncodeLTX(ltx.Header{Version: 1, PageSize: uint32(img.PageSize), Commit: next.N(), MinTXID: pos.TXID + 1, MaxTXID: pos.TXID + 1, Timestamp: 3, PreApplyChecksum: pos.PostApplyChecksum, NodeID: 0xA4EAD},
			map[uint32][]byte{2: next.Pages[1]}, next.Checksum())
		if err := r.svc.Put(db, pos.TXID+1, pos.TXID+1, data); err != nil {
			r.res.Harness = err.Error()
			return false
		}
		r.record(db, ltx.Pos{TXID: pos.TXID + 1, PostApplyChecksum: ltx.Checksum(next.Checksum())}, next)
	case "fork":
		// the newest file is replaced by one of the same range with other content
		k := len(ch.Files)
		if k == 0 || ch.Image().N() < 2 {
			return true
		}
		last := ch.Files[k-1]
		var data []byte
		var next *oracle.Image
		if k == 1 {
			next = ch.Image().Clone()
			next.Pages[1] = pager.MakePage(next.PageSize, 2, 0x600000+uint32(last.Header.MaxTXID)<<8)
			data = lab.SnapshotLTX(next, last.Header.MaxTXID)
		} else {
			prev := ch.Images[k-2]
			if prev.N() < 2 {
				return true
			}
			next = prev.Clone()
			next.Pages[1] = pager.MakePage(next.PageSize, 2, 0x600000+uint32(last.Header.MaxTXID)<<8)
			pp := ch.Files[k-2]
			data = lab.EncodeLTX(ltx.Header{Version: 1, PageSize: uint32(next.PageSize), Commit: next.N(), MinTXID: last.Header.MinTXID, MaxTXID: last.Header.MaxTXID, Timestamp: 3, PreApplyChecksum: pp.Trailer.PostApplyChecksum, NodeID: 0xF04C},
				map[uint32][]byte{2: next.Pages[1]}, next.Checksum())
		}
		if err := r.svc.Put(db, last.Header.MinTXID, last.Header.MaxTXID, data); err != nil {
			r.res.Harness = err.Error()
			return false
		}
		r.record(db, ltx.Pos{TXID: last.Header.MaxTXID, PostApplyChecksum: ltx.Checksum(next.Checksum())}, next)
	default:
		r.res.Harness = "bad svc event " + kind
		return false
	}
	return true
}

// checkBackup evaluates the service-side invariants of C14 after every event.
func (r *runner) checkBackup(ev string) {
	if r.svc == nil {
		return
	}
	k := evKind(ev)
	if r.cfg.BackupLoop && !strings.HasPrefix(ev, "svc:") && !strings.HasPrefix(ev, "arm:") {
		r.loopCaughtUp(ev)
	}
	now := r.svc.Digest()
	if !strings.HasPrefix(ev, "svc:") {
		for name, sum := range r.svcDigest {
			if got, ok := now[name]; !ok {
				r.viol("C14/service-file-removed/"+k, "the service's file %s disappeared during %q", name, ev)
			} else if got != sum {
				r.viol("C14/service-file-overwritten/"+k, "the service's file %s was overwritten during %q (%s -> %s)", name, ev, sum, got)
			}
		}
	}
	r.svcDigest = now
	for _, db := range r.svc.DBs() {
		ch := r.svc.Chain(db)
		for _, e := range ch.Errors {
			r.viol("C14/service-chain-broken/"+k, "service, database %q after %q: %s (files %v)", db, ev, e, r.svc.Files(db))
			break
		}
		if len(ch.Errors) > 0 {
			continue
		}
		for i, f := range ch.Files {
			key := posKey{uint64(f.Header.MaxTXID), uint64(f.Trailer.PostApplyChecksum)}
			want, ok := r.ref[db][key]
			if !ok {
				r.viol("C14/service-not-in-history/"+k, "service, database %q after %q: %s ends at (%d,%016x), a position no primary ever committed", db, ev, f.Name, key.TXID, key.Chk)
				break
			}
			if ok, diff := ch.Images[i].Equal(want); !ok && !(ch.Images[i].N() == 0 && want.N() == 0) {
				r.viol("C14/service-image-wrong/"+k, "service, database %q after %q: the image restored up to %s differs from the primary's image at that position: %s", db, ev, f.Name, diff)
				break
			}
		}
	}
	for _, name := range r.c.Names() {
		n := r.c.Nodes[name]
		if !n.Running() {
			continue
		}
		for _, db := range n.Store.DBs() {
			if h := uint64(db.HWM()); h > r.acked[db.Name()] {
				r.viol("C14/hwm-above-acknowledged/"+k, "%s/%s publishes high-water mark %d but the service has acknowledged at most %d (service now at %s)", name, db.Name(), h, r.acked[db.Name()], r.svc.Chain(db.Name()).Pos())
			}
		}
	}
}

// burst commits n small transactions on db.
func (r *runner) burst(db string, n int) bool {
	for i := 0; i < n; i++ {
		if !r.tx(db, "t1") {
			return false
		}
	}
	return true
}


// loopCaughtUp is the liveness oracle for the continuous sync loop: some time
// after the last event (retries run every second) the service is at the
// primary's position with an identical restored image, or it moved at least
// one compaction batch closer since the previous event.
func (r *runner) loopCaughtUp(ev string) {
	p := r.c.Primary()
	if p == nil {
		return
	}
	var why string
	wait := 20 * time.Second
	if r.cfg.BackupFullSync > 0 {
		wait += 2 * time.Duration(r.cfg.BackupFullSync) * time.Second
	}
	ok := lab.WaitFor(wait, func() bool {
		why = ""
		names := map[string]bool{}
		for _, db := range p.Store.DBs() {
			names[db.Name()] = true
		}
		for _, n := range r.svc.DBs() {
			names[n] = true
		}
		for n := range names {
			var pri ltx.Pos
			if d := p.DB(n); d != nil {
				pri = d.Pos()
			}
			svc := r.svc.Chain(n).Pos()
			if pri == svc {
				continue
			}
			if r.cfg.BackupFullSync == 0 && r.priPrevName == p.Cfg.Name && !strings.HasPrefix(ev, "restart:") && r.priPosPrev[n] == pri {
				continue // nothing changed on this primary: the loop only runs on a change (or on the full-sync interval, an hour here)
			}
			if prev, ok := r.svcPosPrev[n]; ok && !prev.IsZero() && pri.TXID > svc.TXID && uint64(svc.TXID) >= uint64(prev.TXID)+litefs.MaxBackupLTXFileN {
				continue
			}
			why = fmt.Sprintf("%s: primary %s at %s, service at %s", n, p.Cfg.Name, pri, svc)
			return false
		}
		return true
	})
	if !ok {
		fc := r.fcs[p.Cfg.Name]
		r.viol("C14/loop-no-catch-up/"+evKind(ev), "%s after %q the sync loop has not brought the service to the primary's position: %s\nclient calls: %v", wait, ev, why, tailS(fc.Calls, 12))
		return
	}
	lab.Settle(1500 * time.Millisecond) // let replicas follow a restore
	r.priPrevName = p.Cfg.Name
	r.priPosPrev = map[string]ltx.Pos{}
	for _, db := range p.Store.DBs() {
		r.priPosPrev[db.Name()] = db.Pos()
	}
	r.svcPosPrev = map[string]ltx.Pos{}
	for _, n := range r.svc.DBs() {
		ch := r.svc.Chain(n)
		r.svcPosPrev[n] = ch.Pos()
		d := p.DB(n)
		if d == nil || d.Pos() != ch.Pos() || ch.Image() == nil || r.hotJournal(p, n) {
			continue
		}
		img, err := localImage(p, n)
		if err != nil {
			r.viol("C14/restore-unreadable", "%s: %v", n, err)
			continue
		}
		if img.N() == 0 && ch.Image().N() == 0 {
			continue
		}
		if ok, diff := img.Equal(ch.Image()); !ok {
			r.viol("C14/restored-image-differs", "%s: service and primary are both at %s but the database restored from the service differs from the primary's: %s", n, d.Pos(), diff)
		}
	}
}


// restoreJudged is called when node is about to fetch the service's snapshot of db, i.e. to discard its own
// state for the service's. That is what the property asks for when the service is ahead, forked or cannot be
// extended from the node's log. It is wrong when the service's position is a point of the node's own log from
// which every later transaction file is still present AND the node had every reason to know it (all answers and
// acknowledgements reached it, nobody changed the service behind its back): then only the node's own
// bookkeeping of the service's position can have produced the mismatch, and committed transactions are thrown away.
func (r *runner) restoreJudged(node, db string) {
	n := r.c.Nodes[node]
	if n == nil || !n.Running() || !r.viewOK[node+"/"+db] {
		return
	}
	d := n.DB(db)
	if d == nil || d.Pos().IsZero() {
		return
	}
	svc := r.svc.Chain(db).Pos()
	local := d.Pos()
	if svc.IsZero() || svc.TXID >= local.TXID {
		return
	}
	// Is the service's position a boundary of the node's log, with every later file present?
	ch := oracle.CheckChain(d.LTXDir(), uint64(local.TXID), uint64(local.PostApplyChecksum))
	if len(ch.Errors) > 0 {
		return
	}
	onLog := false
	for _, f := range ch.Files {
		if f.Header.MaxTXID == svc.TXID && f.Trailer.PostApplyChecksum == svc.PostApplyChecksum {
			onLog = true
		}
		if f.Header.MinTXID == svc.TXID+1 && f.Header.PreApplyChecksum == svc.PostApplyChecksum {
			onLog = true
		}
	}
	if !onLog {
		return
	}
	r.viol("C14/restored-although-extendable", "%s discards its database %q at %s for the service's snapshot at %s although the service's position is a point of its own log with every later transaction file present, every upload so far was acknowledged to it and the service was not changed behind its back: the node's record of the service's position is wrong, and committed transactions are lost\nclient calls: %v",
		node, db, local, svc, tailS(r.fcs[node].Calls, 12))
}
