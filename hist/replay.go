package hist

import (
	"encoding/json"
	"fmt"
	"log"
	"os"
	"testing"
)

// Replay re-executes the history stored in a replay file (five times when it
// fails, to show it is deterministic) with LiteFS's logging enabled.
func Replay(t *testing.T, path string) {
	b, err := os.ReadFile(path)
	if err != nil {
		fmt.Println("replay:", err)
		os.Exit(2)
	}
	var f struct {
		Key    string `json:"key"`
		Replay struct {
			Cfg     Config   `json:"cfg"`
			History []string `json:"history"`
		} `json:"replay"`
	}
	if err := json.Unmarshal(b, &f); err != nil {
		fmt.Println("replay:", err)
		os.Exit(2)
	}
	log.SetOutput(os.Stderr)
	fails := 0
	for i := 0; i < 5; i++ {
		res := Run(t, f.Replay.Cfg, f.Replay.History)
		log.SetOutput(discard{})
		if len(res.V) > 0 {
			fails++
			if i == 0 {
				for _, v := range res.V {
					fmt.Printf("REPLAY VIOLATION key=%s\n%s\n", v.Key, v.What)
				}
			}
		} else if res.Harness != "" {
			fmt.Println("replay harness error:", res.Harness)
		}
	}
	fmt.Printf("replay of %v: violated in %d of 5 runs\n", f.Replay.History, fails)
	if fails > 0 {
		os.Exit(1)
	}
	os.Exit(0)
}

type discard struct{}

func (discard) Write(p []byte) (int, error) { return len(p), nil }
