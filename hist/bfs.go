package hist

import (
	"encoding/json"
	"fmt"
	"strings"
	"testing"
	"time"

	"verif/vlib"
)

type bfsCase struct {
	Cfg     Config   `json:"cfg"`
	History []string `json:"h"`
}

// ServeIfWorker turns the process into a pool worker.
func ServeIfWorker(t *testing.T) {
	if !vlib.IsWorker() {
		return
	}
	vlib.Serve(func(in json.RawMessage) any {
		var c bfsCase
		if err := json.Unmarshal(in, &c); err != nil {
			return Result{Harness: "bad case: " + err.Error()}
		}
		return Run(t, c.Cfg, c.History)
	})
}

// Stats of a breadth-first search.
type Stats struct {
	States      int
	Transitions int
	MaxDepth    int
	Exhausted   bool // frontier ran empty before the depth bound
	DepthDone   int  // deepest level fully expanded
	PerDepth    []int
	Classes     vlib.Distinct
	Samples     []any
	Capped      string
}

// Search explores all histories of cfg up to maxDepth events breadth-first,
// merging states with equal canonical keys. budget bounds wall time (0 = none);
// when it is hit the search stops after the current level and reports it.
func Search(run *vlib.Run, pool *vlib.Pool, cfg Config, maxDepth int, budget time.Duration, st *Stats) {
	start := time.Now()
	seen := map[string]bool{}
	type node struct {
		hist    []string
		enabled []string
	}
	// Root.
	var root node
	ok := true
	pool.Run([]any{bfsCase{Cfg: cfg}}, func(i int, out json.RawMessage, crash *vlib.Crash, flaky bool) {
		var res Result
		if crash != nil || json.Unmarshal(out, &res) != nil {
			run.HarnessError("root state failed: %+v %s", crash, out)
			ok = false
			return
		}
		fold(run, cfg, nil, &res)
		if res.Harness != "" {
			run.HarnessError("root: %s", res.Harness)
			ok = false
		}
		if len(res.V) > 0 {
			ok = false
		}
		seen[res.Key] = true
		root = node{nil, res.Enabled}
	})
	if !ok {
		return
	}
	st.States = 1
	frontier := []node{root}
	for depth := 1; depth <= maxDepth && len(frontier) > 0; depth++ {
		var cases []any
		var hists [][]string
		for _, n := range frontier {
			for _, ev := range n.enabled {
				h := append(append([]string{}, n.hist...), ev)
				cases = append(cases, bfsCase{Cfg: cfg, History: h})
				hists = append(hists, h)
			}
		}
		var next []node
		newStates := 0
		pool.Run(cases, func(i int, out json.RawMessage, crash *vlib.Crash, flaky bool) {
			st.Transitions++
			if flaky {
				run.HarnessError("history crashed once and passed on re-run (non-determinism): %v", hists[i])
			}
			if crash != nil {
				run.Violation("crash/"+crashKind(crash), fmt.Sprintf("worker died twice on history %v (timeout=%v)\n%s", hists[i], crash.Timeout, tail(crash.Output, 3000)),
					map[string]any{"cfg": cfg, "history": hists[i]})
				return
			}
			var res Result
			if err := json.Unmarshal(out, &res); err != nil {
				run.HarnessError("bad result: %v", err)
				return
			}
			fold(run, cfg, hists[i], &res)
			if res.Harness != "" {
				run.HarnessError("history %v: %s", hists[i], res.Harness)
				return
			}
			st.Classes.Add(classOf(hists[i], &res))
			if len(res.V) > 0 || res.Key == "" {
				return
			}
			if !seen[res.Key] {
				seen[res.Key] = true
				newStates++
				next = append(next, node{hists[i], res.Enabled})
				if len(st.Samples) < 6 && (i%97 == 0) {
					st.Samples = append(st.Samples, map[string]any{"history": hists[i], "state_key": res.Key, "enabled_next": len(res.Enabled)})
				}
			}
		})
		st.States += newStates
		st.PerDepth = append(st.PerDepth, newStates)
		st.MaxDepth = depth
		st.DepthDone = depth
		frontier = next
		if run.NViolations() > 0 {
			st.Capped = "stopped at first level with a violation"
			return
		}
		if budget > 0 && time.Since(start) > budget && depth < maxDepth && len(frontier) > 0 {
			st.Capped = fmt.Sprintf("time budget %s reached after completing depth %d (%d states on the frontier not expanded)", budget, depth, len(frontier))
			return
		}
	}
	if len(frontier) == 0 {
		st.Exhausted = true
	}
}

func classOf(h []string, res *Result) string {
	last := ""
	if len(h) > 0 {
		last = evKind(h[len(h)-1])
	}
	return last + "|" + res.Class
}

func fold(run *vlib.Run, cfg Config, h []string, res *Result) {
	for _, v := range res.V {
		run.Violation(v.Key, v.What, map[string]any{"cfg": cfg, "history": h})
	}
}

func crashKind(c *vlib.Crash) string {
	if c.Timeout {
		return "timeout"
	}
	for _, line := range strings.Split(c.Output, "\n") {
		if strings.Contains(line, "github.com/superfly/litefs") && strings.Contains(line, "(") {
			f := strings.Fields(line)
			if len(f) > 0 {
				s := f[0]
				if i := strings.LastIndex(s, "/"); i >= 0 {
					s = s[i+1:]
				}
				if j := strings.Index(s, "("); j > 0 && !strings.HasPrefix(s, "litefs.(") {
					s = s[:j]
				}
				return s
			}
		}
	}
	return "exit"
}

func tail(s string, n int) string {
	if len(s) > n {
		return s[len(s)-n:]
	}
	return s
}

// ServeIfWorker2 is ServeIfWorker with a first-chance handler for cases of another shape.
func ServeIfWorker2(t *testing.T, first func(in json.RawMessage) (any, bool)) {
	if !vlib.IsWorker() {
		return
	}
	vlib.Serve(func(in json.RawMessage) any {
		if out, ok := first(in); ok {
			return out
		}
		var c bfsCase
		if err := json.Unmarshal(in, &c); err != nil {
			return Result{Harness: "bad case: " + err.Error()}
		}
		return Run(t, c.Cfg, c.History)
	})
}
