// Package crashh is the crash-point enumeration used by the C05 check (all histories) and the C15 check (the
// histories in which a database is dropped).
//
// C05: any crash point recovers to exactly the position of the newest LTX file.
//
// Fault enumeration: a history is run once on real stores while the data
// directory of the node under test is copied (a) before every file operation
// of the SQLite client, (b) before every file-system mutation LiteFS issues
// through its OS interface and (c) before every internal page write and
// database truncate (verif hook). Each copy is the disk a process crash at
// that point leaves. Every image is then opened by a fresh Store and judged.
package crashh

import (
	"bytes"
	"context"
	"encoding/json"
	"fmt"
	"net/http"
	"os"
	"path/filepath"
	"runtime/debug"
	"strings"

	"github.com/superfly/ltx"
	"testing"
	"testing/synctest"
	"time"

	"github.com/superfly/litefs"
	lfshttp "github.com/superfly/litefs/http"
	"verif/lab"
	"verif/mon"
	"verif/oracle"
	"verif/pager"
	"verif/prog"
	"verif/vlib"
)

type Case struct {
	H        string `json:"h"` // history name
	PageSize int    `json:"ps"`
	Start    uint32 `json:"start"`
	Variant  int    `json:"variant"`
}

type Result struct {
	V       []prog.V       `json:"v,omitempty"`
	Images  int            `json:"images"`
	Classes map[string]int `json:"classes"`
	Harness string         `json:"harness,omitempty"`
	Sample  []string       `json:"sample,omitempty"`
}

type pos [2]uint64

type snap struct {
	label string
	dir   string
	acked bool // the client's commit operation had returned success before this point
}

type collector struct {
	live  string
	base  string
	snaps []snap
	acked bool
	on    bool
}

func (c *collector) snap(label string) {
	if !c.on {
		return
	}
	dir := filepath.Join(c.base, fmt.Sprintf("img%04d", len(c.snaps)))
	if err := lab.CopyDir(c.live, dir); err != nil {
		panic("copy: " + err.Error())
	}
	c.snaps = append(c.snaps, snap{label: label, dir: dir, acked: c.acked})
}

type env struct {
	c    Case
	res  *Result
	base string
	ref  map[pos]*oracle.Image
	svc  *lab.BackupSvc
}

func (e *env) viol(key, format string, args ...any) {
	for _, v := range e.res.V {
		if v.Key == key {
			return
		}
	}
	b, _ := json.Marshal(e.c)
	e.res.V = append(e.res.V, prog.V{Key: key, What: fmt.Sprintf(format, args...) + "\ncase: " + string(b)})
}

func posOf(db *litefs.DB) pos {
	if db == nil {
		return pos{}
	}
	p := db.Pos()
	return pos{uint64(p.TXID), uint64(p.PostApplyChecksum)}
}

// watch installs the OS wrapper (via node config) and the page-write hook for one store.
func (col *collector) wrapOS(inner litefs.OS) litefs.OS {
	return &lab.HookOS{Inner: inner, Before: func(op, call, name string) error {
		if strings.HasSuffix(name, "/shm") || strings.Contains(op, "SHM") {
			return nil // the SHM file is discarded at open; not part of the durable state
		}
		col.snap("litefs " + op + " " + call + " " + filepath.Base(name))
		return nil
	}}
}

func (col *collector) hookStore(s *litefs.Store) {
	litefs.VerifSetHook(func(site string, obj any, a int64, b bool) {
		db, ok := obj.(*litefs.DB)
		if !ok || db.Store() != s {
			return
		}
		switch site {
		case "db.writepage":
			col.snap(fmt.Sprintf("litefs page write %d", a))
		case "db.truncate":
			col.snap(fmt.Sprintf("litefs database truncate to %d pages", a))
		}
	})
}

// judge opens every image and checks the recovery oracle.
func (e *env) judge(col *collector, before, after pos, beforeImg, afterImg *oracle.Image, dbName string) {
	for i, s := range col.snaps {
		e.judge1(i, s, before, after, beforeImg, afterImg, dbName)
		lab.RemoveAll(s.dir)
	}
	e.res.Images += len(col.snaps)
	for i := 0; i < len(col.snaps) && len(e.res.Sample) < 12; i += len(col.snaps)/12 + 1 {
		e.res.Sample = append(e.res.Sample, col.snaps[i].label)
	}
}

func (e *env) judge1(i int, s snap, before, after pos, beforeImg, afterImg *oracle.Image, dbName string) {
	what := kindOf(s.label)
	n := lab.NewNode(lab.NodeConfig{Name: "X", ID: 0x7777, Dir: s.dir, Candidate: true, Leaser: litefs.NewStaticLeaser(true, "X", "http://X")})
	var err error
	func() {
		defer func() {
			if p := recover(); p != nil {
				st := debug.Stack()
				e.viol(prog.PanicKey(p, st), "crash before [%d: %s]: Store.Open panicked: %v\n%s", i, s.label, p, string(st))
				err = fmt.Errorf("panic")
			}
		}()
		err = n.Start()
	}()
	defer func() {
		defer func() { _ = recover() }()
		_ = n.Stop()
	}()
	if err != nil {
		e.viol("reopen-failed/"+e.c.H+"/"+what, "crash before [%d: %s]: restart on the same data directory failed: %v", i, s.label, err)
		return
	}
	lab.WaitFor(time.Second, n.Store.IsPrimary)
	db := n.DB(dbName)
	got := posOf(db)
	// Newest transaction file on disk.
	var newest pos
	if db != nil {
		ch := oracle.CheckChain(db.LTXDir(), 0, 0)
		if len(ch.Files) > 0 {
			f := ch.Files[len(ch.Files)-1]
			newest = pos{uint64(f.Header.MaxTXID), uint64(f.Trailer.PostApplyChecksum)}
		}
	}
	if got != newest {
		e.viol("position-not-newest-ltx/"+e.c.H+"/"+what, "crash before [%d: %s]: recovered position (%d,%016x) is not the position named by the newest LTX file (%d,%016x)", i, s.label, got[0], got[1], newest[0], newest[1])
	}
	var want *oracle.Image
	switch got {
	case before:
		want = beforeImg
	case after:
		want = afterImg
	default:
		e.viol("position-neither/"+e.c.H+"/"+what, "crash before [%d: %s]: recovered position (%d,%016x) is neither the position before (%d,%016x) nor after (%d,%016x) the interrupted operation", i, s.label, got[0], got[1], before[0], before[1], after[0], after[1])
		return
	}
	if s.acked && got != after {
		e.viol("acked-commit-lost/"+e.c.H+"/"+what, "crash before [%d: %s]: the commit had already returned success to the client but the restarted node is at the position before it", i, s.label)
	}
	if got == after {
		e.class("after")
	} else {
		e.class("before")
	}
	if db != nil {
		_, fs := mon.CheckDB(n, dbName, want)
		for _, f := range fs {
			e.viol("recovered-"+f.Prop+"-"+f.Key+"/"+e.c.H+"/"+what, "crash before [%d: %s]: after restart: %s", i, s.label, f.What)
		}
		if _, err := os.Stat(db.JournalPath()); err == nil {
			e.viol("hot-journal-left/"+e.c.H+"/"+what, "crash before [%d: %s]: a journal is left after restart", i, s.label)
		}
		if b, err := os.ReadFile(db.WALPath()); err == nil && len(b) > 0 {
			e.viol("wal-left/"+e.c.H+"/"+what, "crash before [%d: %s]: %d bytes of WAL are left after restart", i, s.label, len(b))
		}
	} else if want.N() > 0 {
		e.viol("db-missing/"+e.c.H+"/"+what, "crash before [%d: %s]: database unknown after restart", i, s.label)
		return
	}
	if len(e.res.V) > 0 {
		return
	}
	// The restarted node can commit again (and the commit is captured).
	if want.N() > 0 {
		conn := pager.NewConn(n.M, dbName, 900, want.PageSize)
		var committed bool
		var ferr error
		var step string
		var intended *oracle.Image
		func() {
			defer func() {
				if p := recover(); p != nil {
					ferr = fmt.Errorf("panic: %v", p)
				}
			}()
			if want.Pages[0][18] == 2 {
				r := conn.RunWTx(pager.WTx{Frames: []uint32{1, 2}, Outcome: "commit"}, want)
				committed, ferr, step, intended = r.Committed, r.Err, r.ErrStep, r.Intended
			} else {
				r := conn.RunRTx(pager.RTx{Mods: []uint32{2}, Final: "DELETE", Outcome: "commit"}, want)
				committed, ferr, step, intended = r.Committed, r.Err, r.ErrStep, r.Intended
			}
			conn.Close()
		}()
		if ferr != nil || !committed {
			e.viol("followup-commit-failed/"+e.c.H+"/"+what, "crash before [%d: %s]: after restart a new transaction failed at %q: %v", i, s.label, step, ferr)
			return
		}
		np := posOf(n.DB(dbName))
		if np[0] != got[0]+1 {
			e.viol("followup-txid/"+e.c.H+"/"+what, "crash before [%d: %s]: follow-up commit moved TXID %d -> %d", i, s.label, got[0], np[0])
		}
		_, fs := mon.CheckDB(n, dbName, intended)
		for _, f := range fs {
			e.viol("followup-"+f.Prop+"-"+f.Key+"/"+e.c.H+"/"+what, "crash before [%d: %s]: after follow-up commit: %s", i, s.label, f.What)
		}
	}
	if codes := n.ExitCodes(); len(codes) > 0 {
		e.viol("exit-after-restart/"+e.c.H+"/"+what, "crash before [%d: %s]: Store.Exit(%v) after restart", i, s.label, codes)
	}
}

func (e *env) class(s string) {
	if e.res.Classes == nil {
		e.res.Classes = map[string]int{}
	}
	e.res.Classes[e.c.H+"/"+s]++
}

func kindOf(label string) string {
	f := strings.Fields(label)
	if len(f) == 0 {
		return "?"
	}
	switch f[0] {
	case "client":
		if len(f) > 3 {
			f = f[:3]
		}
	case "litefs":
		if len(f) > 4 {
			f = f[:4]
		}
	}
	out := strings.Join(f, "_")
	var sb strings.Builder
	for _, r := range out {
		if r >= '0' && r <= '9' {
			continue
		}
		sb.WriteRune(r)
	}
	return sb.String()
}

// ---------------------------------------------------------------------------
// Histories.

// single runs a history on one primary node; op performs the operation under test.
func (e *env) single(t *testing.T, wal bool, prep func(n *lab.Node, a *pager.Conn, img *oracle.Image) *oracle.Image,
	op func(n *lab.Node, col *collector, a *pager.Conn, img *oracle.Image) (*oracle.Image, error)) {
	live := filepath.Join(e.base, "live")
	col := &collector{live: live, base: e.base}
	ncfg := lab.NodeConfig{WrapOS: col.wrapOS}
	if strings.HasPrefix(e.c.H, "H15") {
		e.svc = lab.NewBackupSvc(filepath.Join(e.base, "svc"))
		bc := litefs.NewFileBackupClient(e.svc.Dir)
		if err := bc.Open(); err != nil {
			e.res.Harness = err.Error()
			return
		}
		ncfg.BackupClient = &lab.FaultClient{Inner: bc}
	}
	n, err := lab.StartPrimary(live, ncfg)
	if err != nil {
		e.res.Harness = err.Error()
		return
	}
	stopped := false
	defer func() {
		litefs.VerifSetHook(nil)
		if !stopped {
			_ = n.Stop()
		}
	}()
	col.hookStore(n.Store)
	a := pager.NewConn(n.M, "db", 1, e.c.PageSize)
	var img *oracle.Image
	if e.c.Start > 0 {
		r := a.RunRTx(pager.RTx{Create: true, NewSize: e.c.Start, Final: "DELETE", Outcome: "commit"}, nil)
		if r.Err == nil && r.Committed {
			r = a.RunRTx(pager.RTx{Mods: []uint32{2}, Final: "DELETE", Outcome: "commit", ToWAL: wal}, r.Intended)
		}
		if r.Err != nil || !r.Committed {
			e.res.Harness = fmt.Sprintf("setup failed: %v at %s", r.Err, r.ErrStep)
			return
		}
		img = r.Intended
		if wal {
			a.Close()
		}
	} else {
		img = &oracle.Image{PageSize: e.c.PageSize}
	}
	if prep != nil {
		img = prep(n, a, img)
		if img == nil {
			return
		}
	}
	before := posOf(n.DB("db"))
	beforeImg := img
	// The client's commit has returned success once the operation that finalises it has returned:
	// journal unlink / truncate / zeroed header in rollback mode, the WRITE-lock release in WAL mode.
	a.Acked = false
	a.Before = func(step int, desc string) {
		if a.Acked {
			col.acked = true
		}
		col.snap("client " + desc)
	}
	col.on = true
	afterImg, err := op(n, col, a, img)
	if a.Acked {
		col.acked = true
	}
	col.snap("end of operation")
	col.on = false
	a.Before = nil
	if err != nil {
		e.res.Harness = "operation under test failed on the live node: " + err.Error()
		return
	}
	after := posOf(n.DB("db"))
	a.Close()
	_ = n.Stop()
	stopped = true
	litefs.VerifSetHook(nil)
	e.judge(col, before, after, beforeImg, afterImg, "db")
}

func rtxOp(tx pager.RTx) func(n *lab.Node, col *collector, a *pager.Conn, img *oracle.Image) (*oracle.Image, error) {
	return func(n *lab.Node, col *collector, a *pager.Conn, img *oracle.Image) (*oracle.Image, error) {
		// The commit "returns success" when the finalising journal operation returns.
		r := a.RunRTx(tx, img)
		if r.Err != nil || !r.Committed {
			return nil, fmt.Errorf("%v at %s", r.Err, r.ErrStep)
		}
		return r.Intended, nil
	}
}

func (e *env) replica(t *testing.T, wal bool, ahead bool, op func(c *lab.Cluster, P *lab.Node, a *pager.Conn, img *oracle.Image) (*oracle.Image, error), snapshotJoin bool) {
	c := lab.NewCluster(10 * time.Second)
	defer c.Close()
	col := &collector{base: e.base}
	c.AddNode("P", true, nil)
	c.AddNode("R1", false, func(cfg *lab.NodeConfig) { cfg.WrapOS = col.wrapOS })
	col.live = c.Nodes["R1"].Cfg.Dir
	if err := c.Start("P"); err != nil || c.WaitPrimary(5*time.Second) == nil {
		e.res.Harness = "cluster start failed"
		return
	}
	P, R := c.Nodes["P"], c.Nodes["R1"]
	defer litefs.VerifSetHook(nil)
	a := pager.NewConn(P.M, "db", 1, e.c.PageSize)
	defer a.Close()
	r := a.RunRTx(pager.RTx{Create: true, NewSize: e.c.Start, Final: "DELETE", Outcome: "commit"}, nil)
	if r.Err == nil && r.Committed {
		lab.Settle(300 * time.Millisecond)
		r = a.RunRTx(pager.RTx{Mods: []uint32{2}, Final: "DELETE", Outcome: "commit", ToWAL: wal}, r.Intended)
	}
	if r.Err != nil || !r.Committed {
		e.res.Harness = fmt.Sprintf("setup failed: %v at %s", r.Err, r.ErrStep)
		return
	}
	if wal {
		a.Close()
	}
	img := r.Intended
	if !snapshotJoin {
		if err := c.Start("R1"); err != nil {
			e.res.Harness = "start R1: " + err.Error()
			return
		}
		if ok, why := c.WaitConverged(20*time.Second, nil); !ok {
			e.res.Harness = "setup did not converge: " + why
			return
		}
	}
	var before pos
	if !snapshotJoin {
		before = posOf(R.DB("db"))
	}
	beforeImg := img
	if snapshotJoin {
		beforeImg = &oracle.Image{PageSize: e.c.PageSize}
	}
	col.on = true
	col.hookStoreLazy(func() *litefs.Store { return R.Store })
	afterImg, err := op(c, P, a, img)
	if err != nil {
		e.res.Harness = "operation failed: " + err.Error()
		return
	}
	if snapshotJoin {
		if err := c.Start("R1"); err != nil {
			e.res.Harness = "start R1: " + err.Error()
			return
		}
	}
	ok, why := c.WaitConverged(30*time.Second, nil)
	col.snap("end of operation")
	col.on = false
	litefs.VerifSetHook(nil)
	if !ok {
		e.viol("C01/no-convergence/"+e.c.H, "replica did not converge during the history: %s", why)
		return
	}
	after := posOf(R.DB("db"))
	_ = R.Stop()
	e.judge(col, before, after, beforeImg, afterImg, "db")
}

// replicaFork: a former primary that committed one transaction of its own at the TXID the new primary also used (a fork
// of equal length) rejoins and is sent a snapshot ending at the very TXID its own log ends with; crash at every point.
func (e *env) replicaFork(t *testing.T, wal bool, extra int) {
	c := lab.NewCluster(10 * time.Second)
	defer c.Close()
	col := &collector{base: e.base}
	c.Defaults = func(cfg *lab.NodeConfig) { cfg.DemoteDelay = 3 * time.Second }
	c.AddNode("P", true, nil)
	c.AddNode("R1", true, func(cfg *lab.NodeConfig) { cfg.WrapOS = col.wrapOS })
	col.live = c.Nodes["R1"].Cfg.Dir
	if err := c.Start("P"); err != nil || c.WaitPrimary(5*time.Second) == nil {
		e.res.Harness = "cluster start failed"
		return
	}
	P, R := c.Nodes["P"], c.Nodes["R1"]
	defer litefs.VerifSetHook(nil)
	a := pager.NewConn(P.M, "db", 1, e.c.PageSize)
	r := a.RunRTx(pager.RTx{Create: true, NewSize: e.c.Start, Final: "DELETE", Outcome: "commit"}, nil)
	if r.Err == nil && r.Committed {
		lab.Settle(300 * time.Millisecond)
		r = a.RunRTx(pager.RTx{Mods: []uint32{2}, Final: "DELETE", Outcome: "commit", ToWAL: wal}, r.Intended)
	}
	a.Close()
	if r.Err != nil || !r.Committed {
		e.res.Harness = fmt.Sprintf("setup failed: %v at %s", r.Err, r.ErrStep)
		return
	}
	base := r.Intended
	if err := c.Start("R1"); err != nil {
		e.res.Harness = "start R1: " + err.Error()
		return
	}
	if ok, why := c.WaitConverged(20*time.Second, nil); !ok {
		e.res.Harness = "setup did not converge: " + why
		return
	}
	commit := func(n *lab.Node, owner uint64, pg uint32) (*oracle.Image, error) {
		cn := pager.NewConn(n.M, "db", owner, e.c.PageSize)
		defer cn.Close()
		if wal {
			w := cn.RunWTx(pager.WTx{Frames: []uint32{1, pg}, Outcome: "commit"}, base)
			if w.Err != nil || !w.Committed {
				return nil, fmt.Errorf("%v at %s", w.Err, w.ErrStep)
			}
			return w.Intended, nil
		}
		x := cn.RunRTx(pager.RTx{Mods: []uint32{pg}, Final: "DELETE", Outcome: "commit"}, base)
		if x.Err != nil || !x.Committed {
			return nil, fmt.Errorf("%v at %s", x.Err, x.ErrStep)
		}
		return x.Intended, nil
	}
	c.Net.Block("P", "R1")
	imgA, err := commit(P, 11, 2)
	if err != nil {
		e.res.Harness = "P's transaction: " + err.Error()
		return
	}
	P.Store.Demote()
	if !lab.WaitFor(40*time.Second, R.Store.IsPrimary) {
		e.res.Harness = "R1 did not take over"
		return
	}
	imgB, err := commit(R, 12, 3)
	if err != nil {
		e.res.Harness = "R1's transaction: " + err.Error()
		return
	}
	for i := 0; i < extra; i++ {
		// the fork is one (two) transaction(s) longer than the new primary's history: the snapshot rewinds the node
		base = imgB
		if imgB, err = commit(R, 13+uint64(i), 2+uint32(i)); err != nil {
			e.res.Harness = "R1's further transaction: " + err.Error()
			return
		}
	}
	R.Store.Demote()
	if !lab.WaitFor(40*time.Second, func() bool { return P.Store.IsPrimary() && !R.Store.IsPrimary() }) {
		e.res.Harness = "P did not become primary again"
		return
	}
	before := posOf(R.DB("db"))
	if pp := posOf(P.DB("db")); before[0] != pp[0]+uint64(extra) || before == pp {
		e.res.Harness = fmt.Sprintf("no fork of the wanted length: R1 %v P %v", before, pp)
		return
	}
	col.on = true
	col.hookStoreLazy(func() *litefs.Store { return R.Store })
	c.Net.Unblock("P", "R1")
	ok, why := c.WaitConverged(40*time.Second, nil)
	col.snap("end of operation")
	col.on = false
	litefs.VerifSetHook(nil)
	if !ok {
		e.viol("C01/no-convergence/"+e.c.H, "the forked node did not converge: %s", why)
		return
	}
	after := posOf(R.DB("db"))
	_ = R.Stop()
	e.judge(col, before, after, imgB, imgA, "db")
}

func (col *collector) hookStoreLazy(get func() *litefs.Store) {
	litefs.VerifSetHook(func(site string, obj any, a int64, b bool) {
		db, ok := obj.(*litefs.DB)
		if !ok || db.Store() != get() {
			return
		}
		switch site {
		case "db.writepage":
			col.snap(fmt.Sprintf("litefs page write %d", a))
		case "db.truncate":
			col.snap(fmt.Sprintf("litefs database truncate to %d pages", a))
		}
	})
}

func Run1(t *testing.T, c Case) (res Result) {
	e := &env{c: c, res: &res}
	synctest.Test(t, func(t *testing.T) {
		e.base = lab.ScratchDir("c05")
		defer lab.RemoveAll(e.base)
		defer func() {
			if p := recover(); p != nil {
				res.Harness = fmt.Sprintf("panic in history: %v\n%s", p, debug.Stack())
			}
			litefs.VerifSetHook(nil)
		}()
		s := c.Start
		fins := []string{"DELETE", "TRUNCATE", "PERSIST"}
		fin := fins[c.Variant%3]
		switch c.H {
		case "H1-first-tx":
			e.c.Start = 0
			e.single(t, false, nil, rtxOp(pager.RTx{Create: true, NewSize: 3, Final: fin, Outcome: "commit", SyncMode: (c.Variant / 3) * 2}))
		case "H2-grow":
			e.single(t, false, nil, rtxOp(pager.RTx{Mods: []uint32{2}, NewSize: s + 2, Final: fin, Outcome: "commit"}))
		case "H3-shrink":
			ns := s - 1
			if s > 256 {
				ns = 200
			}
			e.single(t, false, nil, rtxOp(pager.RTx{Mods: []uint32{2}, NewSize: ns, Final: fin, Outcome: "commit"}))
		case "H4-multi-segment":
			e.single(t, false, nil, rtxOp(pager.RTx{Mods: []uint32{2, 3, s}, SpillAfter: []int{1, 2}, NewSize: s + 1, Final: fin, Outcome: "commit"}))
		case "H4b-segment-ends-on-sector-boundary":
			// the first journal segment holds exactly 64 records (a multiple of the sector size for every page size), the
			// second one the rest: the reader has to find the second header right at the end of the first segment
			e.single(t, false, func(n *lab.Node, a *pager.Conn, img *oracle.Image) *oracle.Image {
				r := a.RunRTx(pager.RTx{NewSize: 70, Final: "DELETE", Outcome: "commit"}, img)
				if r.Err != nil || !r.Committed {
					e.res.Harness = fmt.Sprintf("prep grow: %v at %s", r.Err, r.ErrStep)
					return nil
				}
				// one more small transaction: start-up re-applies the newest transaction file, which must not happen to
				// contain the pages this history is about
				r = a.RunRTx(pager.RTx{Mods: []uint32{2}, Final: "DELETE", Outcome: "commit"}, r.Intended)
				if r.Err != nil || !r.Committed {
					e.res.Harness = fmt.Sprintf("prep tx: %v at %s", r.Err, r.ErrStep)
					return nil
				}
				return r.Intended
			}, func(n *lab.Node, col *collector, a *pager.Conn, img *oracle.Image) (*oracle.Image, error) {
				var mods []uint32
				for p := uint32(2); p <= 67; p++ {
					mods = append(mods, p)
				}
				// page 1 is journalled last by the simulator: 63 pages + ... keep 64 records in the first segment
				return rtxOp(pager.RTx{Mods: mods, SpillAfter: []int{64}, Final: fin, Outcome: "commit"})(n, col, a, img)
			})
		case "H5-rollback-after-spill":
			e.single(t, false, nil, func(n *lab.Node, col *collector, a *pager.Conn, img *oracle.Image) (*oracle.Image, error) {
				r := a.RunRTx(pager.RTx{Mods: []uint32{2, s}, SpillAfter: []int{1}, Final: fin, Outcome: "rollback"}, img)
				if r.Err != nil {
					return nil, fmt.Errorf("%v at %s", r.Err, r.ErrStep)
				}
				return img, nil
			})
		case "H6-wal-fresh":
			e.single(t, true, nil, func(n *lab.Node, col *collector, a *pager.Conn, img *oracle.Image) (*oracle.Image, error) {
				r := a.RunWTx(pager.WTx{Frames: []uint32{1, 3, s + 1}, Split: c.Variant % 3, Outcome: "commit"}, img)
				if r.Err != nil || !r.Committed {
					return nil, fmt.Errorf("%v at %s", r.Err, r.ErrStep)
				}
				return r.Intended, nil
			})
		case "H7-wal-after-restart", "H7b-wal-second-tx":
			e.single(t, true, func(n *lab.Node, a *pager.Conn, img *oracle.Image) *oracle.Image {
				r := a.RunWTx(pager.WTx{Frames: []uint32{1, 2, 2, s}, Outcome: "commit"}, img)
				if r.Err != nil || !r.Committed {
					e.res.Harness = "prep wtx failed"
					return nil
				}
				if c.H == "H7-wal-after-restart" {
					b := pager.NewConn(n.M, "db", 3, e.c.PageSize)
					if err := b.Checkpoint("RESTART", 0); err != nil {
						e.res.Harness = "prep ckpt failed: " + err.Error()
						return nil
					}
					b.Close()
				}
				return r.Intended
			}, func(n *lab.Node, col *collector, a *pager.Conn, img *oracle.Image) (*oracle.Image, error) {
				ns := uint32(0)
				if c.Variant == 1 {
					ns = s - 1
				}
				r := a.RunWTx(pager.WTx{Frames: []uint32{1, 3}, NewSize: ns, Outcome: "commit"}, img)
				if r.Err != nil || !r.Committed {
					return nil, fmt.Errorf("%v at %s", r.Err, r.ErrStep)
				}
				return r.Intended, nil
			})
		case "H7c-wal-unwritten-tail":
			// An earlier WAL transaction grew the database and its last page never got a frame (a free-list leaf
			// allocated and freed again inside the transaction): the page exists only as the end of the file that the
			// next checkpoint - SQLite's or the one recovery performs - has to produce. Variant 1: SQLite-visible
			// transactions only rewrite an old page afterwards, so the newest LTX file does not carry the tail.
			e.single(t, true, func(n *lab.Node, a *pager.Conn, img *oracle.Image) *oracle.Image {
				r := a.RunWTx(pager.WTx{Frames: []uint32{1, s + 1}, NewSize: s + 2, FreeLeaves: true, Outcome: "commit"}, img)
				if r.Err != nil || !r.Committed {
					e.res.Harness = fmt.Sprintf("prep wtx failed: %v at %s", r.Err, r.ErrStep)
					return nil
				}
				if c.Variant == 1 {
					r = a.RunWTx(pager.WTx{Frames: []uint32{2}, Outcome: "commit"}, r.Intended)
					if r.Err != nil || !r.Committed {
						e.res.Harness = fmt.Sprintf("prep wtx 2 failed: %v at %s", r.Err, r.ErrStep)
						return nil
					}
				}
				return r.Intended
			}, func(n *lab.Node, col *collector, a *pager.Conn, img *oracle.Image) (*oracle.Image, error) {
				r := a.RunWTx(pager.WTx{Frames: []uint32{1, 2}, Outcome: "commit"}, img)
				if r.Err != nil || !r.Committed {
					return nil, fmt.Errorf("%v at %s", r.Err, r.ErrStep)
				}
				return r.Intended, nil
			})
		case "H8-sqlite-checkpoint":
			modes := []string{"PASSIVE", "FULL", "RESTART", "TRUNCATE"}
			e.single(t, true, func(n *lab.Node, a *pager.Conn, img *oracle.Image) *oracle.Image {
				r := a.RunWTx(pager.WTx{Frames: []uint32{1, 2, s + 1}, Outcome: "commit"}, img)
				if r.Err != nil || !r.Committed {
					e.res.Harness = "prep wtx failed"
					return nil
				}
				r2 := a.RunWTx(pager.WTx{Frames: []uint32{1}, NewSize: s, Outcome: "commit"}, r.Intended)
				if r2.Err != nil || !r2.Committed {
					e.res.Harness = "prep wtx2 failed"
					return nil
				}
				return r2.Intended
			}, func(n *lab.Node, col *collector, a *pager.Conn, img *oracle.Image) (*oracle.Image, error) {
				b := pager.NewConn(n.M, "db", 3, e.c.PageSize)
				b.Before = func(step int, desc string) { col.snap("client " + desc) }
				err := b.Checkpoint(modes[c.Variant%4], 0)
				b.Before = nil
				b.Close()
				return img, err
			})
		case "H8b-wal-tx-after-checkpoint":
			// Three WAL transactions (the newest LTX records a large WAL offset), a RESTART or TRUNCATE checkpoint, then a
			// small transaction that starts the next WAL generation (new salts) and dies at every point.
			e.single(t, true, func(n *lab.Node, a *pager.Conn, img *oracle.Image) *oracle.Image {
				cur := img
				for i := 0; i < 3; i++ {
					r := a.RunWTx(pager.WTx{Frames: []uint32{1, 2, 3}, Outcome: "commit"}, cur)
					if r.Err != nil || !r.Committed {
						e.res.Harness = "prep wtx failed"
						return nil
					}
					cur = r.Intended
				}
				if err := a.Checkpoint([]string{"TRUNCATE", "RESTART"}[c.Variant%2], 0); err != nil {
					e.res.Harness = "prep checkpoint failed: " + err.Error()
					return nil
				}
				return cur
			}, func(n *lab.Node, col *collector, a *pager.Conn, img *oracle.Image) (*oracle.Image, error) {
				r := a.RunWTx(pager.WTx{Frames: []uint32{2}, Outcome: "commit"}, img)
				if r.Err != nil || !r.Committed {
					return nil, fmt.Errorf("%v at %s", r.Err, r.ErrStep)
				}
				return r.Intended, nil
			})
		case "H9-litefs-recover":
			e.single(t, c.Variant%2 == 1, func(n *lab.Node, a *pager.Conn, img *oracle.Image) *oracle.Image {
				if c.Variant%2 == 1 {
					r := a.RunWTx(pager.WTx{Frames: []uint32{1, 2, s + 1}, Outcome: "commit"}, img)
					if r.Err != nil || !r.Committed {
						e.res.Harness = "prep wtx failed"
						return nil
					}
					a.Close()
					return r.Intended
				}
				// a hot journal left by a dead client: run a transaction up to just before finalisation
				func() {
					defer func() { _ = recover() }()
					a.Before = func(step int, desc string) {
						if strings.HasPrefix(desc, "db fsync") {
							panic(pager.Abort{})
						}
					}
					a.RunRTx(pager.RTx{Mods: []uint32{2, s}, NewSize: s + 1, Final: "DELETE", Outcome: "commit"}, img)
				}()
				a.Before = nil
				a.Close()
				return img
			}, func(n *lab.Node, col *collector, a *pager.Conn, img *oracle.Image) (*oracle.Image, error) {
				return img, n.Store.Recover(context.Background())
			})
		case "H16-leave-wal":
			// PRAGMA journal_mode=DELETE|TRUNCATE|PERSIST on a WAL database: the log is checkpointed and unlinked, then
			// page 1 is rewritten through a rollback journal. Variant: the finalisation mode of that journal.
			e.single(t, true, func(n *lab.Node, a *pager.Conn, img *oracle.Image) *oracle.Image {
				w := a.RunWTx(pager.WTx{Frames: []uint32{1, 2, s + 1}, Outcome: "commit"}, img)
				if w.Err != nil || !w.Committed {
					e.res.Harness = fmt.Sprintf("prep wtx: %v at %s", w.Err, w.ErrStep)
					return nil
				}
				return w.Intended
			}, func(n *lab.Node, col *collector, a *pager.Conn, img *oracle.Image) (*oracle.Image, error) {
				if err := a.LeaveWAL(); err != nil {
					return nil, err
				}
				return rtxOp(pager.RTx{FromWAL: true, Final: fin, Outcome: "commit"})(n, col, a, img)
			})
		case "H12-drop":
			// Variant/2 selects what lies next to the database file when it is dropped: 0 nothing more than the set-up
			// leaves; 1 a finalised journal kept by PERSIST mode / a log emptied by a TRUNCATE checkpoint; 2 a journal
			// emptied by TRUNCATE mode / a log that has been checkpointed but still holds its frames.
			wal := c.Variant%2 == 1
			var prep func(n *lab.Node, a *pager.Conn, img *oracle.Image) *oracle.Image
			if k := c.Variant / 2; k > 0 {
				prep = func(n *lab.Node, a *pager.Conn, img *oracle.Image) *oracle.Image {
					if wal {
						w := a.RunWTx(pager.WTx{Frames: []uint32{1, 2}, Outcome: "commit"}, img)
						if w.Err != nil || !w.Committed {
							e.res.Harness = fmt.Sprintf("prep wtx: %v at %s", w.Err, w.ErrStep)
							return nil
						}
						mode := "TRUNCATE"
						if k == 2 {
							mode = "PASSIVE"
						}
						if err := a.Checkpoint(mode, 0); err != nil {
							e.res.Harness = "prep checkpoint: " + err.Error()
							return nil
						}
						a.Close()
						return w.Intended
					}
					fin := "PERSIST"
					if k == 2 {
						fin = "TRUNCATE"
					}
					r := a.RunRTx(pager.RTx{Mods: []uint32{2}, Final: fin, Outcome: "commit"}, img)
					if r.Err != nil || !r.Committed {
						e.res.Harness = fmt.Sprintf("prep rtx: %v at %s", r.Err, r.ErrStep)
						return nil
					}
					return r.Intended
				}
			}
			e.single(t, wal, prep, func(n *lab.Node, col *collector, a *pager.Conn, img *oracle.Image) (*oracle.Image, error) {
				a.Close()
				err := n.M.Remove("db")
				return &oracle.Image{PageSize: e.c.PageSize}, err
			})
		case "H12c-recreate-after-drop":
			// The database was dropped (the log ends with the tombstone); the application creates it again and LiteFS dies
			// inside that first transaction. Variant 1: the transaction is larger than the page cache, so pages other
			// than page 1 (which stays pinned) reach the still empty file first.
			e.single(t, false, func(n *lab.Node, a *pager.Conn, img *oracle.Image) *oracle.Image {
				a.Close()
				if err := n.M.Remove("db"); err != nil {
					e.res.Harness = "prep drop: " + err.Error()
					return nil
				}
				return &oracle.Image{PageSize: e.c.PageSize}
			}, func(n *lab.Node, col *collector, a *pager.Conn, img *oracle.Image) (*oracle.Image, error) {
				b := pager.NewConn(n.M, "db", 5, e.c.PageSize)
				defer b.Close()
				tx := pager.RTx{Create: true, NewSize: 3, Final: "DELETE", Outcome: "commit"}
				if c.Variant == 1 {
					tx = pager.RTx{Create: true, NewSize: 5, SpillNew: 2, Final: "DELETE", Outcome: "commit"}
				}
				r := b.RunRTx(tx, nil)
				if r.Err != nil || !r.Committed {
					return nil, fmt.Errorf("%v at %s", r.Err, r.ErrStep)
				}
				return r.Intended, nil
			})
		case "H14-import":
			e.single(t, c.Variant%2 == 1, nil, func(n *lab.Node, col *collector, a *pager.Conn, img *oracle.Image) (*oracle.Image, error) {
				a.Close()
				ps := e.c.PageSize
				im := &oracle.Image{PageSize: ps}
				im.Pages = append(im.Pages, pager.MakePage1(ps, 0x5000, 4, c.Variant >= 2, 9))
				for pg := uint32(2); pg <= 4; pg++ {
					im.Pages = append(im.Pages, pager.MakePage(ps, pg, 0x5000))
				}
				err := n.DB("db").Import(n.Store.PrimaryCtx(context.Background()), bytes.NewReader(im.Bytes()))
				want := im.Clone()
				for _, off := range []int{24, 25, 26, 27, 40, 41, 42, 43} {
					want.Pages[0][off] = 0
				}
				return want, err
			})
		case "H15-restore-from-backup":
			// The backup service is one transaction ahead of the primary: a sync makes the primary adopt the service's snapshot over its own database and log.
			var want *oracle.Image
			e.single(t, c.Variant%2 == 1, func(n *lab.Node, a *pager.Conn, img *oracle.Image) *oracle.Image {
				if err := n.Store.SyncBackup(context.Background()); err != nil {
					e.res.Harness = "first sync: " + err.Error()
					return nil
				}
				ch := e.svc.Chain("db")
				if len(ch.Errors) > 0 || ch.Pos() != n.DB("db").Pos() {
					e.res.Harness = fmt.Sprintf("service not at the primary's position after the first sync: %v %s", ch.Errors, ch.Pos())
					return nil
				}
				pos := ch.Pos()
				want = ch.Image().Clone()
				want.Pages[1] = pager.MakePage(want.PageSize, 2, 0x777)
				data := lab.EncodeLTX(ltx.Header{Version: 1, PageSize: uint32(want.PageSize), Commit: want.N(), MinTXID: pos.TXID + 1, MaxTXID: pos.TXID + 1, Timestamp: 3, PreApplyChecksum: pos.PostApplyChecksum, NodeID: 0xA4EAD},
					map[uint32][]byte{2: want.Pages[1]}, want.Checksum())
				if err := e.svc.Put("db", pos.TXID+1, pos.TXID+1, data); err != nil {
					e.res.Harness = err.Error()
					return nil
				}
				return img
			}, func(n *lab.Node, col *collector, a *pager.Conn, img *oracle.Image) (*oracle.Image, error) {
				a.Close()
				return want, n.Store.SyncBackup(context.Background())
			})
		case "H10-replica-incremental":
			shapes := []pager.RTx{
				{Mods: []uint32{2}, NewSize: s + 2, Final: "DELETE", Outcome: "commit"},
				{Mods: []uint32{2}, NewSize: s - 1, Final: "DELETE", Outcome: "commit"},
			}
			e.replica(t, false, false, func(cl *lab.Cluster, P *lab.Node, a *pager.Conn, img *oracle.Image) (*oracle.Image, error) {
				r := a.RunRTx(shapes[c.Variant%2], img)
				if r.Err != nil || !r.Committed {
					return nil, fmt.Errorf("%v at %s", r.Err, r.ErrStep)
				}
				return r.Intended, nil
			}, false)
		case "H10w-replica-incremental-wal":
			e.replica(t, true, false, func(cl *lab.Cluster, P *lab.Node, a *pager.Conn, img *oracle.Image) (*oracle.Image, error) {
				ns := s + 1
				fr := []uint32{1, 2, s + 1}
				if c.Variant%2 == 1 {
					ns, fr = s-1, []uint32{1}
				}
				r := a.RunWTx(pager.WTx{Frames: fr, NewSize: ns, Outcome: "commit"}, img)
				if r.Err != nil || !r.Committed {
					return nil, fmt.Errorf("%v at %s", r.Err, r.ErrStep)
				}
				return r.Intended, nil
			}, false)
		case "H11-replica-snapshot":
			e.replica(t, c.Variant%2 == 1, false, func(cl *lab.Cluster, P *lab.Node, a *pager.Conn, img *oracle.Image) (*oracle.Image, error) {
				return img, nil
			}, true)
		case "H11b-replica-resnapshot":
			// A populated replica falls behind a trimmed log (or, variant 2/3, forks) and is sent a snapshot over its existing database and log.
			e.replica(t, c.Variant%2 == 1, false, func(cl *lab.Cluster, P *lab.Node, a *pager.Conn, img *oracle.Image) (*oracle.Image, error) {
				cl.Net.Block("P", "R1")
				cur := img
				for i := 0; i < 2; i++ {
					if c.Variant%2 == 1 {
						r := a.RunWTx(pager.WTx{Frames: []uint32{2}, Outcome: "commit"}, cur)
						if r.Err != nil || !r.Committed {
							return nil, fmt.Errorf("%v at %s", r.Err, r.ErrStep)
						}
						cur = r.Intended
					} else {
						r := a.RunRTx(pager.RTx{Mods: []uint32{2}, NewSize: s + uint32(i) + 1, Final: "DELETE", Outcome: "commit"}, cur)
						if r.Err != nil || !r.Committed {
							return nil, fmt.Errorf("%v at %s", r.Err, r.ErrStep)
						}
						cur = r.Intended
					}
				}
				db := P.DB("db")
				ents, _ := os.ReadDir(db.LTXDir())
				old := time.Now().Add(-24 * time.Hour)
				for _, ent := range ents {
					_ = os.Chtimes(filepath.Join(db.LTXDir(), ent.Name()), old, old)
				}
				P.Store.Retention = time.Minute
				if err := P.Store.EnforceRetention(context.Background()); err != nil {
					return nil, err
				}
				cl.Net.Unblock("P", "R1")
				return cur, nil
			}, false)
		case "H11c-replica-fork-resnapshot":
			e.replicaFork(t, c.Variant%2 == 1, c.Variant/2)
		case "H13-replica-tombstone":
			e.replica(t, c.Variant%2 == 1, false, func(cl *lab.Cluster, P *lab.Node, a *pager.Conn, img *oracle.Image) (*oracle.Image, error) {
				a.Close()
				return &oracle.Image{PageSize: e.c.PageSize}, P.M.Remove("db")
			}, false)
		default:
			res.Harness = "unknown history " + c.H
		}
	})
	return res
}

var _ = http.StatusOK
var _ = lfshttp.DefaultAddr

// ServeCase is a first-chance worker handler: it runs the input if it is a crash-enumeration case.
func ServeCase(t *testing.T) func(in json.RawMessage) (any, bool) {
	return func(in json.RawMessage) (any, bool) {
		var c Case
		if err := json.Unmarshal(in, &c); err != nil || c.H == "" {
			return nil, false
		}
		return Run1(t, c), true
	}
}

// ServeIfWorker turns the process into a pool worker for crash-enumeration cases.
func ServeIfWorker(t *testing.T) {
	if vlib.IsWorker() {
		first := ServeCase(t)
		vlib.Serve(func(in json.RawMessage) any {
			if out, ok := first(in); ok {
				return out
			}
			return Result{Harness: "bad case"}
		})
	}
}

// Assumptions of the crash model.
var Assumptions = []string{
	"Crash model: the LiteFS process dies, every completed system call persists (no power loss): a missing fsync is not observable and is out of scope (DESIGN.md §5).",
	"SQLite is played by the pager simulator; the restarted node is opened as a static primary so that a follow-up commit can be attempted.",
}

// RunAll enumerates the crash points of every history whose name only accepts (nil: all) and reports violations on run.
func RunAll(run *vlib.Run, only func(h string) bool) map[string]any {
	hs := []struct {
		name     string
		variants int
	}{
		{"H1-first-tx", 6}, {"H2-grow", 3}, {"H3-shrink", 3}, {"H4-multi-segment", 3}, {"H4b-segment-ends-on-sector-boundary", 1}, {"H5-rollback-after-spill", 3},
		{"H6-wal-fresh", 3}, {"H7-wal-after-restart", 2}, {"H7b-wal-second-tx", 2}, {"H7c-wal-unwritten-tail", 2}, {"H8-sqlite-checkpoint", 4}, {"H8b-wal-tx-after-checkpoint", 2}, {"H9-litefs-recover", 2},
		{"H12-drop", 6}, {"H12c-recreate-after-drop", 2}, {"H16-leave-wal", 3}, {"H14-import", 4}, {"H10-replica-incremental", 2}, {"H10w-replica-incremental-wal", 2}, {"H11-replica-snapshot", 2}, {"H11b-replica-resnapshot", 2}, {"H11c-replica-fork-resnapshot", 6}, {"H15-restore-from-backup", 2}, {"H13-replica-tombstone", 2},
	}
	type geo struct {
		ps    int
		start uint32
	}
	var cases []Case
	geos := []geo{{512, 4}, {4096, 4}}
	if !run.Thorough() {
		// the largest page size for the WAL histories whose log holds more than the newest transaction
		for _, h := range []string{"H7b-wal-second-tx", "H7c-wal-unwritten-tail"} {
			if only == nil || only(h) {
				for v := 0; v < 2; v++ {
					cases = append(cases, Case{H: h, PageSize: 65536, Start: 4, Variant: v})
				}
			}
		}
	}
	if run.Thorough() {
		geos = append(geos, geo{512, 257}, geo{1024, 300}, geo{65536, 4}, geo{8192, 5})
	}
	for _, g := range geos {
		for _, h := range hs {
			if only != nil && !only(h.name) {
				continue
			}
			for v := 0; v < h.variants; v++ {
				cases = append(cases, Case{H: h.name, PageSize: g.ps, Start: g.start, Variant: v})
			}
		}
	}
	pool := vlib.NewPool()
	pool.CaseTimeout = 120 * time.Second
	defer pool.Close()
	anyCases := make([]any, len(cases))
	for i := range cases {
		anyCases[i] = cases[i]
	}
	images := 0
	classes := map[string]int{}
	var samples []any
	pool.Run(anyCases, func(i int, out json.RawMessage, crash *vlib.Crash, flaky bool) {
		if flaky {
			run.HarnessError("case crashed once and passed on re-run: %+v", cases[i])
		}
		if crash != nil {
			run.Violation("crash/"+cases[i].H, fmt.Sprintf("worker died twice on %+v (timeout=%v)\n%s", cases[i], crash.Timeout, tailS(crash.Output, 2000)), map[string]any{"case": cases[i]})
			return
		}
		var r Result
		if err := json.Unmarshal(out, &r); err != nil {
			run.HarnessError("bad result: %v", err)
			return
		}
		if r.Harness != "" {
			run.HarnessError("%s (case %+v)", r.Harness, cases[i])
		}
		for _, v := range r.V {
			run.Violation(v.Key, v.What, map[string]any{"case": cases[i]})
		}
		images += r.Images
		for k, n := range r.Classes {
			classes[k] += n
		}
		if len(samples) < 6 && i%7 == 0 {
			samples = append(samples, map[string]any{"case": cases[i], "crash_points": r.Images, "some_crash_points": r.Sample})
		}
	})
	return map[string]any{
		"evaluations":         images,
		"distinct_nontrivial": len(classes),
		"histories":           len(cases),
		"recovery_classes":    classes,
		"exhaustive":          true,
		"samples":             samples,
		"rule":                "one crash image per (history, crash point): crash points are every client file operation, every mutating call through Store.OS (create, rename, remove, truncate, open-for-create, mkdir, write-file; SHM excluded) and every internal page write / database truncate of the operation under test; distinct_nontrivial counts distinct (history, recovered side before|after) classes, each of which required a full reopen, monitor pass and follow-up commit",
	}
}

func tailS(s string, n int) string {
	if len(s) > n {
		return s[len(s)-n:]
	}
	return s
}
