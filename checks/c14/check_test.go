// C14: backup sync uploads a gap-free chain and treats the backup as authoritative.
//
// Breadth-first search over histories of commits, drops, re-creations,
// retention sweeps, restarts, fail-overs, single Store.SyncBackup calls
// (healthy or with one injected fault), and changes made to the backup
// service behind the primary's back (rolled back, ahead, forked, wiped), on a
// real cluster whose candidate nodes run the real backup client - the file
// client on a directory, or the LiteFS Cloud client against a local server
// speaking its protocol. After every event the service's files are decoded
// with verif's own reader: one contiguous chain from TXID 1 whose every
// position and image is one some primary committed; files already on the
// service are never removed or rewritten by a node; no node publishes a
// high-water mark above what the service acknowledged. After every healthy
// sync of the idle primary the service is at the primary's position with a
// byte-identical restored image, or at least one compaction batch (256) closer.
package c14

import (
	"os"
	"testing"
	"time"

	"verif/hist"
	"verif/vlib"
)

func TestCheck(t *testing.T) {
	hist.ServeIfWorker(t)
	if f := os.Getenv("VERIF_REPLAY"); f != "" {
		hist.Replay(t, f)
	}
	run := vlib.Start("C14", "model_checking")
	core := []string{"tx:t1", "tx:g1", "sync", "svc:back", "svc:ahead", "svc:fork", "svc:wipe", "retain", "drop", "create", "restartP"}
	faults := []string{"tx:t1", "sync", "sync:wt-before", "sync:wt-after", "sync:wt-partial", "sync:pm", "sync:pm-omit", "sync:fs", "sync:fs-partial", "svc:ahead", "retain"}
	failover := []string{"tx:t1", "sync", "heal", "part", "demote", "retain"}
	batch := []string{"tx:t1", "sync", "retain", "svc:back", "sync:wt-after"}
	var jobs []hist.Job
	for _, kind := range []string{"file", "lfsc"} {
		jobs = append(jobs,
			hist.Job{Name: kind + "/core", Cfg: hist.Config{PageSize: 512, Start: 3, R2Starts: "absent", BackupKind: kind, Alphabet: core}, Depth: 4, Budget: 60 * time.Second},
			hist.Job{Name: kind + "/faults", Cfg: hist.Config{PageSize: 512, Start: 3, R2Starts: "absent", BackupKind: kind, Alphabet: faults, Prelude: []string{"sync", "tx:a:t1"}}, Depth: 3, Budget: 60 * time.Second},
			hist.Job{Name: kind + "/batch-257", Cfg: hist.Config{PageSize: 512, Start: 3, R2Starts: "absent", BackupKind: kind, Alphabet: batch, Prelude: []string{"sync", "burst:a"}}, Depth: 3, Budget: 60 * time.Second},
		)
	}
	jobs = append(jobs,
		hist.Job{Name: "file/failover-fork", Cfg: hist.Config{PageSize: 512, Start: 3, R2Starts: "absent", BackupKind: "file", Alphabet: failover, Prelude: []string{"sync", "part:R1", "tx:a:t1"}}, Depth: 4, Budget: 60 * time.Second},
		hist.Job{Name: "lfsc/wal-2db", Cfg: hist.Config{PageSize: 4096, Start: 2, WAL: true, SecondDB: true, R2Starts: "absent", BackupKind: "lfsc", Alphabet: append([]string{"tx:ck"}, core...)}, Depth: 2, Budget: 60 * time.Second},
	)
	jobs = append(jobs,
		hist.Job{Name: "lfsc-lag/core", Cfg: hist.Config{PageSize: 512, Start: 3, R2Starts: "absent", BackupKind: "lfsc-lag", Alphabet: []string{"tx:t1", "tx:g1", "sync", "svc:wipe", "svc:back", "retain", "drop", "create", "restartP"}}, Depth: 4, Budget: 60 * time.Second})
	loop := []string{"tx:t1", "svc:back", "svc:ahead", "svc:fork", "svc:wipe", "arm:wt-before", "arm:wt-after", "arm:wt-partial", "arm:fs", "retain", "drop", "create"}
	for _, kind := range []string{"file", "lfsc"} {
		jobs = append(jobs,
			hist.Job{Name: kind + "/loop-cached-posmap", Cfg: hist.Config{PageSize: 512, Start: 3, R2Starts: "absent", BackupKind: kind, BackupLoop: true, Alphabet: loop}, Depth: 3, Budget: 60 * time.Second},
			hist.Job{Name: kind + "/loop-batch-257", Cfg: hist.Config{PageSize: 512, Start: 3, R2Starts: "absent", BackupKind: kind, BackupLoop: true, Alphabet: []string{"tx:t1", "retain", "svc:back"}, Prelude: []string{"tx:a:t1", "arm:pm", "burst:a"}}, Depth: 2, Budget: 60 * time.Second},
		)
	}
	// the loop's periodic full sync, every five seconds: an idle primary notices the first, second and third change of the service
	for _, kind := range []string{"file", "lfsc"} {
		jobs = append(jobs, hist.Job{Name: kind + "/loop-periodic-full-sync", Cfg: hist.Config{PageSize: 512, Start: 3, R2Starts: "absent", BackupKind: kind, BackupLoop: true, BackupFullSync: 5, Alphabet: []string{"idle", "svc:ahead", "svc:back", "svc:fork", "tx:t1"}}, Depth: 3, Budget: 60 * time.Second})
	}
	// an empty directory in the file service (a first upload that failed at once) for a database the primary does not have
	jobs = append(jobs, hist.Job{Name: "file/stray-directory", Cfg: hist.Config{PageSize: 512, Start: 3, R2Starts: "absent", BackupKind: "file", Alphabet: []string{"tx:t1", "sync", "svc:stray", "restartP", "svc:back"}}, Depth: 3, Budget: 60 * time.Second})
	// the primary adopts the service's snapshot while a dead application's hot rollback journal lies next to the database;
	// the recovery of a later role change must find nothing left to roll back into the adopted image
	jobs = append(jobs, hist.Job{Name: "file/restore-over-hot-journal", Cfg: hist.Config{PageSize: 512, Start: 3, R2Starts: "absent", BackupKind: "file", Alphabet: []string{"hotj", "svc:ahead", "sync", "recover", "tx:t1"}, Prelude: []string{"sync"}}, Depth: 4, Budget: 60 * time.Second})
	// the service holds a database the primary has never seen; the first download of its snapshot may fail
	for _, kind := range []string{"file", "lfsc"} {
		jobs = append(jobs, hist.Job{Name: kind + "/database-only-on-the-service", Cfg: hist.Config{PageSize: 512, Start: 3, R2Starts: "absent", BackupKind: kind, Alphabet: []string{"svc:newdb", "sync", "sync:fs", "sync:fs-partial", "sync:pm", "restartP"}, Prelude: []string{"sync"}}, Depth: 4, Budget: 60 * time.Second})
	}
	if run.Thorough() {
		for i := range jobs {
			jobs[i].Depth += 2
			jobs[i].Budget = 15 * time.Minute
		}
	}
	cov := hist.RunJobs(run, jobs)
	run.Finish(cov, append(hist.CommonAssumptions,
		"The service's durable state is a directory of LTX files (the file client's own layout; the local LiteFS Cloud server keeps the same layout and checks contiguity itself). Sync events are single Store.SyncBackup calls on an idle primary; the loop jobs run the store's own continuous loop (1 s batching delay, 1 s retry, position map cached for the whole history) on the fake clock and judge it 20 fake seconds after each event.",
		"Faults are injected one per sync at the client interface: upload refused, upload stored but reply lost, upload cut after 150 bytes, position map unavailable, position map answered without any database (stale listing: the primary then uploads a snapshot onto a service that has a chain), snapshot unavailable, snapshot cut after 220 bytes.",
		"The wrapper closes the upload pipe when the client returns, as an HTTP transport does; the store itself never closes it (goroutine leak on early client errors, outside this property)."))
}
