// C04: the reported checksum always equals a from-scratch checksum of the database.
//
// The from-scratch monitor (stdlib CRC64 over the raw database file overlaid
// with committed WAL frames by an independent WAL reader) is evaluated on every
// node and database at every state of a dedicated breadth-first search over
// mixed histories: local commits in both journal modes, SQLite and LiteFS
// checkpoints, replicated applies and snapshots, restarts, imports, drops,
// re-creation and primary changes, over sizes that cross 1, 256/257 and 512/513 pages.
// (The same monitor also runs inside the C01/C02/C03/C15 searches.)
package c04

import (
	"os"
	"testing"
	"time"

	"verif/hist"
	"verif/vlib"
)

func TestCheck(t *testing.T) {
	hist.ServeIfWorker(t)
	if f := os.Getenv("VERIF_REPLAY"); f != "" {
		hist.Replay(t, f)
	}
	run := vlib.Start("C04", "model_checking")
	alpha := []string{"tx:t1", "tx:tl", "tx:tr", "tx:gb", "tx:s1", "tx:sb", "tx:fl", "tx:sp", "tx:rb", "tx:ck", "recover", "hot", "towal", "import:s", "import:b", "import:w", "drop", "create", "restart", "restartP", "part", "heal", "demote"}
	jobs := []hist.Job{
		{Name: "journal-256p", Cfg: hist.Config{PageSize: 512, Start: 256, R2Starts: "partitioned", Alphabet: alpha}, Depth: 3, Budget: 60 * time.Second},
		{Name: "wal-513p", Cfg: hist.Config{PageSize: 512, Start: 513, WAL: true, R2Starts: "partitioned", Alphabet: alpha}, Depth: 3, Budget: 60 * time.Second},
		{Name: "journal-1p", Cfg: hist.Config{PageSize: 4096, Start: 1, R2Starts: "partitioned", Alphabet: alpha}, Depth: 3, Budget: 40 * time.Second},
	}
	if run.Thorough() {
		for i := range jobs {
			jobs[i].Depth = 5
			jobs[i].Budget = 12 * time.Minute
		}
		jobs = append(jobs,
			hist.Job{Name: "wal-255p-64k", Cfg: hist.Config{PageSize: 65536, Start: 255, WAL: true, R2Starts: "partitioned", Alphabet: alpha}, Depth: 3, Budget: 8 * time.Minute},
			hist.Job{Name: "journal-512p-lz4", Cfg: hist.Config{PageSize: 1024, Start: 512, Compress: true, R2Starts: "partitioned", Alphabet: alpha}, Depth: 4, Budget: 8 * time.Minute})
	}
	cov := hist.RunJobs(run, jobs)
	run.Finish(cov, append(hist.CommonAssumptions,
		"The from-scratch checksum uses hash/crc64 (ISO) directly and an independent WAL scanner (verif/oracle); nothing from package litefs or ltx's checksum code.",
		"Lock-page geometry (a database containing page 0x40000000/pageSize+1) is not enumerated."))
}
