// C06: divergent or stale replicas are resnapshotted, never patched.
//
// Part 1: breadth-first search over histories that start from fork and
// staleness preludes (former primary ahead by one, equal TXID with a different
// checksum, replica behind a retention cut, late joiner) in both journal
// modes; at every state every node's image must be the primary's image at the
// position the node reports, every node's log must be one chain, and connected
// nodes must converge (C01/C04/C09 oracles).
// Part 2: a matrix of transaction files that do not extend the node's exact
// position, or whose body is corrupt, offered through the three entry points
// (replication stream from a scripted primary, POST /tx under a held halt lock,
// restore from the backup service): database bytes, position and log must be
// unchanged, the node keeps running and restarts cleanly.
package c06

import (
	"bytes"
	"context"
	"crypto/sha256"
	"encoding/json"
	"fmt"
	"io"
	"net/http"
	"os"
	"path/filepath"
	"runtime/debug"
	"sort"
	"strings"
	"testing"
	"testing/synctest"
	"time"

	"github.com/superfly/litefs"
	lfshttp "github.com/superfly/litefs/http"
	"github.com/superfly/ltx"
	"verif/hist"
	"verif/lab"
	"verif/oracle"
	"verif/pager"
	"verif/prog"
	"verif/vlib"
)

type Case struct {
	Route string `json:"route"` // stream | tx | restore
	File  string `json:"file"`  // kind of offered file
	WAL   bool   `json:"wal"`
	Cut   int    `json:"cut,omitempty"`
	// Empty (route tx): the target is a database that exists at position 0 (created by the halt request itself);
	// every non-snapshot file must be refused there too.
	Empty bool `json:"empty,omitempty"`
	// Dropped (route tx): the target database was deleted on the primary: it stands at (t+1, empty checksum) with no
	// page. Files that start at TXID 1 do not extend that position either.
	Dropped bool `json:"dropped,omitempty"`
}

// digestName is the database the digest looks at (one case per worker call).
var digestName = "db"

type Result struct {
	V       []prog.V `json:"v,omitempty"`
	Class   string   `json:"class"`
	Harness string   `json:"harness,omitempty"`
}

const ps = 512

func encodeLTX(hdr ltx.Header, pages map[uint32][]byte, post uint64) ([]byte, error) {
	var buf bytes.Buffer
	enc := ltx.NewEncoder(&buf)
	if err := enc.EncodeHeader(hdr); err != nil {
		return nil, err
	}
	var pgs []int
	for p := range pages {
		pgs = append(pgs, int(p))
	}
	sort.Ints(pgs)
	for _, p := range pgs {
		if err := enc.EncodePage(ltx.PageHeader{Pgno: uint32(p)}, pages[uint32(p)]); err != nil {
			return nil, err
		}
	}
	enc.SetPostApplyChecksum(ltx.Checksum(post))
	if err := enc.Close(); err != nil {
		return nil, err
	}
	return buf.Bytes(), nil
}

func snapshotLTX(img *oracle.Image, txid uint64) []byte {
	pages := map[uint32][]byte{}
	for i, p := range img.Pages {
		pages[uint32(i+1)] = p
	}
	b, err := encodeLTX(ltx.Header{Version: 1, PageSize: uint32(img.PageSize), Commit: img.N(), MinTXID: 1, MaxTXID: ltx.TXID(txid), Timestamp: 1, NodeID: 0xF00D}, pages, img.Checksum())
	if err != nil {
		panic(err)
	}
	return b
}

// offered builds the file of the given kind for a node at (t, c) holding img. ok=true means it must be accepted.
func offered(kind string, img *oracle.Image, t, c uint64, cut int) (data []byte, ok bool) {
	next := img.Clone()
	next.Pages[1] = pager.MakePage(ps, 2, 0xBAD)
	good := func(min, max uint64, pre uint64) []byte {
		b, err := encodeLTX(ltx.Header{Version: 1, PageSize: ps, Commit: next.N(), MinTXID: ltx.TXID(min), MaxTXID: ltx.TXID(max), Timestamp: 2, PreApplyChecksum: ltx.Checksum(pre), NodeID: 0xF00D},
			map[uint32][]byte{2: next.Pages[1]}, next.Checksum())
		if err != nil {
			panic(err)
		}
		return b
	}
	switch kind {
	case "valid":
		return good(t+1, t+1, c), true
	case "min-txid-same":
		return good(t, t, c), false
	case "min-txid-gap":
		return good(t+2, t+2, c), false
	case "min-txid-lower":
		return good(t-1, t, c), false
	case "min-txid-lower-max-next":
		// a multi-transaction file that ends exactly at the next TXID but starts below it: only legal on a node at MinTXID-1
		return good(t-1, t+1, c), false
	case "min-txid-1-max-next":
		if t < 2 {
			return good(t-1, t+1, c), false
		}
		return good(2, t+1, c), false
	case "wrong-prechecksum":
		return good(t+1, t+1, c^0x10), false
	case "flip-page-byte":
		b := good(t+1, t+1, c)
		b[100+4+17] ^= 0x40
		return b, false
	case "flip-file-checksum":
		b := good(t+1, t+1, c)
		b[len(b)-1] ^= 0x01
		return b, false
	case "flip-post-checksum":
		b := good(t+1, t+1, c)
		b[len(b)-12] ^= 0x01
		return b, false
	case "flip-header-byte":
		b := good(t+1, t+1, c)
		b[40] ^= 0x01 // timestamp region: header still validates, file CRC does not
		return b, false
	case "truncated":
		b := good(t+1, t+1, c)
		cuts := []int{0, 50, 100, 104, 100 + 4 + ps/2, 100 + 4 + ps, 100 + 8 + ps, len(b) - 9, len(b) - 1}
		return b[:cuts[cut%len(cuts)]], false
	case "garbage":
		return bytes.Repeat([]byte{0x5a}, 700), false
	case "snapshot-whole-1":
		return snapshotLTX(next, 1), false
	case "snapshot-whole-next":
		return snapshotLTX(next, t+1), false
	case "snapshot-with-prechecksum":
		b := snapshotLTX(next, t+1)
		b[40] = 0x80 // pre-apply checksum field of a snapshot must be zero
		return b, false
	case "snapshot-bad-header-field":
		b := snapshotLTX(next, t+1)
		b[48] = 0x80 // negative WAL offset
		return b, false
	}
	panic("unknown file kind " + kind)
}

var fileKinds = []string{"valid", "min-txid-same", "min-txid-gap", "min-txid-lower", "min-txid-lower-max-next", "min-txid-1-max-next", "wrong-prechecksum", "flip-page-byte", "flip-file-checksum", "flip-post-checksum", "flip-header-byte", "garbage", "snapshot-with-prechecksum", "snapshot-bad-header-field"}

func digest(n *lab.Node) string {
	db := n.DB(digestName)
	if db == nil {
		return "nodb"
	}
	h := sha256.New()
	fmt.Fprintf(h, "pos=%s\n", db.Pos())
	img, err := oracle.ReadLogicalImage(db.Path(), ps)
	if err != nil {
		fmt.Fprintf(h, "unreadable %v", err)
	} else {
		fmt.Fprintf(h, "%d %x\n", img.N(), sha256.Sum256(img.Bytes()))
	}
	ents, _ := os.ReadDir(db.LTXDir())
	for _, e := range ents {
		if !strings.HasSuffix(e.Name(), ".ltx") {
			continue
		}
		b, _ := os.ReadFile(filepath.Join(db.LTXDir(), e.Name()))
		fmt.Fprintf(h, "%s %x\n", e.Name(), sha256.Sum256(b))
	}
	return fmt.Sprintf("%x", h.Sum(nil)[:12])
}

type fakeBackup struct {
	pos  map[string]ltx.Pos
	snap []byte
}

func (f *fakeBackup) URL() string { return "fake://" }
func (f *fakeBackup) PosMap(ctx context.Context) (map[string]ltx.Pos, error) {
	return f.pos, nil
}
func (f *fakeBackup) WriteTx(ctx context.Context, name string, r io.Reader) (ltx.TXID, error) {
	return 0, fmt.Errorf("not expected")
}
func (f *fakeBackup) FetchSnapshot(ctx context.Context, name string) (io.ReadCloser, error) {
	return io.NopCloser(bytes.NewReader(f.snap)), nil
}

func run1(t *testing.T, c Case) (res Result) {
	viol := func(key, format string, args ...any) {
		for _, v := range res.V {
			if v.Key == key {
				return
			}
		}
		b, _ := json.Marshal(c)
		res.V = append(res.V, prog.V{Key: key, What: fmt.Sprintf(format, args...) + "\ncase: " + string(b)})
	}
	synctest.Test(t, func(t *testing.T) {
		defer func() {
			if p := recover(); p != nil {
				viol(prog.PanicKey(p, debug.Stack()), "panic: %v\n%s", p, debug.Stack())
			}
		}()
		cl := lab.NewCluster(10 * time.Second)
		defer cl.Close()
		fb := &fakeBackup{}
		// Base image at (t, c): built on a real primary so that the checksum is LiteFS's own.
		var N *lab.Node
		switch c.Route {
		case "tx", "restore":
			cl.AddNode("P", true, func(cfg *lab.NodeConfig) {
				if c.Route == "restore" {
					cfg.BackupClient = fb
				}
			})
			if err := cl.Start("P"); err != nil || cl.WaitPrimary(5*time.Second) == nil {
				res.Harness = "start failed"
				return
			}
			N = cl.Nodes["P"]
			conn := pager.NewConn(N.M, "db", 1, ps)
			r := conn.RunRTx(pager.RTx{Create: true, NewSize: 4, Final: "DELETE", Outcome: "commit"}, nil)
			if r.Err == nil && r.Committed {
				r = conn.RunRTx(pager.RTx{Mods: []uint32{3}, Final: "DELETE", Outcome: "commit"}, r.Intended)
			}
			if r.Err == nil && r.Committed {
				r = conn.RunRTx(pager.RTx{Mods: []uint32{3}, Final: "DELETE", Outcome: "commit", ToWAL: c.WAL}, r.Intended)
			}
			conn.Close()
			if r.Err != nil || !r.Committed {
				res.Harness = fmt.Sprintf("setup: %v at %s", r.Err, r.ErrStep)
				return
			}
			img := r.Intended
			if c.Dropped {
				if err := N.M.Remove("db"); err != nil {
					res.Harness = "drop: " + err.Error()
					return
				}
				lab.Settle(200 * time.Millisecond)
			}
			p0 := N.DB("db").Pos()
			tt, cc := uint64(p0.TXID), uint64(p0.PostApplyChecksum)
			data, mustAccept := offered(c.File, img, tt, cc, c.Cut)
			target := "db"
			if c.Empty {
				target = "fresh"
				// well-formed non-snapshot files (MinTXID 7 or 8, a real pre-apply checksum): none extends position 0
				data, _ = offered(c.File, img, 6, cc, c.Cut)
				mustAccept = false
			}
			digestName = target
			defer func() { digestName = "db" }()
			var before string
			var err error
			if c.Route == "tx" {
				client := lfshttp.NewClient()
				client.HTTPClient = &http.Client{Transport: cl.Net.Transport("client")}
				if _, err = client.AcquireHaltLock(context.Background(), "http://P", 0xC11E, target, 77); err != nil {
					res.Harness = "halt: " + err.Error()
					return
				}
				before = digest(N)
				err = client.Commit(context.Background(), "http://P", 0xC11E, target, 77, bytes.NewReader(data))
				_ = client.ReleaseHaltLock(context.Background(), "http://P", 0xC11E, target, 77)
			} else {
				before = digest(N)
				// The backup service claims to be ahead: the primary fetches its snapshot.
				fb.pos = map[string]ltx.Pos{"db": {TXID: ltx.TXID(tt + 5), PostApplyChecksum: 1 << 63}}
				fb.snap = data
				if c.File == "valid" {
					nx := img.Clone()
					nx.Pages[1] = pager.MakePage(ps, 2, 0xBAD)
					fb.snap = snapshotLTX(nx, tt+5)
				}
				err = N.Store.SyncBackup(context.Background())
			}
			lab.Settle(200 * time.Millisecond)
			judge(&res, viol, c, N, cl, before, mustAccept, err)
		case "stream":
			// A scripted primary F feeds frames to the real replica loop of R.
			img := &oracle.Image{PageSize: ps}
			img.Pages = append(img.Pages, pager.MakePage1(ps, 1, 4, c.WAL, 3))
			for p := uint32(2); p <= 4; p++ {
				img.Pages = append(img.Pages, pager.MakePage(ps, p, 1))
			}
			const tt = 3
			cc := img.Checksum()
			data, mustAccept := offered(c.File, img, tt, cc, c.Cut)
			sent := 0
			cl.Net.Register("F", http.HandlerFunc(func(w http.ResponseWriter, r *http.Request) {
				if r.URL.Path != "/stream" {
					http.Error(w, "no", 404)
					return
				}
				pm, _ := lfshttp.ReadPosMapFrom(r.Body)
				w.Header().Set("Litefs-Cluster-Id", "LFSC0123456789ABCDEF")
				w.WriteHeader(200)
				send := func(b []byte) {
					_ = litefs.WriteStreamFrame(w, &litefs.LTXStreamFrame{Name: "db"})
					cw := litefs.VerifChunkWriter(w)
					_, _ = cw.Write(b)
					_ = cw.Close()
				}
				if pm["db"].TXID == 0 {
					send(snapshotLTX(img, tt))
				}
				_ = litefs.WriteStreamFrame(w, &litefs.ReadyStreamFrame{})
				if sent == 0 {
					sent++
					send(data)
				}
				// stay connected, heartbeating, until the replica goes away
				for i := 0; i < 600; i++ {
					select {
					case <-r.Context().Done():
						return
					case <-time.After(time.Second):
					}
					if err := litefs.WriteStreamFrame(w, &litefs.HeartbeatStreamFrame{Timestamp: time.Now().UnixMilli()}); err != nil {
						return
					}
				}
			}))
			fl := lab.NewSimLeaser(cl.Svc, "F")
			if _, err := fl.Acquire(context.Background()); err != nil {
				res.Harness = "lease for F: " + err.Error()
				return
			}
			cl.Svc.TTL = 24 * time.Hour
			cl.AddNode("R1", false, nil)
			N = cl.Nodes["R1"]
			// Freeze the state right after the snapshot by letting the offered file arrive only after the snapshot applied:
			// the handler sends both in order; the digest "before" is computed from the reference.
			if err := cl.Start("R1"); err != nil {
				res.Harness = "start R1: " + err.Error()
				return
			}
			lab.Settle(3 * time.Second)
			// Reference digest: what R must look like at (t, c), taken from a second, untouched replica of the same snapshot.
			wantPos := fmt.Sprintf("%016x/%016x", uint64(tt), cc)
			got := "nodb"
			if db := N.DB("db"); db != nil {
				got = db.Pos().String()
			}
			if mustAccept {
				if got == wantPos {
					viol("valid-rejected/stream", "a valid extending file was not applied by the replica (position %s)", got)
				}
				res.Class = "accepted"
				return
			}
			res.Class = "rejected"
			if got != wantPos {
				viol("position-changed/stream/"+c.File, "offered %s through the stream: replica position is %s, want %s (unchanged)", c.File, got, wantPos)
			}
			if db := N.DB("db"); db != nil {
				li, err := oracle.ReadLogicalImage(db.Path(), ps)
				if err != nil {
					viol("image-unreadable/stream/"+c.File, "replica image unreadable: %v", err)
				} else if ok, d := li.Equal(img); !ok {
					viol("database-modified/stream/"+c.File, "offered %s through the stream: the replica's database was modified: %s", c.File, d)
				}
				names := ltxList(db.LTXDir())
				if len(names) != 1 {
					viol("log-changed/stream/"+c.File, "offered %s through the stream: replica log is %v, want only the snapshot", c.File, names)
				}
			}
			if codes := N.ExitCodes(); len(codes) > 0 {
				viol("exit/stream/"+c.File, "offered %s through the stream: the replica called Store.Exit(%v)", c.File, codes)
			}
			if len(res.V) == 0 {
				if err := N.Stop(); err != nil {
					viol("stop-error", "%v", err)
				}
				if err := N.Start(); err != nil {
					viol("restart-failed/stream/"+c.File, "replica does not restart after being offered %s: %v", c.File, err)
				}
			}
		}
	})
	return res
}

func ltxList(dir string) []string {
	ents, _ := os.ReadDir(dir)
	var out []string
	for _, e := range ents {
		if strings.HasSuffix(e.Name(), ".ltx") {
			out = append(out, e.Name())
		}
	}
	return out
}

func judge(res *Result, viol func(string, string, ...any), c Case, N *lab.Node, cl *lab.Cluster, before string, mustAccept bool, err error) {
	after := digest(N)
	if len(cl.Net.Panics) > 0 {
		viol("handler-panic/"+c.Route, "handler panicked: %s", cl.Net.Panics[0])
	}
	if mustAccept {
		res.Class = "accepted"
		if err != nil || after == before {
			viol("valid-rejected/"+c.Route, "a valid extending file was not applied (err=%v)", err)
		}
		return
	}
	res.Class = "rejected"
	if err == nil && c.Route == "tx" {
		viol("bad-file-accepted/"+c.Route+"/"+c.File, "POST /tx answered 200 for %s", c.File)
	}
	if after != before {
		viol("state-changed/"+c.Route+"/"+c.File, "offered %s through %s: database, position or log changed (err=%v)", c.File, c.Route, err)
	}
	if codes := N.ExitCodes(); len(codes) > 0 {
		viol("exit/"+c.Route+"/"+c.File, "offered %s through %s: Store.Exit(%v)", c.File, c.Route, codes)
	}
	if len(res.V) == 0 {
		if e := N.Stop(); e != nil {
			viol("stop-error", "%v", e)
		}
		if e := N.Start(); e != nil {
			viol("restart-failed/"+c.Route+"/"+c.File, "node does not restart after being offered %s: %v", c.File, e)
		} else if d := digest(N); d != before {
			viol("restart-changed-state/"+c.Route+"/"+c.File, "restart after the rejected %s changed the state", c.File)
		}
	}
}

func TestCheck(t *testing.T) {
	hist.ServeIfWorker2(t, func(in json.RawMessage) (any, bool) {
		var probe struct {
			Route string `json:"route"`
		}
		if json.Unmarshal(in, &probe) == nil && probe.Route != "" {
			var c Case
			_ = json.Unmarshal(in, &c)
			return run1(t, c), true
		}
		return nil, false
	})
	if f := os.Getenv("VERIF_REPLAY"); f != "" {
		hist.Replay(t, f)
	}
	run := vlib.Start("C06", "model_checking")

	// ---- Part 2: rejected-file matrix ----
	var cases []Case
	for _, route := range []string{"stream", "tx", "restore"} {
		for _, wal := range []bool{false, true} {
			for _, k := range fileKinds {
				cases = append(cases, Case{Route: route, File: k, WAL: wal})
			}
			for cut := 0; cut < 9; cut++ {
				cases = append(cases, Case{Route: route, File: "truncated", WAL: wal, Cut: cut})
			}
		}
	}
	for _, k := range []string{"valid", "min-txid-gap", "min-txid-lower-max-next"} {
		cases = append(cases, Case{Route: "tx", File: k, Empty: true})
	}
	for _, wal := range []bool{false, true} {
		for _, k := range []string{"snapshot-whole-1", "snapshot-whole-next", "min-txid-gap", "wrong-prechecksum"} {
			cases = append(cases, Case{Route: "tx", File: k, WAL: wal, Dropped: true})
		}
	}
	pool := vlib.NewPool()
	pool.CaseTimeout = 60 * time.Second
	anyCases := make([]any, len(cases))
	for i := range cases {
		anyCases[i] = cases[i]
	}
	var classes vlib.Distinct
	pool.Run(anyCases, func(i int, out json.RawMessage, crash *vlib.Crash, flaky bool) {
		if flaky {
			run.HarnessError("case crashed once and passed on re-run: %+v", cases[i])
		}
		if crash != nil {
			run.Violation("crash/"+cases[i].Route+"/"+cases[i].File, fmt.Sprintf("worker died twice on %+v (timeout=%v)\n%s", cases[i], crash.Timeout, tail(crash.Output, 2500)), map[string]any{"case": cases[i]})
			return
		}
		var r Result
		if err := json.Unmarshal(out, &r); err != nil {
			run.HarnessError("bad result: %v", err)
			return
		}
		if r.Harness != "" {
			run.HarnessError("%s (case %+v)", r.Harness, cases[i])
		}
		for _, v := range r.V {
			run.Violation(v.Key, v.What, map[string]any{"case": cases[i]})
		}
		classes.Add(cases[i].Route + "/" + cases[i].File + "=" + r.Class)
	})
	pool.Close()

	// ---- Part 1: fork / staleness histories ----
	alpha := []string{"tx:t1", "tx:tl", "tx:g1", "tx:s1", "tx:rb", "part", "heal", "demote", "retain", "restart", "start"}
	jobs := []hist.Job{
		{Name: "journal-equal-txid-fork", Cfg: hist.Config{PageSize: 512, Start: 3, R2Starts: "absent", Alphabet: alpha, Prelude: []string{"part:R1", "tx:a:t1", "demote", "tx:a:tl"}}, Depth: 3, Budget: 50 * time.Second},
		{Name: "wal-former-primary-ahead-by-two", Cfg: hist.Config{PageSize: 512, Start: 3, WAL: true, R2Starts: "absent", Alphabet: alpha, Prelude: []string{"part:R1", "tx:a:t1", "tx:a:g1", "demote"}}, Depth: 3, Budget: 50 * time.Second},
		// the new primary has one transaction only - the creation, written by the former primary, which is one ahead
		{Name: "journal-former-primary-ahead-of-txid-1", Cfg: hist.Config{PageSize: 512, Start: 3, R2Starts: "absent", Alphabet: alpha, Prelude: []string{"part:R1", "tx:a:t1", "demote"}}, Depth: 2, Budget: 50 * time.Second},
		{Name: "journal-behind-fork", Cfg: hist.Config{PageSize: 512, Start: 3, R2Starts: "partitioned", Alphabet: alpha, Prelude: []string{"part:R1", "tx:a:tl", "demote", "tx:a:t1", "tx:a:g1"}}, Depth: 2, Budget: 50 * time.Second},
	}
	if run.Thorough() {
		for i := range jobs {
			jobs[i].Depth += 2
			jobs[i].Budget = 12 * time.Minute
		}
		jobs = append(jobs, hist.Job{Name: "wal-equal-txid-fork", Cfg: hist.Config{PageSize: 4096, Start: 3, WAL: true, R2Starts: "partitioned", Alphabet: alpha, Prelude: []string{"part:R1", "tx:a:t1", "demote", "tx:a:tl"}}, Depth: 4, Budget: 12 * time.Minute})
	}
	cov := hist.RunJobs(run, jobs)
	cov["rejected_file_cases"] = len(cases)
	cov["rejected_file_outcome_classes"] = classes.Top(200)
	cov["states"] = cov["states"].(int) + len(cases)
	cov["transitions"] = cov["transitions"].(int) + len(cases)
	cov["traces_validated_against_impl"] = cov["traces_validated_against_impl"].(int) + len(cases)
	cov["rule"] = cov["rule"].(string) + " Part 2: every (entry point in {stream, /tx under a halt lock, backup restore}) x journal mode x offered file kind (11 kinds + 9 truncation classes)."
	run.Finish(cov, append(hist.CommonAssumptions,
		"A file whose header extends the position and whose file CRC is valid but whose post-apply checksum lies is a forged file, not a corrupt one; it is offered (flip-post-checksum breaks the CRC too) only in its corrupt form.",
		"The stream entry point is driven by a scripted primary that speaks the real frame and chunk encodings to the real replica loop."))
}

func tail(s string, n int) string {
	if len(s) > n {
		return s[len(s)-n:]
	}
	return s
}
