// C10: a completed snapshot or export is the image of exactly one position.
//
// Schedule exploration (engine E2): a snapshot / export thread, a writer
// connection running two transactions and (WAL) a checkpointer connection run
// as real goroutines over one real DB inside a synctest bubble; every lock
// operation, internal page write and client WAL/database write is a scheduling
// point; all schedules up to a preemption bound are enumerated. A successful
// snapshot or export must be byte-identical to the reference image of the
// position it reports.
package c10

import (
	"bytes"
	"context"
	"encoding/json"
	"fmt"
	"io"
	"net/http"
	"os"
	"strings"
	"testing"
	"time"

	lfshttp "github.com/superfly/litefs/http"
	"verif/lab"
	"verif/oracle"
	"verif/pager"
	"verif/sched"
	"verif/vlib"
)

type Config struct {
	WAL     bool   `json:"wal"`
	Op      string `json:"op"`      // snapshot | export | export-http
	Ckpt    bool   `json:"ckpt"`    // WAL: a checkpointer connection (PASSIVE then RESTART)
	Recover bool   `json:"recover"` // LiteFS's own Store.Recover as at a role change
	Shrink  bool   `json:"shrink"`  // second transaction shrinks instead of growing
	// NoPrior: the WAL holds no frame when the race starts, so that after a log restart the second transaction's
	// frames land on the slots of the first one's (a stale page-to-frame mapping then points at another page).
	NoPrior bool `json:"noprior,omitempty"`
	// Hot (WAL mode): the log ends in frames of a rolled-back statement (spilled pages, no commit frame).
	// Hot (rollback-journal mode): an application died in the middle of a transaction before the race starts: pages
	// already overwritten in the file, a valid journal next to it. The export has to roll it back first.
	Hot bool `json:"hot,omitempty"`
	// Unwritten (WAL): the second transaction grows the database by a page it never writes.
	Unwritten bool `json:"unwritten,omitempty"`
}

type pos [2]uint64

func harness(cfgJSON json.RawMessage) sched.Harness {
	var cfg Config
	_ = json.Unmarshal(cfgJSON, &cfg)
	return func(t *testing.T, e *sched.Exec, prefix []int) (obs string, viol []sched.Violation) {
		v := func(key, format string, args ...any) {
			viol = append(viol, sched.Violation{Key: key, What: fmt.Sprintf(format, args...)})
		}
		const ps = 512
		dir := lab.ScratchDir("c10")
		defer lab.RemoveAll(dir)
		net := lab.NewNet()
		net.Spawn = e.Spawner()
		// GET /export: the handler runs as its own thread H (it and the client S, which consumes the body page by page,
		// are both scheduling-point sources and must not share one thread).
		hch := make(chan func(), 1)
		if cfg.Op == "export-http" {
			net.Spawn = func(fn func()) { hch <- fn }
			e.Go("H", func(th *sched.Thread) { (<-hch)() })
		}
		n, err := lab.StartPrimary(dir, lab.NodeConfig{Net: net})
		if err != nil {
			return "harness-error:" + err.Error(), nil
		}
		defer n.Stop()
		ref := map[pos]*oracle.Image{}
		rec := func(img *oracle.Image) {
			p := n.DB("db").Pos()
			ref[pos{uint64(p.TXID), uint64(p.PostApplyChecksum)}] = img
		}
		setup := pager.NewConn(n.M, "db", 9, ps)
		r := setup.RunRTx(pager.RTx{Create: true, NewSize: 4, Final: "DELETE", Outcome: "commit"}, nil)
		if r.Err == nil && r.Committed {
			rec(r.Intended)
			r = setup.RunRTx(pager.RTx{Mods: []uint32{2}, Final: "DELETE", Outcome: "commit", ToWAL: cfg.WAL}, r.Intended)
		}
		if r.Err != nil || !r.Committed {
			return fmt.Sprintf("harness-error: setup %v at %s", r.Err, r.ErrStep), nil
		}
		rec(r.Intended)
		img := r.Intended
		setup.Close()
		if cfg.WAL && !cfg.NoPrior {
			// committed frames in the WAL before the race starts
			w := setup.RunWTx(pager.WTx{Frames: []uint32{1, 3}, Outcome: "commit"}, img)
			if w.Err != nil || !w.Committed {
				return fmt.Sprintf("harness-error: setup wal %v at %s", w.Err, w.ErrStep), nil
			}
			img = w.Intended
			rec(img)
			if cfg.Hot {
				// a statement whose dirty pages spilled into the log and that was then rolled back: valid frames (salt,
				// running checksum) after the last commit frame, which belong to no position
				w = setup.RunWTx(pager.WTx{Frames: []uint32{2, 3}, Outcome: "rollback"}, img)
				if w.Err != nil || w.Committed {
					return fmt.Sprintf("harness-error: setup wal rollback %v at %s", w.Err, w.ErrStep), nil
				}
			}
			setup.Close()
		}
		if cfg.Hot && !cfg.WAL {
			dead := pager.NewConn(n.M, "db", 8, ps)
			func() {
				defer func() {
					if p := recover(); p != nil {
						if _, ok := p.(pager.Abort); !ok {
							panic(p)
						}
					}
				}()
				wrote := false
				dead.Before = func(step int, desc string) {
					if wrote {
						panic(pager.Abort{Step: step})
					}
					if strings.HasPrefix(desc, "db write page") {
						wrote = true
					}
				}
				dead.RunRTx(pager.RTx{Mods: []uint32{2, 3}, SpillAfter: []int{1}, Final: "DELETE", Outcome: "commit"}, img)
			}()
			dead.Before = nil
			dead.Close()
			if !n.M.Exists("db-journal") {
				return "harness-error: no hot journal", nil
			}
		}
		db := n.DB("db")

		// ---- threads ----
		var sBytes bytes.Buffer
		var sErr error
		var sPos pos
		sDone := false
		e.Go("S", func(th *sched.Thread) {
			ctx, cancel := context.WithTimeout(context.Background(), 30*time.Second)
			defer cancel()
			switch cfg.Op {
			case "snapshot":
				hdr, trl, err := db.WriteSnapshotTo(ctx, &pointWriter{th: th, w: &sBytes, every: ps})
				sErr = err
				sPos = pos{uint64(hdr.MaxTXID), uint64(trl.PostApplyChecksum)}
			case "export":
				p, err := db.Export(ctx, &pointWriter{th: th, w: &sBytes, every: ps})
				sErr = err
				sPos = pos{uint64(p.TXID), uint64(p.PostApplyChecksum)}
			case "export-http":
				cl := lfshttp.NewClient()
				cl.HTTPClient = &http.Client{Transport: net.Transport("client")}
				rc, err := cl.Export(ctx, "http://P", "db")
				if err == nil {
					_, err = io.Copy(&pointWriter{th: th, w: &sBytes, every: 3 * ps}, rc) // fewer points: the handler is a thread of its own here
					rc.Close()
				}
				sErr = err
			}
			sDone = true
		})
		busy := func(max int) func() bool {
			n := 0
			return func() bool {
				n++
				if n > max {
					return false
				}
				time.Sleep(300 * time.Microsecond)
				return true
			}
		}
		var wErrs []string
		e.Go("W", func(th *sched.Thread) {
			c := pager.NewConn(n.M, "db", 1, ps)
			c.Busy = busy(40)
			c.Before = func(step int, desc string) {
				if strings.HasPrefix(desc, "wal write") {
					th.Point(desc)
				}
			}
			defer c.Close()
			cur := img
			if cfg.Hot && !cfg.WAL {
				// a real writer would first roll the dead application's journal back itself; this one lets the export do
				// it and starts when the journal is gone
				for tries := 0; n.M.Exists("db-journal"); tries++ {
					if tries > 200 {
						wErrs = append(wErrs, "journal never went away")
						return
					}
					th.Point("writer waits for the hot journal to go")
					time.Sleep(300 * time.Microsecond)
				}
			}
			for i := 0; i < 2; i++ {
				if i > 0 {
					// between two transactions the connection holds nothing and has read nothing yet: a checkpointer that
					// runs here can complete a log restart, which one that runs after the next wal-index read cannot
					th.Point("between transactions")
				}
				var committed bool
				var intended *oracle.Image
				var terr error
				var step string
				if cfg.WAL {
					tx := pager.WTx{Frames: []uint32{1, 2, 3}, Outcome: "commit"}
					if i == 1 {
						tx = pager.WTx{Frames: []uint32{1, cur.N() + 1}, Outcome: "commit"}
						if cfg.Unwritten {
							// growth by two pages of which only the second gets a frame (the first is a free-list leaf allocated and
							// freed again): until a checkpoint extends the file that page is neither in the log nor in the file
							tx = pager.WTx{Frames: []uint32{1, cur.N() + 2}, NewSize: cur.N() + 2, FreeLeaves: true, Outcome: "commit"}
						}
						if cfg.Shrink {
							tx = pager.WTx{Frames: []uint32{1}, NewSize: cur.N() - 1, Outcome: "commit"}
						}
					}
					w := c.RunWTx(tx, cur)
					committed, intended, terr, step = w.Committed, w.Intended, w.Err, w.ErrStep
				} else {
					tx := pager.RTx{Mods: []uint32{2, 3}, Final: "DELETE", Outcome: "commit"}
					if i == 1 {
						tx = pager.RTx{Mods: []uint32{2}, NewSize: cur.N() + 1, Final: "TRUNCATE", Outcome: "commit"}
						if cfg.Shrink {
							tx = pager.RTx{NewSize: cur.N() - 1, Final: "DELETE", Outcome: "commit"}
						}
					}
					w := c.RunRTx(tx, cur)
					committed, intended, terr, step = w.Committed, w.Intended, w.Err, w.ErrStep
				}
				if terr != nil {
					wErrs = append(wErrs, fmt.Sprintf("tx%d failed at %q: %v", i, step, terr))
					return
				}
				if committed {
					cur = intended
					rec(cur)
				}
			}
		})
		if cfg.WAL && cfg.Ckpt {
			e.Go("K", func(th *sched.Thread) {
				c := pager.NewConn(n.M, "db", 2, ps)
				c.Busy = busy(3)
				defer c.Close()
				_ = c.Checkpoint("PASSIVE", 0)
				_ = c.Checkpoint("RESTART", 0)
			})
		}
		if cfg.Recover {
			e.Go("L", func(th *sched.Thread) {
				ctx, cancel := context.WithTimeout(context.Background(), 5*time.Second)
				defer cancel()
				_ = n.Store.Recover(ctx)
			})
		}
		e.Run(prefix)
		if e.Aborted() {
			return "aborted", nil
		}
		for _, name := range []string{"S", "W", "K", "L"} {
			_ = name
		}
		if codes := n.ExitCodes(); len(codes) > 0 {
			v("exit", "Store.Exit(%v) during the race", codes)
		}
		// ---- oracle ----
		if !sDone {
			return "S-not-finished", nil
		}
		if sErr != nil {
			cls := sErr.Error()
			if i := strings.Index(cls, ":"); i > 0 {
				cls = cls[:i]
			}
			return "S-error:" + cls, viol
		}
		var got *oracle.Image
		switch cfg.Op {
		case "snapshot":
			f, err := oracle.DecodeLTX(sBytes.Bytes())
			if err != nil {
				v("C10/snapshot-undecodable", "a successfully completed snapshot does not decode: %v", err)
				return "S-ok-undecodable", viol
			}
			got, err = f.Apply(nil)
			if err != nil {
				v("C10/snapshot-incomplete", "a successfully completed snapshot is not a full image: %v", err)
				return "S-ok-incomplete", viol
			}
		default:
			var err error
			got, err = oracle.ImageFromBytes(sBytes.Bytes(), ps)
			if err != nil {
				v("C10/export-shape", "export returned %d bytes: %v", sBytes.Len(), err)
				return "S-ok-badshape", viol
			}
		}
		if cfg.Op == "export-http" {
			// The position is not returned to the client: the bytes must be the image of some committed position.
			for p, im := range ref {
				if ok, _ := got.Equal(im); ok {
					return fmt.Sprintf("S-ok@%d", p[0]), viol
				}
			}
			v("C10/export-mixture/"+mode(cfg), "GET /export completed successfully but its bytes are not the image of any committed position (%d pages)", got.N())
			return "S-ok-mixture", viol
		}
		want, ok := ref[sPos]
		if !ok {
			v("C10/unknown-position/"+cfg.Op+"/"+mode(cfg), "%s completed successfully reporting position (%d,%016x), which was never committed", cfg.Op, sPos[0], sPos[1])
			return "S-ok-unknownpos", viol
		}
		if ok, d := got.Equal(want); !ok {
			which := "another position"
			found := false
			for p, im := range ref {
				if eq, _ := got.Equal(im); eq {
					which = fmt.Sprintf("the image of position %d", p[0])
					found = true
				}
			}
			if !found {
				which = "a mixture of positions / uncommitted data"
			}
			v("C10/wrong-image/"+cfg.Op+"/"+mode(cfg), "%s completed successfully reporting position (%d,%016x) but its content is %s: %s", cfg.Op, sPos[0], sPos[1], which, d)
			return "S-ok-wrongimage", viol
		}
		if len(wErrs) > 0 {
			return fmt.Sprintf("S-ok@%d;W-busy", sPos[0]), viol
		}
		return fmt.Sprintf("S-ok@%d", sPos[0]), viol
	}
}

func mode(c Config) string {
	if c.WAL {
		return "wal"
	}
	return "journal"
}

func TestCheck(t *testing.T) {
	reg := sched.Registry{"c10": harness}
	sched.ServeIfWorker(t, reg)
	if f := os.Getenv("VERIF_REPLAY"); f != "" {
		replay(t, reg, f)
	}
	run := vlib.Start("C10", "exploration")
	pool := vlib.NewPool()
	pool.CaseTimeout = 10 * time.Minute
	defer pool.Close()

	bound := 2
	cfgs := []Config{
		{WAL: true, Op: "snapshot", Ckpt: true},
		{WAL: true, Op: "export", Ckpt: true},
		{WAL: false, Op: "snapshot"},
		{WAL: false, Op: "export"},
		{WAL: true, Op: "export-http", Ckpt: true, Shrink: true},
		{WAL: true, Op: "export", Ckpt: true, NoPrior: true},
		{WAL: false, Op: "export", Hot: true},
		{WAL: true, Op: "export", Hot: true, Recover: true},
		{WAL: true, Op: "export", Ckpt: true, Unwritten: true},
	}
	jobBudget := 60 * time.Second
	if run.Thorough() {
		bound = 3
		jobBudget = 20 * time.Minute
		cfgs = append(cfgs,
			Config{WAL: true, Op: "snapshot", Ckpt: true, Recover: true},
			Config{WAL: true, Op: "export", Ckpt: true, Shrink: true},
			Config{WAL: false, Op: "snapshot", Recover: true, Shrink: true},
			Config{WAL: true, Op: "snapshot", Ckpt: false, Shrink: true},
		)
	}
	var all []any
	evals := 0
	distinct := map[string]bool{}
	var samples []any
	exhaustive := true
	for _, cfg := range cfgs {
		var tot sched.Totals
		b := bound
		if cfg.Op == "export-http" {
			b = bound - 1 // four threads here (client, handler, writer, checkpointer): one preemption less keeps the tier's cost
		}
		sched.Distributed(t, run, pool, reg, "c10", cfg, b, 3, jobBudget, &tot)
		okN := 0
		for k, n := range tot.Outcomes {
			distinct[fmt.Sprintf("%s/%s/%s", cfg.Op, mode(cfg), k)] = true
			if strings.HasPrefix(k, "S-ok@") {
				okN += n
			}
			if strings.HasPrefix(k, "harness-error") {
				run.HarnessError("%v: %s", cfg, k)
			}
		}
		if okN == 0 && run.NViolations() == 0 {
			run.HarnessError("vacuous harness %+v: the snapshot/export never succeeded (outcomes %v)", cfg, tot.Outcomes)
		}
		if len(tot.Capped) > 0 {
			exhaustive = false
		}
		evals += tot.Executions
		all = append(all, map[string]any{"config": cfg, "schedules": tot.Executions, "max_points_per_schedule": tot.MaxPoints, "outcomes": tot.Outcomes, "deadlocks": tot.Deadlocks, "subtree_jobs": tot.Jobs, "capped": tot.Capped, "trivial_points_elided": tot.Elided})
		samples = append(samples, map[string]any{"config": cfg, "outcomes": tot.Outcomes})
	}
	cov := map[string]any{
		"evaluations":         evals,
		"distinct_nontrivial": len(distinct),
		"preemption_bound":    bound,
		"harnesses":           all,
		"exhaustive":          exhaustive,
		"samples":             samples,
		"rule":                "every schedule of the harness threads with at most preemption_bound preemptions (DFS, replay-from-scratch per schedule; points at every non-trivial RWMutex operation, internal page write/truncate, every page of the snapshot / export output as its consumer takes it, between the writer's two transactions, and client WAL write); distinct_nontrivial = distinct (harness, outcome) classes where an outcome is the position the snapshot/export reported or its error class",
	}
	run.Finish(cov, []string{
		"Timer firings are ordered after all enabled computation (the fake clock advances only when no thread can be released); busy handlers retry on the fake clock.",
		"One writer connection, so the reference image of every committed position is known exactly; two concurrent writers are C11's subject.",
		"Data races invisible at lock granularity are outside a cooperative scheduler.",
	})
}

func replay(t *testing.T, reg sched.Registry, path string) {
	b, err := os.ReadFile(path)
	if err != nil {
		fmt.Println(err)
		os.Exit(2)
	}
	var f struct {
		Replay struct {
			Harness  string          `json:"harness"`
			Config   json.RawMessage `json:"config"`
			Schedule []int           `json:"schedule"`
		} `json:"replay"`
	}
	_ = json.Unmarshal(b, &f)
	h := reg[f.Replay.Harness](f.Replay.Config)
	fails := 0
	for i := 0; i < 5; i++ {
		var st sched.Stats
		sched.Explore(t, h, f.Replay.Schedule, -1, 0, 1, &st)
		if len(st.Violations) > 0 {
			fails++
			if i == 0 {
				for _, v := range st.Violations {
					fmt.Printf("REPLAY VIOLATION key=%s\n%s\ntrace=%v\n", v.Key, v.What, v.Trace)
				}
			}
		}
	}
	fmt.Printf("replay: violated in %d of 5 runs\n", fails)
	if fails > 0 {
		os.Exit(1)
	}
	os.Exit(0)
}


// pointWriter makes the consumer of a snapshot or export a scheduling point: the thread parks each time another
// `every` bytes (one page) have been produced, so that writers and checkpointers can run between any two pages
// of the output - a slow HTTP client or backup upload does exactly that.
type pointWriter struct {
	th    *sched.Thread
	w     io.Writer
	every int
	n     int
}

func (p *pointWriter) Write(b []byte) (int, error) {
	before := p.n / p.every
	p.n += len(b)
	if p.n/p.every != before {
		p.th.Point(fmt.Sprintf("output at %d bytes", p.n))
	}
	return p.w.Write(b)
}
