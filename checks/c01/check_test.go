// C01: a replica at (TXID, checksum) is byte-identical to the primary there; convergence.
//
// Breadth-first search over event histories (transactions of several shapes,
// partitions, stream cuts, restarts, retention, demotion/failover, handoff) on
// a real three-node cluster (in-process transport, fake clock), states merged
// by a canonical key that includes LiteFS's private caches. At every state a
// reader on every node reads the position and every page through a page cache
// that only LiteFS's explicit invalidations refresh.
package c01

import (
	"testing"
	"time"

	"verif/hist"
	"verif/vlib"
)

func TestCheck(t *testing.T) {
	hist.ServeIfWorker(t)
	run := vlib.Start("C01", "model_checking")
	pool := vlib.NewPool()
	defer pool.Close()

	full := []string{"tx:t1", "tx:tl", "tx:g1", "tx:gb", "tx:s1", "tx:sb", "tx:rb", "tx:ck", "part", "heal", "cut", "restart", "restartP", "retain", "demote", "handoff"}
	type job struct {
		name   string
		cfg    hist.Config
		depth  int
		budget time.Duration
	}
	jobs := []job{
		{"journal-255p", hist.Config{PageSize: 512, Start: 255, R2Starts: "partitioned", Alphabet: full}, 3, 50 * time.Second},
		{"wal-257p-lz4", hist.Config{PageSize: 512, Start: 257, WAL: true, Compress: true, R2Starts: "partitioned", Alphabet: full}, 3, 50 * time.Second},
		// Non-initial start states: R1 lagging by two behind a partition; a former primary ahead by one of an isolated new primary.
		{"journal-lagging-R1", hist.Config{PageSize: 512, Start: 3, R2Starts: "partitioned", Alphabet: full, Prelude: []string{"part:R1", "tx:a:t1", "tx:a:g1"}}, 3, 40 * time.Second},
		{"wal-fork-ahead-by-one", hist.Config{PageSize: 512, Start: 3, WAL: true, R2Starts: "partitioned", Alphabet: full, Prelude: []string{"part:R1", "tx:a:tl", "demote"}}, 2, 40 * time.Second},
		{"journal-fork-ahead-by-one", hist.Config{PageSize: 512, Start: 3, R2Starts: "absent", Alphabet: append([]string{"start"}, full...), Prelude: []string{"part:R1", "tx:a:g1", "demote"}}, 2, 40 * time.Second},
	}
	if run.Thorough() {
		jobs = []job{
			{"journal-255p", hist.Config{PageSize: 512, Start: 255, R2Starts: "partitioned", Alphabet: full}, 5, 15 * time.Minute},
			{"wal-257p-lz4", hist.Config{PageSize: 512, Start: 257, WAL: true, Compress: true, R2Starts: "partitioned", Alphabet: full}, 5, 15 * time.Minute},
			{"journal-4k-2db-filter", hist.Config{PageSize: 4096, Start: 3, SecondDB: true, FilterR2: true, Alphabet: full}, 4, 10 * time.Minute},
			{"wal-64k", hist.Config{PageSize: 65536, Start: 3, WAL: true, R2Starts: "absent", Alphabet: append([]string{"start"}, full...)}, 4, 10 * time.Minute},
			{"journal-lagging-R1", hist.Config{PageSize: 512, Start: 3, R2Starts: "partitioned", Alphabet: full, Prelude: []string{"part:R1", "tx:a:t1", "tx:a:g1"}}, 4, 10 * time.Minute},
			{"wal-lagging-R1", hist.Config{PageSize: 512, Start: 257, WAL: true, R2Starts: "partitioned", Alphabet: full, Prelude: []string{"part:R1", "tx:a:t1", "tx:a:sb"}}, 4, 10 * time.Minute},
			{"wal-fork-ahead-by-one", hist.Config{PageSize: 512, Start: 3, WAL: true, R2Starts: "partitioned", Alphabet: full, Prelude: []string{"part:R1", "tx:a:tl", "demote"}}, 4, 10 * time.Minute},
			{"journal-fork-ahead-by-one", hist.Config{PageSize: 512, Start: 3, R2Starts: "absent", Alphabet: append([]string{"start"}, full...), Prelude: []string{"part:R1", "tx:a:g1", "demote"}}, 4, 10 * time.Minute},
		}
	}
	var all []any
	states, transitions, maxDepth := 0, 0, 0
	exhaustive := true
	var classes vlib.Distinct
	var samples []any
	for _, j := range jobs {
		var st hist.Stats
		hist.Search(run, pool, j.cfg, j.depth, j.budget, &st)
		all = append(all, map[string]any{"job": j.name, "config": j.cfg, "depth_bound": j.depth, "states": st.States, "transitions": st.Transitions,
			"new_states_per_depth": st.PerDepth, "depth_completed": st.DepthDone, "frontier_exhausted": st.Exhausted, "capped": st.Capped, "classes": st.Classes.N()})
		states += st.States
		transitions += st.Transitions
		if st.DepthDone > maxDepth {
			maxDepth = st.DepthDone
		}
		if st.Capped != "" {
			exhaustive = false
		}
		for k, v := range st.Classes.Top(1000) {
			for i := 0; i < v; i++ {
				classes.Add(k)
			}
		}
		samples = append(samples, st.Samples...)
		if run.NViolations() > 0 {
			break
		}
	}
	if len(samples) == 0 {
		samples = append(samples, "no non-root state sampled")
	}
	cov := map[string]any{
		"states":                        states,
		"transitions":                   transitions,
		"traces_validated_against_impl": transitions,
		"max_depth":                     maxDepth,
		"exhaustive":                    exhaustive,
		"jobs":                          all,
		"distinct_event_outcome_classes": classes.N(),
		"samples":                       samples,
		"rule":                          "BFS over event histories on a real 3-node cluster; a state is the history that reaches it (replayed from scratch on fresh stores), merged by a canonical key over durable files, decoded LTX directories and DB.VerifDump() private caches; every history is an implementation trace. exhaustive=true means every history up to the depth bound was executed.",
	}
	if transitions < 10 && run.NViolations() == 0 {
		run.HarnessError("vacuous: %d transitions", transitions)
	}
	run.Finish(cov, []string{
		"Kernel page cache, POSIX lock owners and SQLite are simulated (DESIGN.md §2.3/2.4); HTTP client and server code are real, the socket is an in-process pipe.",
		"Quiescence is on the testing/synctest fake clock: up to 70 fake seconds for a single primary, 40 for convergence.",
		"Page contents are a function of (page, per-page version) so that histories reaching the same logical state merge.",
		"Mid-burst interleavings (stream vs commit at lock granularity) are the schedule search's subject (see C10/C11/C13 engines), not this history search.",
	})
}
