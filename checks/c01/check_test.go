// C01: a replica at (TXID, checksum) is byte-identical to the primary there; convergence.
//
// Breadth-first search over event histories (transactions of several shapes,
// partitions, stream cuts, restarts, retention, demotion/failover, handoff) on
// a real three-node cluster (in-process transport, fake clock), states merged
// by a canonical key that includes LiteFS's private caches. At every state a
// reader on every node reads the position and every page through a page cache
// that only LiteFS's explicit invalidations refresh.
package c01

import (
	"os"
	"strings"
	"testing"
	"time"

	"verif/hist"
	"verif/sched"
	"verif/vlib"
)

func TestCheck(t *testing.T) {
	reg := sched.Registry{"c01join": joinHarness}
	hist.ServeIfWorker2(t, sched.ServeJob(t, reg))
	if f := os.Getenv("VERIF_REPLAY"); f != "" {
		hist.Replay(t, f)
	}
	run := vlib.Start("C01", "model_checking")
	full := []string{"tx:t1", "tx:tl", "tx:g1", "tx:gb", "tx:s1", "tx:sb", "tx:rb", "tx:ck", "part", "heal", "cut", "restart", "restartP", "retain", "demote", "handoff"}
	type job struct {
		name   string
		cfg    hist.Config
		depth  int
		budget time.Duration
	}
	jobs := []job{
		{"journal-255p", hist.Config{PageSize: 512, Start: 255, R2Starts: "partitioned", Alphabet: full}, 3, 50 * time.Second},
		{"wal-257p-lz4", hist.Config{PageSize: 512, Start: 257, WAL: true, Compress: true, R2Starts: "partitioned", Alphabet: full}, 3, 50 * time.Second},
		// Non-initial start states: R1 lagging by two behind a partition; a former primary ahead by one of an isolated new primary.
		{"journal-lagging-R1", hist.Config{PageSize: 512, Start: 3, R2Starts: "partitioned", Alphabet: full, Prelude: []string{"part:R1", "tx:a:t1", "tx:a:g1"}}, 3, 40 * time.Second},
		{"wal-fork-ahead-by-one", hist.Config{PageSize: 512, Start: 3, WAL: true, R2Starts: "partitioned", Alphabet: full, Prelude: []string{"part:R1", "tx:a:tl", "demote"}}, 3, 40 * time.Second},
		{"journal-fork-ahead-by-one", hist.Config{PageSize: 512, Start: 3, R2Starts: "absent", Alphabet: append([]string{"start"}, full...), Prelude: []string{"part:R1", "tx:a:g1", "demote"}}, 3, 40 * time.Second},
	}
	// journal-mode round trips: WAL -> rollback journal -> WAL with the size changing in between
	roundTrip := job{"wal-mode-round-trip", hist.Config{PageSize: 512, Start: 3, WAL: true, R2Starts: "absent", Alphabet: []string{"fromwal", "towal", "tx:g1", "tx:s1", "tx:t1", "restart"}}, 4, 50 * time.Second}
	jobs = append(jobs, roundTrip)
	if run.Thorough() {
		roundTrip.depth, roundTrip.budget = 6, 10*time.Minute
		jobs = []job{
			roundTrip,
			{"journal-255p", hist.Config{PageSize: 512, Start: 255, R2Starts: "partitioned", Alphabet: full}, 5, 15 * time.Minute},
			{"wal-257p-lz4", hist.Config{PageSize: 512, Start: 257, WAL: true, Compress: true, R2Starts: "partitioned", Alphabet: full}, 5, 15 * time.Minute},
			{"journal-4k-2db-filter", hist.Config{PageSize: 4096, Start: 3, SecondDB: true, FilterR2: true, Alphabet: full}, 4, 10 * time.Minute},
			{"wal-64k", hist.Config{PageSize: 65536, Start: 3, WAL: true, R2Starts: "absent", Alphabet: append([]string{"start"}, full...)}, 4, 10 * time.Minute},
			{"journal-lagging-R1", hist.Config{PageSize: 512, Start: 3, R2Starts: "partitioned", Alphabet: full, Prelude: []string{"part:R1", "tx:a:t1", "tx:a:g1"}}, 4, 10 * time.Minute},
			{"wal-lagging-R1", hist.Config{PageSize: 512, Start: 257, WAL: true, R2Starts: "partitioned", Alphabet: full, Prelude: []string{"part:R1", "tx:a:t1", "tx:a:sb"}}, 4, 10 * time.Minute},
			{"wal-fork-ahead-by-one", hist.Config{PageSize: 512, Start: 3, WAL: true, R2Starts: "partitioned", Alphabet: full, Prelude: []string{"part:R1", "tx:a:tl", "demote"}}, 4, 10 * time.Minute},
			{"journal-fork-ahead-by-one", hist.Config{PageSize: 512, Start: 3, R2Starts: "absent", Alphabet: append([]string{"start"}, full...), Prelude: []string{"part:R1", "tx:a:g1", "demote"}}, 4, 10 * time.Minute},
		}
	}
	var hj []hist.Job
	for _, j := range jobs {
		hj = append(hj, hist.Job{Name: j.name, Cfg: j.cfg, Depth: j.depth, Budget: j.budget})
	}
	cov := hist.RunJobs(run, hj)
	// Part B: a replica joining through a snapshot while the primary commits, every schedule up to the preemption bound.
	{
		pool := vlib.NewPool()
		pool.CaseTimeout = 10 * time.Minute
		bound := 2
		if run.Thorough() {
			bound = 3
		}
		var info []any
		for _, cfg := range []JoinCfg{{WAL: false}, {WAL: true}} {
			var tot sched.Totals
			sched.Distributed(t, run, pool, reg, "c01join", cfg, bound, 3, 5*time.Minute, &tot)
			info = append(info, map[string]any{"config": cfg, "schedules": tot.Executions, "outcomes": tot.Outcomes, "max_points": tot.MaxPoints, "capped": tot.Capped})
			for k := range tot.Outcomes {
				if strings.HasPrefix(k, "harness-error") {
					run.HarnessError("%+v: %s", cfg, k)
				}
			}
		}
		pool.Close()
		cov["join_by_snapshot_racing_a_commit"] = map[string]any{"preemption_bound": bound, "configs": info}
	}
	run.Finish(cov, append(hist.CommonAssumptions,
		"Mid-burst interleavings (stream vs commit at lock granularity) are the schedule search's subject (see C10/C11/C13 engines), not this history search."))
}
