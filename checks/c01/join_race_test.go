// C01 part B: a replica that joins through a snapshot while the primary commits.
//
// The primary's /stream handler serving the joining replica is a scheduled thread (H), an application transaction
// on the primary is another (W). Every schedule up to the preemption bound: wherever the commit lands - before the
// snapshot, while its pages are sent, between its end and the bookkeeping that follows - the replica has the
// primary's position and content thirty fake seconds later, without any further commit to nudge it.
package c01

import (
	"encoding/json"
	"fmt"
	"testing"
	"time"

	"verif/lab"
	"verif/mon"
	"verif/oracle"
	"verif/pager"
	"verif/sched"
)

type JoinCfg struct {
	WAL bool `json:"wal"`
}

func joinHarness(cfgJSON json.RawMessage) sched.Harness {
	var cfg JoinCfg
	_ = json.Unmarshal(cfgJSON, &cfg)
	return func(t *testing.T, e *sched.Exec, prefix []int) (obs string, viol []sched.Violation) {
		v := func(key, format string, args ...any) {
			for _, x := range viol {
				if x.Key == key {
					return
				}
			}
			viol = append(viol, sched.Violation{Key: key, What: fmt.Sprintf(format, args...)})
		}
		const ps = 512
		cl := lab.NewCluster(10 * time.Second)
		defer cl.Close()
		// the first handler the primary starts is thread H; later ones (a reconnect) run freely
		hch := make(chan func(), 1)
		taken := false
		cl.Net.Spawn = func(fn func()) {
			if !taken {
				taken = true
				hch <- fn
				return
			}
			go fn()
		}
		cl.AddNode("P", true, nil)
		cl.AddNode("R2", false, nil)
		if err := cl.Start("P"); err != nil || cl.WaitPrimary(5*time.Second) == nil {
			return "harness-error:start", nil
		}
		P, R := cl.Nodes["P"], cl.Nodes["R2"]
		c := pager.NewConn(P.M, "db", 9, ps)
		r := c.RunRTx(pager.RTx{Create: true, NewSize: 4, Final: "DELETE", Outcome: "commit"}, nil)
		if r.Err == nil {
			r = c.RunRTx(pager.RTx{Mods: []uint32{2}, Final: "DELETE", Outcome: "commit", ToWAL: cfg.WAL}, r.Intended)
		}
		c.Close()
		if r.Err != nil || !r.Committed {
			return "harness-error:setup", nil
		}
		img0 := r.Intended
		if cfg.WAL {
			w := c.RunWTx(pager.WTx{Frames: []uint32{1, 3}, Outcome: "commit"}, img0)
			c.Close()
			if w.Err != nil || !w.Committed {
				return "harness-error:setupwal", nil
			}
			img0 = w.Intended
		}
		// the replica starts and asks for the stream; its request waits for thread H
		if err := cl.Start("R2"); err != nil {
			return "harness-error:startR2", nil
		}
		if !lab.WaitFor(20*time.Second, func() bool { return len(hch) == 1 }) {
			return "harness-error:no-stream-request", nil
		}
		e.Go("H", func(th *sched.Thread) { (<-hch)() })
		var committed bool
		var imgW *oracle.Image
		e.Go("W", func(th *sched.Thread) {
			wc := pager.NewConn(P.M, "db", 21, ps)
			tries := 0
			wc.Busy = func() bool { tries++; time.Sleep(300 * time.Microsecond); return tries < 50 }
			defer wc.Close()
			if cfg.WAL {
				w := wc.RunWTx(pager.WTx{Frames: []uint32{1, 2}, Outcome: "commit"}, img0)
				committed, imgW = w.Committed, w.Intended
			} else {
				w := wc.RunRTx(pager.RTx{Mods: []uint32{2, 3}, Final: "DELETE", Outcome: "commit"}, img0)
				committed, imgW = w.Committed, w.Intended
			}
		})
		// thirty quiet fake seconds after the threads have nothing left to do, judge and hang up (which ends H)
		judged := make(chan struct{})
		go func() {
			defer close(judged)
			time.Sleep(30 * time.Second)
			want := img0
			if committed {
				want = imgW
			}
			pp := P.DB("db").Pos()
			d := R.DB("db")
			switch {
			case d == nil:
				v("C01/join/no-database", "thirty seconds after joining the replica does not have the database (primary at %s)", pp)
			case d.Pos() != pp:
				v("C01/join/no-convergence", "thirty seconds after the last commit the joined replica is at %s, the primary at %s (writer committed=%v)", d.Pos(), pp, committed)
			default:
				_, fs := mon.CheckDB(R, "db", want)
				for _, f := range fs {
					v("C01/join/"+f.Prop+"-"+f.Key, "joined replica at %s: %s", pp, f.What)
				}
			}
			for _, n := range []*lab.Node{P, R} {
				if codes := n.ExitCodes(); len(codes) > 0 {
					v("C01/join/exit", "%s called Store.Exit(%v)", n.Cfg.Name, codes)
				}
			}
			_ = R.Stop()
		}()
		e.Run(prefix)
		<-judged
		if e.Aborted() {
			return "aborted", viol
		}
		return fmt.Sprintf("committed=%v", committed), viol
	}
}
