// C19: the HTTP proxy gives read-your-writes and never runs writes on a replica.
//
// Exhaustive request matrix against the real ProxyServer handler inside a
// synctest bubble (its 5 s time-outs run on the fake clock): method x path class
// (plain, passthrough, always-forward, both, health) x __txid cookie (absent,
// malformed, behind, equal, ahead by one, far ahead) x node role (primary,
// replica with a known primary, node with no primary) x delivery timing of the
// missing transaction (immediately, after 1 or 5 polling intervals, never).
// The upstream application is a stub HTTP server behind an in-memory dialer
// that logs every request with the tracked database's position on arrival and,
// for writes on the primary, commits a transaction before replying.
package c19

import (
	"github.com/superfly/litefs"
	"context"
	"encoding/json"
	"fmt"
	"net"
	"net/http"
	"net/http/httptest"
	"regexp"
	"runtime/debug"
	"strings"
	"sync"
	"testing"
	"testing/synctest"
	"time"

	lfshttp "github.com/superfly/litefs/http"
	"github.com/superfly/ltx"
	"verif/lab"
	"verif/oracle"
	"verif/pager"
	"verif/prog"
	"verif/vlib"
)

const ps = 512

type Case struct {
	Role    string `json:"role"`   // primary | replica | orphan
	// FailedPromotion (replica only): before the request the replica won the lease once and had to give it back.
	FailedPromotion bool `json:"failed_promotion,omitempty"`
	Method  string `json:"method"`
	Path    string `json:"path"`   // plain | pass | fwd | both | health
	Cookie  string `json:"cookie"` // absent | malformed | behind | equal | ahead1 | far
	Deliver int    `json:"deliver"` // for ahead1 on a replica: -1 never, else after that many polling intervals
	// Tracked: "" = the tracked database has transactions; "zero" = it exists (created by the first stream frame
	// or a file create) but nothing has been applied yet, position 0.
	Tracked string `json:"tracked,omitempty"`
}

type Result struct {
	V       []prog.V `json:"v,omitempty"`
	Class   string   `json:"class"`
	Harness string   `json:"harness,omitempty"`
}

type pipeListener struct {
	ch     chan net.Conn
	closed chan struct{}
	once   sync.Once
}

func (l *pipeListener) Accept() (net.Conn, error) {
	select {
	case c := <-l.ch:
		return c, nil
	case <-l.closed:
		return nil, net.ErrClosed
	}
}
func (l *pipeListener) Close() error   { l.once.Do(func() { close(l.closed) }); return nil }
func (l *pipeListener) Addr() net.Addr { return &net.TCPAddr{IP: net.IPv4(127, 0, 0, 1), Port: 8080} }

type seen struct {
	Method string
	Path   string
	TXID   uint64 // position of the tracked database on arrival
	Cookie string
	Body   string
}

func pathOf(class string) string {
	switch class {
	case "plain":
		return "/app/x"
	case "pass":
		return "/pass/1"
	case "fwd":
		return "/fwd/1"
	case "both":
		return "/pass/fwd"
	case "health":
		return "/litefs/health"
	case "query":
		// the path matches no pattern; the query string would match the passthrough pattern *.png and the always-forward pattern /fwd/*
		return "/app/x?next=/fwd/1&img=/static/logo.png"
	case "png":
		return "/static/logo.png"
	case "pngx":
		// starts like something the passthrough pattern *.png matches, but goes on: an ordinary path
		return "/static/logo.png/delete"
	case "fwdnl":
		// an always-forward path with an (encoded) line break in it
		return "/fwd/a%0Ab"
	}
	return "/"
}

func run1(t *testing.T, c Case) (res Result) {
	viol := func(key, format string, args ...any) {
		for _, v := range res.V {
			if v.Key == key {
				return
			}
		}
		b, _ := json.Marshal(c)
		res.V = append(res.V, prog.V{Key: key, What: fmt.Sprintf(format, args...) + "\ncase: " + string(b)})
	}
	synctest.Test(t, func(t *testing.T) {
		defer func() {
			if p := recover(); p != nil {
				viol(prog.PanicKey(p, debug.Stack()), "panic: %v\n%s", p, debug.Stack())
			}
		}()
		cl := lab.NewCluster(10 * time.Second)
		defer cl.Close()
		failedPromotion := c.Role == "replica" && c.FailedPromotion
		cl.AddNode("P", true, func(cfg *lab.NodeConfig) { cfg.DemoteDelay = 3 * time.Second })
		cl.AddNode("R1", failedPromotion, nil)
		var N *lab.Node
		var img *oracle.Image
		if c.Role == "orphan" {
			// a non-candidate node with nobody holding the lease
			if err := cl.Start("R1"); err != nil {
				res.Harness = err.Error()
				return
			}
			N = cl.Nodes["R1"]
		} else {
			if err := cl.Start("P"); err != nil || cl.WaitPrimary(5*time.Second) == nil {
				res.Harness = "start P"
				return
			}
			if err := cl.Start("R1"); err != nil {
				res.Harness = err.Error()
				return
			}
			conn := pager.NewConn(cl.Nodes["P"].M, "db", 1, ps)
			r := conn.RunRTx(pager.RTx{Create: true, NewSize: 3, Final: "DELETE", Outcome: "commit"}, nil)
			for i := 0; i < 2 && r.Err == nil; i++ {
				lab.Settle(200 * time.Millisecond)
				r = conn.RunRTx(pager.RTx{Mods: []uint32{2}, Final: "DELETE", Outcome: "commit"}, r.Intended)
			}
			conn.Close()
			if r.Err != nil || !r.Committed {
				res.Harness = "setup tx"
				return
			}
			img = r.Intended
			if ok, why := cl.WaitConverged(20*time.Second, nil); !ok {
				res.Harness = "converge: " + why
				return
			}
			N = cl.Nodes["P"]
			if c.Role == "replica" {
				N = cl.Nodes["R1"]
			}
			if failedPromotion {
				// The replica wins the lease once (the primary is demoted), the step right after the acquisition fails,
				// it gives the lease back and the former primary returns: a replica again, like any other.
				prev, failed := "", false
				cl.Svc.Script = func(node, call string) (lab.Deviation, bool) {
					if node != "R1" {
						return lab.Deviation{}, false
					}
					was := prev
					prev = call
					if call == "ClusterID" && was == "Acquire" && !failed {
						failed = true
						return lab.Deviation{Err: fmt.Errorf("injected: lease store unavailable")}, true
					}
					if call == "Acquire" && failed {
						return lab.Deviation{Err: litefs.ErrPrimaryExists}, true
					}
					return lab.Deviation{}, false
				}
				cl.Nodes["P"].Store.Demote()
				if !lab.WaitFor(30*time.Second, func() bool { return failed }) || !lab.WaitFor(60*time.Second, cl.Nodes["P"].Store.IsPrimary) {
					res.Harness = "failed-promotion prelude did not complete"
					return
				}
				if ok, why := cl.WaitConverged(20*time.Second, nil); !ok {
					res.Harness = "converge after failed promotion: " + why
					return
				}
			}
		}
		P := cl.Nodes["P"]
		tracked := "db"
		if c.Tracked == "zero" {
			tracked = "fresh"
			if _, err := N.Store.CreateDBIfNotExists(tracked); err != nil {
				res.Harness = err.Error()
				return
			}
		}
		curTXID := func() uint64 {
			if db := N.DB(tracked); db != nil {
				return uint64(db.Pos().TXID)
			}
			return 0
		}
		// ---- stub application ----
		var mu sync.Mutex
		var log []seen
		var committedByStub uint64
		ln := &pipeListener{ch: make(chan net.Conn), closed: make(chan struct{})}
		srv := &http.Server{Handler: http.HandlerFunc(func(w http.ResponseWriter, r *http.Request) {
			mu.Lock()
			ck := ""
			if c, _ := r.Cookie(lfshttp.TXIDCookieName); c != nil {
				ck = c.Value
			}
			log = append(log, seen{Method: r.Method, Path: r.URL.Path, TXID: curTXID(), Cookie: ck})
			mu.Unlock()
			if r.Method != "GET" && r.Method != "HEAD" && N.Store.IsPrimary() && img != nil {
				wc := pager.NewConn(N.M, "db", 60, ps)
				rr := wc.RunRTx(pager.RTx{Mods: []uint32{3}, Final: "DELETE", Outcome: "commit"}, img)
				wc.Close()
				if rr.Committed {
					img = rr.Intended
					mu.Lock()
					committedByStub = curTXID()
					mu.Unlock()
				}
			}
			w.Header().Set("X-Stub", "1")
			// the application has cookies of its own (a session), two of them: the proxy's cookie comes on top
			w.Header().Add("Set-Cookie", "session=abc; Path=/")
			w.Header().Add("Set-Cookie", "theme=dark; Path=/")
			w.WriteHeader(200)
			_, _ = w.Write([]byte("stub-ok"))
		})}
		go func() { _ = srv.Serve(ln) }()
		defer func() { _ = srv.Close(); _ = ln.Close() }()

		proxy := lfshttp.NewProxyServer(N.Store)
		proxy.Target = "app.internal:8080"
		proxy.DBName = tracked
		// the patterns are compiled from globs the way cmd/litefs compiles the configuration file's
		mustGlob := func(g string) *regexp.Regexp {
			re, err := lfshttp.CompileMatch(g)
			if err != nil {
				panic(err)
			}
			return re
		}
		proxy.Passthroughs = []*regexp.Regexp{mustGlob("/pass/*"), mustGlob("*.png")}
		proxy.AlwaysForward = []*regexp.Regexp{mustGlob("/fwd/*"), mustGlob("/pass/fwd")}
		proxy.HTTPTransport = &http.Transport{
			DisableKeepAlives: true,
			DialContext: func(ctx context.Context, network, addr string) (net.Conn, error) {
				a, b := net.Pipe()
				select {
				case ln.ch <- b:
					return a, nil
				case <-ctx.Done():
					return nil, ctx.Err()
				}
			},
		}
		defer proxy.HTTPTransport.CloseIdleConnections()

		// ---- the request ----
		base := curTXID()
		req := httptest.NewRequest(c.Method, "http://proxy"+pathOf(c.Path), strings.NewReader("payload"))
		var want uint64
		switch c.Cookie {
		case "malformed":
			req.AddCookie(&http.Cookie{Name: lfshttp.TXIDCookieName, Value: "zz-not-hex"})
		case "behind":
			want = base - 1
		case "equal":
			want = base
		case "ahead1":
			want = base + 1
		case "far":
			want = base + 1000
		}
		if want > 0 {
			req.AddCookie(&http.Cookie{Name: lfshttp.TXIDCookieName, Value: ltx.TXID(want).String()})
		}
		rec := httptest.NewRecorder()
		done := make(chan struct{})
		start := time.Now()
		go func() {
			defer close(done)
			proxy.VerifHandler().ServeHTTP(rec, req)
		}()
		synctest.Wait()
		// delivery of the missing transaction
		if c.Cookie == "ahead1" && c.Deliver >= 0 && c.Role != "orphan" && img != nil {
			time.Sleep(time.Duration(c.Deliver) * time.Millisecond)
			synctest.Wait()
			wc := pager.NewConn(P.M, "db", 70, ps)
			rr := wc.RunRTx(pager.RTx{Mods: []uint32{2}, Final: "DELETE", Outcome: "commit"}, img)
			wc.Close()
			if rr.Committed {
				img = rr.Intended
			}
		}
		deadline := 12 * time.Second
		finished := lab.WaitFor(deadline, func() bool {
			select {
			case <-done:
				return true
			default:
				return false
			}
		})
		elapsed := time.Since(start)
		if !finished {
			viol("C19/no-response", "the proxy did not answer within %s of fake time", deadline)
			<-done
			return
		}
		resp := rec.Result()
		mu.Lock()
		reached := append([]seen(nil), log...)
		stubTX := committedByStub
		mu.Unlock()

		isRead := c.Method == "GET" || c.Method == "HEAD"
		pass := c.Path == "pass" || c.Path == "both" || c.Path == "png"
		alwaysFwd := c.Path == "fwd" || c.Path == "both" || c.Path == "fwdnl"
		health := c.Path == "health" && c.Method == "GET" && !pass
		treatedAsRead := isRead && !alwaysFwd
		res.Class = fmt.Sprintf("%d/reached=%d", resp.StatusCode, len(reached))

		switch {
		case pass:
			// passthrough: reaches the application unchanged in every role
			if len(reached) != 1 || resp.StatusCode != 200 {
				viol("C19/passthrough-not-forwarded/"+c.Role, "a request matching a passthrough pattern did not reach the application (status %d, reached %d)", resp.StatusCode, len(reached))
			} else if reached[0].Method != c.Method || reached[0].Path != pathOf(c.Path) {
				viol("C19/passthrough-altered", "passthrough request arrived as %s %s", reached[0].Method, reached[0].Path)
			}
		case health:
			if len(reached) != 0 {
				viol("C19/health-forwarded", "the health endpoint was forwarded to the application")
			}
		case treatedAsRead:
			if want > 0 && N.DB(tracked) != nil {
				if len(reached) > 0 && reached[0].TXID < want {
					viol("C19/stale-read/"+c.Role+"/"+c.Cookie, "a read carrying cookie TXID %d was forwarded to the application while the local database was at TXID %d", want, reached[0].TXID)
				}
				canCatchUp := want <= base || (c.Cookie == "ahead1" && c.Deliver >= 0 && c.Role != "orphan")
				if canCatchUp {
					if resp.StatusCode != 200 || len(reached) != 1 {
						viol("C19/read-not-served/"+c.Role+"/"+c.Cookie, "the database reached cookie TXID %d (delivery after %d intervals) but the read ended with status %d after %s (reached %d)", want, c.Deliver, resp.StatusCode, elapsed, len(reached))
					}
				} else {
					if resp.StatusCode != http.StatusGatewayTimeout || len(reached) != 0 {
						viol("C19/read-not-timed-out/"+c.Role+"/"+c.Cookie, "the database never reached cookie TXID %d but the read ended with status %d (reached %d)", want, resp.StatusCode, len(reached))
					}
				}
			} else if len(reached) != 1 || resp.StatusCode != 200 {
				viol("C19/plain-read-not-served/"+c.Role, "a read without a usable cookie was not served (status %d, reached %d)", resp.StatusCode, len(reached))
			}
		default: // non-read or always-forward
			switch c.Role {
			case "primary":
				if len(reached) != 1 || resp.StatusCode != 200 {
					viol("C19/write-not-served-on-primary", "a write on the primary was not forwarded to the application (status %d)", resp.StatusCode)
				}
				var cookieTX uint64
				own := 0
				for _, ck := range resp.Cookies() {
					if ck.Name == lfshttp.TXIDCookieName {
						v, _ := ltx.ParseTXID(ck.Value)
						cookieTX = uint64(v)
					}
					if ck.Name == "session" || ck.Name == "theme" {
						own++
					}
				}
				if len(reached) == 1 && resp.StatusCode == 200 && own != 2 {
					viol("C19/application-cookie-lost", "the application set two cookies of its own, the response carries %d of them", own)
				}
				if !isRead && c.Tracked == "" { // with the tracked database at position 0 the stub's write goes to another database: no position to name
					if cookieTX == 0 {
						viol("C19/no-cookie-after-write", "no %s cookie was issued after a proxied write on the primary", lfshttp.TXIDCookieName)
					} else if cookieTX < stubTX {
						viol("C19/cookie-before-write", "the cookie issued after the write names TXID %d but the application committed TXID %d while serving it", cookieTX, stubTX)
					}
				}
			case "replica":
				if len(reached) != 0 {
					viol("C19/write-ran-on-replica/"+c.Method, "a %s request (path class %s) was forwarded to the local application on a replica", c.Method, c.Path)
				}
				if got := resp.Header.Get("fly-replay"); got != "instance=P" {
					viol("C19/no-replay-header", "a write on a replica was answered with status %d and fly-replay=%q, want instance=P", resp.StatusCode, got)
				}
			case "orphan":
				if len(reached) != 0 {
					viol("C19/write-ran-without-primary", "a write was forwarded to the local application on a node that knows no primary")
				}
				if resp.StatusCode != http.StatusServiceUnavailable {
					viol("C19/no-503-without-primary", "a write on a node that knows no primary was answered with %d, want 503", resp.StatusCode)
				}
			}
		}
	})
	return res
}

func TestCheck(t *testing.T) {
	if vlib.IsWorker() {
		vlib.Serve(func(in json.RawMessage) any {
			var c Case
			if err := json.Unmarshal(in, &c); err != nil {
				return Result{Harness: "bad case"}
			}
			return run1(t, c)
		})
	}
	run := vlib.Start("C19", "model_checking")
	var cases []Case
	for _, role := range []string{"primary", "replica", "orphan"} {
		for _, m := range []string{"GET", "HEAD", "POST", "PUT", "PATCH", "DELETE", "OPTIONS"} {
			for _, p := range []string{"plain", "pass", "fwd", "both", "health", "query", "png", "pngx", "fwdnl"} {
				for _, ck := range []string{"absent", "malformed", "behind", "equal", "ahead1", "far"} {
					if role == "orphan" && ck != "absent" && ck != "far" && ck != "malformed" {
						continue // no database on an orphan: cookie relations are meaningless
					}
					if ck == "ahead1" && role == "replica" {
						for _, d := range []int{0, 1, 5, 4999, -1} {
							cases = append(cases, Case{Role: role, Method: m, Path: p, Cookie: ck, Deliver: d})
						}
						continue
					}
					d := -1
					cases = append(cases, Case{Role: role, Method: m, Path: p, Cookie: ck, Deliver: d})
				}
			}
		}
	}
	for _, role := range []string{"primary", "replica", "orphan"} {
		for _, m := range []string{"GET", "HEAD", "POST"} {
			for _, ck := range []string{"absent", "ahead1", "far"} {
				cases = append(cases, Case{Role: role, Method: m, Path: "plain", Cookie: ck, Deliver: -1, Tracked: "zero"})
			}
		}
	}
	// a replica that won the lease once and had to give it back (the step after the acquisition failed)
	for _, m := range []string{"GET", "POST", "DELETE"} {
		for _, p := range []string{"plain", "pass", "fwd"} {
			cases = append(cases, Case{Role: "replica", Method: m, Path: p, Cookie: "absent", Deliver: -1, FailedPromotion: true})
		}
	}
	pool := vlib.NewPool()
	pool.CaseTimeout = 2 * time.Minute
	defer pool.Close()
	anyCases := make([]any, len(cases))
	for i := range cases {
		anyCases[i] = cases[i]
	}
	var classes vlib.Distinct
	var samples []any
	pool.Run(anyCases, func(i int, out json.RawMessage, crash *vlib.Crash, flaky bool) {
		if flaky {
			run.HarnessError("case crashed once and passed on re-run: %+v", cases[i])
		}
		if crash != nil {
			run.Violation("crash/"+cases[i].Role, fmt.Sprintf("worker died twice on %+v (timeout=%v)\n%s", cases[i], crash.Timeout, tail(crash.Output, 2500)), map[string]any{"case": cases[i]})
			return
		}
		var r Result
		if err := json.Unmarshal(out, &r); err != nil {
			run.HarnessError("bad result: %v", err)
			return
		}
		if r.Harness != "" {
			run.HarnessError("%s (case %+v)", r.Harness, cases[i])
		}
		for _, v := range r.V {
			run.Violation(v.Key, v.What, map[string]any{"case": cases[i]})
		}
		classes.Add(fmt.Sprintf("%s%s/%v/%s/%s=%s", cases[i].Role, cases[i].Tracked, cases[i].Method == "GET" || cases[i].Method == "HEAD", cases[i].Path, cases[i].Cookie, r.Class))
		if len(samples) < 8 && i%97 == 0 {
			samples = append(samples, map[string]any{"case": cases[i], "outcome": r.Class})
		}
	})
	cov := map[string]any{
		"states":                        len(cases),
		"transitions":                   len(cases),
		"traces_validated_against_impl": len(cases),
		"requests":                      len(cases),
		"distinct_outcome_classes":      classes.N(),
		"exhaustive":                    true,
		"samples":                       samples,
		"rule":                          "every (role x method x path class x cookie relation x delivery timing) request, each on a fresh cluster, plus the plain-path requests against a tracked database that exists at position 0; the missing transaction for an 'ahead by one' cookie on a replica is delivered after 0, 1, 5 or 4999 polling intervals (1 ms) or never",
	}
	if classes.N() < 10 && run.NViolations() == 0 {
		run.HarnessError("vacuous: %d classes", classes.N())
	}
	run.Finish(cov, []string{
		"The upstream application is a stub behind an in-memory dialer installed in ProxyServer.HTTPTransport; the proxy's own listener and server time-outs are not exercised.",
		"Time-outs (PollTXIDTimeout 5 s, PrimaryRedirectTimeout 5 s) run on the fake clock.",
	})
}

func tail(s string, n int) string {
	if len(s) > n {
		return s[len(s)-n:]
	}
	return s
}
