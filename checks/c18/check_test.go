// C18: stream frames, position maps and chunked bodies round-trip and fail safely.
//
// Exhaustive input enumeration over the real codecs: every value of the
// alphabet is encoded by the real writer and decoded by the real reader under
// every split of the bytes into at most three reads (all splits for encodings
// up to 64 bytes; for longer ones all splits with both cut points in the first
// 40 or last 8 bytes, plus one byte at a time); every proper prefix (same
// coverage rule) followed by EOF must yield an error; hostile length fields are
// decoded inside worker subprocesses under an address-space limit while
// allocation is measured.
package c18

import (
	"bytes"
	"encoding/binary"
	"encoding/json"
	"errors"
	"fmt"
	"io"
	"reflect"
	"runtime"
	"runtime/debug"
	"strings"
	"testing"

	"github.com/superfly/litefs"
	lfshttp "github.com/superfly/litefs/http"
	"github.com/superfly/ltx"
	"verif/vlib"
)

// pieceReader returns exactly the given pieces, one per Read call (split further only by len(p)).
type pieceReader struct {
	pieces [][]byte
	final  error
}

func (r *pieceReader) Read(p []byte) (int, error) {
	for len(r.pieces) > 0 && len(r.pieces[0]) == 0 {
		r.pieces = r.pieces[1:]
	}
	if len(r.pieces) == 0 {
		if r.final != nil {
			return 0, r.final
		}
		return 0, io.EOF
	}
	n := copy(p, r.pieces[0])
	r.pieces[0] = r.pieces[0][n:]
	return n, nil
}

func splits(b []byte, fn func(pieces [][]byte)) int {
	L := len(b)
	n := 0
	ok := func(i int) bool { return L <= 64 || i <= 40 || i >= L-8 }
	for i := 0; i <= L; i++ {
		if !ok(i) {
			continue
		}
		for j := i; j <= L; j++ {
			if !ok(j) {
				continue
			}
			fn([][]byte{b[:i], b[i:j], b[j:]})
			n++
		}
	}
	// one byte at a time
	var one [][]byte
	for i := range b {
		one = append(one, b[i:i+1])
	}
	fn(one)
	return n + 1
}

func prefixes(b []byte, fn func(prefix []byte)) int {
	L := len(b)
	n := 0
	for i := 0; i < L; i++ {
		if L > 64 && !(i < 64 || i >= L-16 || i%4096 == 0) {
			continue
		}
		fn(b[:i])
		n++
	}
	return n
}

type codec struct {
	name   string
	encode func() ([]byte, error)
	// decode must consume one value from r and return it in comparable form.
	decode func(r io.Reader) (any, error)
	value  any
	// emptyIsCleanEOF: a zero-length input may be reported as io.EOF (clean end between values).
	emptyIsCleanEOF bool
}

func guardedDecode(c codec, r io.Reader) (v any, err error, panicked string) {
	defer func() {
		if p := recover(); p != nil {
			panicked = fmt.Sprintf("%v\n%s", p, debug.Stack())
		}
	}()
	v, err = c.decode(r)
	return
}

func names() map[string]string {
	all := make([]byte, 256)
	for i := range all {
		all[i] = byte(i)
	}
	big := bytes.Repeat([]byte("0123456789abcdef"), 4096) // 65536
	return map[string]string{"empty": "", "a": "a", "255": strings.Repeat("x", 255), "allbytes": string(all), "64k": string(big)}
}

var ints = []uint64{0, 1, 1 << 31, 1<<32 - 1, 1 << 63, 1<<64 - 1}

func frameCodecs() []codec {
	var out []codec
	add := func(name string, f litefs.StreamFrame) {
		out = append(out, codec{
			name:  "frame/" + name,
			value: f,
			encode: func() ([]byte, error) {
				var buf bytes.Buffer
				err := litefs.WriteStreamFrame(&buf, f)
				return buf.Bytes(), err
			},
			decode: func(r io.Reader) (any, error) {
				g, err := litefs.ReadStreamFrame(r)
				if err != nil {
					return nil, err
				}
				return g, nil
			},
			emptyIsCleanEOF: true,
		})
	}
	add("ready", &litefs.ReadyStreamFrame{})
	add("end", &litefs.EndStreamFrame{})
	for nn, nv := range names() {
		for _, iv := range ints {
			add(fmt.Sprintf("ltx/%s/%d", nn, iv), &litefs.LTXStreamFrame{Size: int64(iv), Name: nv})
			add(fmt.Sprintf("hwm/%s/%d", nn, iv), &litefs.HWMStreamFrame{TXID: ltx.TXID(iv), Name: nv})
		}
		add("dropdb/"+nn, &litefs.DropDBStreamFrame{Name: nv})
		add("handoff/"+nn, &litefs.HandoffStreamFrame{LeaseID: nv})
	}
	for _, iv := range ints {
		add(fmt.Sprintf("heartbeat/%d", iv), &litefs.HeartbeatStreamFrame{Timestamp: int64(iv)})
	}
	return out
}

func posMapCodecs() []codec {
	var out []codec
	nm := names()
	maps := []map[string]ltx.Pos{
		{},
		{"": {TXID: 1, PostApplyChecksum: 1 << 63}},
		{"a": {TXID: ltx.TXID(1<<64 - 1), PostApplyChecksum: ltx.Checksum(1<<64 - 1)}},
		{"a": {}, "b": {TXID: 2, PostApplyChecksum: 3}},
		{"": {TXID: 5}, nm["255"]: {TXID: 1 << 31, PostApplyChecksum: 1 << 32}, nm["allbytes"]: {TXID: 9}},
		{nm["64k"]: {TXID: 7, PostApplyChecksum: 8}},
	}
	for i, m := range maps {
		m := m
		out = append(out, codec{
			name:  fmt.Sprintf("posmap/%d", i),
			value: m,
			encode: func() ([]byte, error) {
				var buf bytes.Buffer
				err := lfshttp.WritePosMapTo(&buf, m)
				return buf.Bytes(), err
			},
			decode: func(r io.Reader) (any, error) {
				g, err := lfshttp.ReadPosMapFrom(r)
				if err != nil {
					return nil, err
				}
				return g, nil
			},
		})
	}
	return out
}

func chunkCodecs() []codec {
	var out []codec
	sizes := []int{0, 1, 65534, 65535, 65536, 65537, 131070, 131071}
	writeSplits := []string{"one", "at1", "at65535"}
	readBufs := []int{1, 7, 65535, 65536, 1 << 20}
	for _, sz := range sizes {
		payload := make([]byte, sz)
		for i := range payload {
			payload[i] = byte(i*7 + i>>8)
		}
		for _, ws := range writeSplits {
			for _, rb := range readBufs {
				if rb == 1 && sz > 70000 {
					continue // one byte per read over 128 KiB x every split is covered by rb=7
				}
				sz, ws, rb, payload := sz, ws, rb, payload
				out = append(out, codec{
					name:  fmt.Sprintf("chunk/%d/%s/rb%d", sz, ws, rb),
					value: payload,
					encode: func() ([]byte, error) {
						var buf bytes.Buffer
						w := litefs.VerifChunkWriter(&buf)
						var err error
						switch {
						case ws == "at1" && sz > 1:
							if _, err = w.Write(payload[:1]); err == nil {
								_, err = w.Write(payload[1:])
							}
						case ws == "at65535" && sz > 65535:
							if _, err = w.Write(payload[:65535]); err == nil {
								_, err = w.Write(payload[65535:])
							}
						default:
							_, err = w.Write(payload)
						}
						if err == nil {
							err = w.Close()
						}
						return buf.Bytes(), err
					},
					decode: func(r io.Reader) (any, error) {
						cr := litefs.VerifChunkReader(r)
						var got []byte
						buf := make([]byte, rb)
						for i := 0; ; i++ {
							n, err := cr.Read(buf)
							got = append(got, buf[:n]...)
							if err == io.EOF {
								return got, nil
							} else if err != nil {
								return nil, err
							}
							if i > 1<<22 {
								return nil, errors.New("HANG: reader made no progress")
							}
						}
					},
				})
			}
		}
	}
	return out
}

type hostileCase struct {
	Kind  string `json:"kind"`  // frame type name or "posmap-count" / "posmap-name"
	Len   uint64 `json:"len"`   // hostile length value
	Extra int    `json:"extra"` // bytes following the length
}

type hostileResult struct {
	Err       string `json:"err"`
	Allocated uint64 `json:"allocated"`
	Received  int    `json:"received"`
	Decoded   bool   `json:"decoded"`
	Panic     string `json:"panic,omitempty"`
}

func hostileBytes(hc hostileCase) []byte {
	var b bytes.Buffer
	put32 := func(v uint32) { _ = binary.Write(&b, binary.BigEndian, v) }
	put64 := func(v uint64) { _ = binary.Write(&b, binary.BigEndian, v) }
	switch hc.Kind {
	case "ltx":
		put32(uint32(litefs.StreamFrameTypeLTX))
		put64(1)
		put32(uint32(hc.Len))
	case "dropdb":
		put32(uint32(litefs.StreamFrameTypeDropDB))
		put32(uint32(hc.Len))
	case "handoff":
		put32(uint32(litefs.StreamFrameTypeHandoff))
		put32(uint32(hc.Len))
	case "hwm":
		put32(uint32(litefs.StreamFrameTypeHWM))
		put64(1)
		put32(uint32(hc.Len))
	case "posmap-count":
		put32(uint32(hc.Len))
	case "posmap-name":
		put32(1)
		put32(uint32(hc.Len))
	case "frametype":
		put32(uint32(hc.Len))
	}
	b.Write(bytes.Repeat([]byte{'z'}, hc.Extra))
	return b.Bytes()
}

func runHostile(hc hostileCase) (res hostileResult) {
	in := hostileBytes(hc)
	res.Received = len(in)
	defer func() {
		if p := recover(); p != nil {
			res.Panic = fmt.Sprint(p)
		}
	}()
	runtime.GC()
	var m0, m1 runtime.MemStats
	runtime.ReadMemStats(&m0)
	var err error
	var v any
	if strings.HasPrefix(hc.Kind, "posmap") {
		v, err = lfshttp.ReadPosMapFrom(bytes.NewReader(in))
	} else {
		v, err = litefs.ReadStreamFrame(bytes.NewReader(in))
	}
	runtime.ReadMemStats(&m1)
	res.Allocated = m1.TotalAlloc - m0.TotalAlloc
	if err != nil {
		res.Err = err.Error()
	} else {
		res.Decoded = v != nil
	}
	return res
}

func TestCheck(t *testing.T) {
	if vlib.IsWorker() {
		vlib.Serve(func(in json.RawMessage) any {
			var hc hostileCase
			if err := json.Unmarshal(in, &hc); err != nil {
				return hostileResult{Err: "bad case"}
			}
			return runHostile(hc)
		})
	}
	run := vlib.Start("C18", "model_checking")

	codecs := append(append(frameCodecs(), posMapCodecs()...), chunkCodecs()...)
	evals, values := 0, 0
	var outcomes vlib.Distinct
	var samples []any

	// A chunked body ends with its terminator: a reader that has reported the end must keep reporting it and must
	// not touch what follows on the stream (the next frame, or another body).
	for _, sz := range []int{0, 1, 5, 65535, 65536} {
		for _, follow := range []string{"frame", "body", "zeros", "frame-after-second-close"} {
			payload := bytes.Repeat([]byte{0xA5}, sz)
			var body bytes.Buffer
			w := litefs.VerifChunkWriter(&body)
			_, _ = w.Write(payload)
			_ = w.Close()
			if follow == "frame-after-second-close" {
				_ = w.Close() // an explicit Close for the error and a deferred one for the clean-up: one terminator on the wire
			}
			var next []byte
			switch follow {
			case "frame", "frame-after-second-close":
				var fb bytes.Buffer
				_ = litefs.WriteStreamFrame(&fb, &litefs.HeartbeatStreamFrame{Timestamp: 0x0102030405060708})
				next = fb.Bytes()
			case "body":
				var b2 bytes.Buffer
				w2 := litefs.VerifChunkWriter(&b2)
				_, _ = w2.Write([]byte("second body"))
				_ = w2.Close()
				next = b2.Bytes()
			default:
				next = make([]byte, 16)
			}
			under := bytes.NewReader(append(append([]byte{}, body.Bytes()...), next...))
			cr := litefs.VerifChunkReader(under)
			got, err := io.ReadAll(cr)
			evals++
			name := fmt.Sprintf("chunk-end/%d/%s", sz, follow)
			if err != nil || !bytes.Equal(got, payload) {
				run.Violation("roundtrip-differs/chunk-end", fmt.Sprintf("%s: body of %d bytes read back as %d bytes, err=%v", name, sz, len(got), err), map[string]any{"codec": name})
				continue
			}
			for i := 0; i < 3; i++ {
				buf := make([]byte, 32)
				if n, err := cr.Read(buf); n != 0 || err != io.EOF {
					run.Violation("read-after-end/chunk", fmt.Sprintf("%s: Read number %d after the end of the body returned n=%d err=%v (want 0, EOF): the reader went on into the data that follows the body", name, i+1, n, err), map[string]any{"codec": name})
					break
				}
			}
			if rest, _ := io.ReadAll(under); !bytes.Equal(rest, next) {
				run.Violation("consumed-past-end/chunk", fmt.Sprintf("%s: after the body was read %d of the %d bytes that follow it are left on the stream", name, len(rest), len(next)), map[string]any{"codec": name})
			}
			outcomes.Add("chunk-end/" + follow + "=ok")
		}
	}
	for _, c := range codecs {
		enc, err := c.encode()
		if err != nil {
			run.Violation("encode-error/"+kindOf(c.name), fmt.Sprintf("%s: encoding failed: %v", c.name, err), map[string]any{"codec": c.name})
			continue
		}
		values++
		want := c.value
		// Round trip under every split.
		evals += splits(enc, func(pieces [][]byte) {
			cp := make([][]byte, len(pieces))
			copy(cp, pieces)
			got, err, pan := guardedDecode(c, &pieceReader{pieces: cp})
			switch {
			case pan != "":
				run.Violation("panic/"+kindOf(c.name), fmt.Sprintf("%s: decoder panicked on a valid encoding split as %v: %s", c.name, lens(pieces), pan), map[string]any{"codec": c.name, "split": lens(pieces)})
			case err != nil:
				run.Violation("roundtrip-error/"+kindOf(c.name), fmt.Sprintf("%s: valid encoding (%d bytes) split as %v failed to decode: %v", c.name, len(enc), lens(pieces), err), map[string]any{"codec": c.name, "split": lens(pieces)})
			case !same(got, want):
				run.Violation("roundtrip-differs/"+kindOf(c.name), fmt.Sprintf("%s: valid encoding split as %v decoded to a different value", c.name, lens(pieces)), map[string]any{"codec": c.name, "split": lens(pieces)})
			}
		})
		outcomes.Add(kindOf(c.name) + "/roundtrip")
		// Every proper prefix followed by EOF is an error.
		evals += prefixes(enc, func(prefix []byte) {
			got, err, pan := guardedDecode(c, &pieceReader{pieces: [][]byte{prefix}})
			switch {
			case pan != "":
				run.Violation("panic-on-prefix/"+kindOf(c.name), fmt.Sprintf("%s: decoder panicked on the %d-byte prefix of a %d-byte encoding: %s", c.name, len(prefix), len(enc), pan), map[string]any{"codec": c.name, "prefix": len(prefix)})
			case err == nil:
				run.Violation("prefix-accepted/"+kindOf(c.name), fmt.Sprintf("%s: the %d-byte proper prefix of a %d-byte encoding decoded without error (value equal to original: %v)", c.name, len(prefix), len(enc), same(got, want)), map[string]any{"codec": c.name, "prefix": len(prefix), "of": len(enc)})
			case err == io.EOF && !(len(prefix) == 0 && c.emptyIsCleanEOF) && !strings.HasPrefix(c.name, "posmap"):
				run.Violation("prefix-clean-eof/"+kindOf(c.name), fmt.Sprintf("%s: the %d-byte proper prefix of a %d-byte encoding is reported as a clean io.EOF", c.name, len(prefix), len(enc)), map[string]any{"codec": c.name, "prefix": len(prefix), "of": len(enc)})
			default:
				outcomes.Add(kindOf(c.name) + "/prefix-error")
			}
		})
		if len(samples) < 8 && values%23 == 0 {
			samples = append(samples, map[string]any{"codec": c.name, "encoded_bytes": len(enc)})
		}
	}

	// ReadFullAt over readers returning every short-read / EOF combination, buffers <= 4.
	evals += readFullAtMatrix(run, &outcomes)

	// Hostile length fields, in workers under an address-space limit.
	var hcs []any
	var hlist []hostileCase
	for _, kind := range []string{"ltx", "dropdb", "handoff", "hwm", "posmap-count", "posmap-name"} {
		for _, l := range []uint64{1 << 16, 1 << 24, 1<<31 - 1, 1 << 31, 1<<32 - 1} {
			for _, extra := range []int{0, 1, 100} {
				hc := hostileCase{Kind: kind, Len: l, Extra: extra}
				hcs = append(hcs, hc)
				hlist = append(hlist, hc)
			}
		}
	}
	for _, ft := range []uint64{0, 8, 1<<32 - 1} {
		hc := hostileCase{Kind: "frametype", Len: ft, Extra: 4}
		hcs = append(hcs, hc)
		hlist = append(hlist, hc)
	}
	pool := vlib.NewPool()
	pool.ASLimitGB = 6
	pool.N = 4
	pool.Run(hcs, func(i int, out json.RawMessage, crash *vlib.Crash, flaky bool) {
		evals++
		hc := hlist[i]
		if crash != nil {
			kind := "oom"
			if !strings.Contains(crash.Output, "out of memory") && !strings.Contains(crash.Output, "cannot allocate") {
				kind = "crash"
			}
			run.Violation(fmt.Sprintf("hostile-%s/%s", kind, hc.Kind), fmt.Sprintf("decoding %d bytes with a hostile length %d in a %s brought the process down (address space limit 6 GiB): %s", len(hostileBytes(hc)), hc.Len, hc.Kind, tail(crash.Output, 600)),
				map[string]any{"hostile": hc})
			outcomes.Add("hostile/" + hc.Kind + "/" + kind)
			return
		}
		var hr hostileResult
		_ = json.Unmarshal(out, &hr)
		switch {
		case hr.Panic != "":
			run.Violation("hostile-panic/"+hc.Kind, fmt.Sprintf("hostile %+v: decoder panicked: %s", hc, hr.Panic), map[string]any{"hostile": hc})
		case hr.Err == "":
			run.Violation("hostile-accepted/"+hc.Kind, fmt.Sprintf("hostile %+v decoded without error", hc), map[string]any{"hostile": hc})
		case hr.Allocated > 1<<20+64*uint64(hr.Received):
			run.Violation("hostile-alloc/"+hc.Kind, fmt.Sprintf("decoding %d received bytes (%s, announced length %d) allocated %d bytes before failing with %q; bound is 1 MiB + 64 x received", hr.Received, hc.Kind, hc.Len, hr.Allocated, hr.Err), map[string]any{"hostile": hc})
			outcomes.Add("hostile/" + hc.Kind + "/overalloc")
		default:
			outcomes.Add("hostile/" + hc.Kind + "/rejected")
		}
	})
	pool.Close()

	cov := map[string]any{
		"states":                        values,
		"transitions":                   evals,
		"traces_validated_against_impl": evals,
		"values":                        values,
		"decodes_executed":              evals,
		"hostile_inputs":                len(hlist),
		"distinct_outcome_classes":      outcomes.N(),
		"exhaustive":                    true,
		"samples":                       samples,
		"rule":                          "every value of the alphabet (7 frame types x names {empty,a,255,all-bytes,64KiB} x 6 integers; 6 position maps; 8 chunk payload sizes x 3 write splits x 5 read buffers) under every <=3-piece split (all for <=64-byte encodings; cut points within the first 40 / last 8 bytes otherwise) and one byte at a time; every proper prefix (all for <=64 bytes; first 64, last 16, every 4096th otherwise); every hostile length {2^16,2^24,2^31-1,2^31,2^32-1} x {0,1,100} trailing bytes per length field",
	}
	if outcomes.N() < 6 && run.NViolations() == 0 {
		run.HarnessError("vacuous: %d outcome classes", outcomes.N())
	}
	run.Finish(cov, []string{
		"'Arbitrary random byte strings' are replaced by the exhaustive families above (sampling is a different technique).",
		"Allocation is measured with runtime.MemStats.TotalAlloc around the decode call inside a worker subprocess with RLIMIT_AS = 6 GiB.",
	})
}

func kindOf(name string) string {
	f := strings.Split(name, "/")
	if len(f) >= 2 && f[0] == "frame" {
		return "frame-" + f[1]
	}
	return f[0]
}

func lens(p [][]byte) []int {
	if len(p) > 4 {
		return []int{-1, len(p)}
	}
	out := make([]int, len(p))
	for i := range p {
		out[i] = len(p[i])
	}
	return out
}

func same(a, b any) bool {
	if ab, ok := a.([]byte); ok {
		bb, _ := b.([]byte)
		return bytes.Equal(ab, bb)
	}
	if am, ok := a.(map[string]ltx.Pos); ok {
		bm, _ := b.(map[string]ltx.Pos)
		if len(am) != len(bm) {
			return false
		}
		for k, v := range am {
			if w, ok := bm[k]; !ok || w != v {
				return false
			}
		}
		return true
	}
	return reflect.DeepEqual(a, b)
}

func tail(s string, n int) string {
	if len(s) > n {
		return s[len(s)-n:]
	}
	return s
}

// scriptedReaderAt answers ReadAt calls from a script of (n, err) pairs over fixed content.
type scriptedReaderAt struct {
	data   []byte
	script []int // max bytes to return per call; -1 = return (0, io.EOF)
	calls  int
}

func (r *scriptedReaderAt) ReadAt(p []byte, off int64) (int, error) {
	r.calls++
	if r.calls > 64 {
		return 0, errors.New("too many calls")
	}
	max := len(p)
	if r.calls-1 < len(r.script) {
		max = r.script[r.calls-1]
	}
	if max < 0 {
		return 0, io.EOF
	}
	if off >= int64(len(r.data)) {
		return 0, io.EOF
	}
	n := copy(p, r.data[off:])
	if n > max {
		n = max
	}
	var err error
	if off+int64(n) >= int64(len(r.data)) && n < len(p) {
		err = io.EOF
	}
	return n, err
}

func readFullAtMatrix(run *vlib.Run, outcomes *vlib.Distinct) int {
	n := 0
	data := []byte{10, 11, 12, 13, 14, 15}
	var scripts [][]int
	opts := []int{-1, 0, 1, 2, 4}
	for _, a := range opts {
		scripts = append(scripts, []int{a})
		for _, b := range opts {
			scripts = append(scripts, []int{a, b})
			for _, c := range opts {
				scripts = append(scripts, []int{a, b, c})
			}
		}
	}
	for bufN := 0; bufN <= 4; bufN++ {
		for off := int64(0); off <= 6; off++ {
			for avail := 0; avail <= len(data); avail += 3 {
				for _, sc := range scripts {
					n++
					r := &scriptedReaderAt{data: data[:avail], script: sc}
					buf := make([]byte, bufN)
					got, err := litefs.VerifReadFullAt(r, buf, off)
					// Reference: the bytes available from off.
					want := 0
					if off < int64(avail) {
						want = avail - int(off)
					}
					if want > bufN {
						want = bufN
					}
					hasZeroProgress := false
					for _, s := range sc {
						if s == 0 {
							hasZeroProgress = true
						}
					}
					switch {
					case err == nil && got != bufN:
						run.Violation("readfullat/short-nil", fmt.Sprintf("ReadFullAt returned n=%d, nil for a %d-byte buffer (script %v)", got, bufN, sc), map[string]any{"script": sc, "buf": bufN, "off": off, "avail": avail})
					case err == nil && !bytes.Equal(buf, data[off:off+int64(bufN)]):
						run.Violation("readfullat/wrong-bytes", fmt.Sprintf("ReadFullAt filled wrong bytes (script %v)", sc), map[string]any{"script": sc})
					case err == nil:
						outcomes.Add("readfullat/full")
					case got > bufN:
						run.Violation("readfullat/overrun", "n exceeds buffer", nil)
					case err == io.EOF && got > 0:
						run.Violation("readfullat/eof-with-data", fmt.Sprintf("ReadFullAt returned n=%d with a clean io.EOF (script %v, buf %d)", got, sc, bufN), map[string]any{"script": sc})
					case want == bufN && bufN > 0 && !hasZeroProgress && !hasMinusOne(sc):
						run.Violation("readfullat/spurious-error", fmt.Sprintf("ReadFullAt failed (%v) although %d bytes were available (script %v)", err, want, sc), map[string]any{"script": sc})
					default:
						outcomes.Add("readfullat/error")
					}
				}
			}
		}
	}
	return n
}

func hasMinusOne(sc []int) bool {
	for _, s := range sc {
		if s < 0 {
			return true
		}
	}
	return false
}
