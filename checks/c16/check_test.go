// C16: import replaces a database atomically; export returns the exact current image.
//
// Exhaustive enumeration of (image, target) pairs through the real /import and
// /export handlers and the real lfshttp.Client on a primary with a connected
// replica: valid images of several page sizes, page counts and header modes;
// invalid inputs (empty, short, bad magic, truncated at every length class,
// trailing garbage, invalid page-size field); targets absent, empty, dropped,
// populated in rollback mode, populated in WAL mode with un-checkpointed
// frames, with a left-over journal, of the same and of a different page size.
package c16

import (
	"bytes"
	"context"
	"crypto/sha256"
	"encoding/binary"
	"encoding/json"
	"fmt"
	"io"
	"net/http"
	"runtime/debug"
	"sort"
	"strings"
	"testing"
	"testing/synctest"
	"time"

	lfshttp "github.com/superfly/litefs/http"
	"verif/lab"
	"verif/mon"
	"verif/oracle"
	"verif/pager"
	"verif/prog"
	"verif/vlib"
)

type Case struct {
	Target   string `json:"target"`  // absent | empty | dropped | journal | wal-frames | wal-clean | wal-unwritten-page | leftover-journal | hot-journal
	TargetPS int    `json:"tps"`     // page size of the existing database
	ImagePS  int    `json:"ips"`     // page size of the imported image
	Pages    uint32 `json:"pages"`   // pages of the imported image
	WALHdr   bool   `json:"walhdr"`  // image header says WAL
	Invalid  string `json:"invalid"` // "" or the kind of invalid input
}

type Result struct {
	V       []prog.V `json:"v,omitempty"`
	Class   string   `json:"class"`
	Harness string   `json:"harness,omitempty"`
}

func buildImage(ps int, n uint32, wal bool) *oracle.Image {
	im := &oracle.Image{PageSize: ps}
	im.Pages = append(im.Pages, pager.MakePage1(ps, 0x6000, n, wal, 77))
	for pg := uint32(2); pg <= n; pg++ {
		im.Pages = append(im.Pages, pager.MakePage(ps, pg, 0x6000))
	}
	return im
}

func invalidInput(kind string, ps int) []byte {
	good := buildImage(ps, 3, false).Bytes()
	switch kind {
	case "empty":
		return nil
	case "99-bytes":
		return good[:99]
	case "100-bytes":
		return good[:100]
	case "bad-magic":
		b := append([]byte(nil), good...)
		b[0] = 'X'
		return b
	case "short-by-1":
		return good[:len(good)-1]
	case "one-page-of-three":
		return good[:ps]
	case "page-and-a-half":
		return good[:ps+ps/2]
	case "header-count-too-big":
		b := append([]byte(nil), good...)
		binary.BigEndian.PutUint32(b[28:], 5)
		return b
	case "pagesize-field-0":
		b := append([]byte(nil), good...)
		binary.BigEndian.PutUint16(b[16:], 0)
		return b
	case "pagesize-field-3":
		b := append([]byte(nil), good...)
		binary.BigEndian.PutUint16(b[16:], 3)
		return b
	case "pagesize-field-1000":
		b := append([]byte(nil), good...)
		binary.BigEndian.PutUint16(b[16:], 1000)
		return b
	case "zero-pages":
		b := append([]byte(nil), good[:100]...)
		binary.BigEndian.PutUint32(b[28:], 0)
		return b
	case "zero-pagecount-full-image":
		// a complete image whose in-header page count is 0 (files last written by SQLite before 3.7.0 look like this)
		b := append([]byte(nil), good...)
		binary.BigEndian.PutUint32(b[28:], 0)
		return b
	case "garbage":
		return bytes.Repeat([]byte{0xAB}, 2000)
	}
	panic("unknown invalid kind " + kind)
}

var invalidKinds = []string{"empty", "99-bytes", "100-bytes", "bad-magic", "short-by-1", "one-page-of-three", "page-and-a-half", "header-count-too-big", "pagesize-field-0", "pagesize-field-3", "pagesize-field-1000", "zero-pages", "zero-pagecount-full-image", "garbage"}

type digest struct {
	pos   string
	files string
	ltx   string
}

func nodeDigest(n *lab.Node, name string) digest {
	var d digest
	db := n.DB(name)
	if db == nil {
		return digest{pos: "nodb"}
	}
	d.pos = db.Pos().String()
	// The logical image (database file overlaid with committed WAL frames): a checkpoint or the removal of a
	// finalised journal changes files but not the database.
	if img, err := oracle.ReadLogicalImage(db.Path(), int(db.VerifPageSize())); err != nil {
		d.files = "unreadable: " + err.Error()
	} else {
		sum := sha256.Sum256(img.Bytes())
		d.files = fmt.Sprintf("%d pages %x", img.N(), sum[:8])
	}
	names := mon.ListLTX(db.LTXDir())
	sort.Strings(names)
	var keep []string
	for _, x := range names {
		if strings.HasSuffix(x, ".ltx") {
			keep = append(keep, x)
		}
	}
	d.ltx = strings.Join(keep, ",")
	return d
}

func run1(t *testing.T, c Case) (res Result) {
	viol := func(key, format string, args ...any) {
		for _, v := range res.V {
			if v.Key == key {
				return
			}
		}
		b, _ := json.Marshal(c)
		res.V = append(res.V, prog.V{Key: key, What: fmt.Sprintf(format, args...) + "\ncase: " + string(b)})
	}
	synctest.Test(t, func(t *testing.T) {
		cl := lab.NewCluster(10 * time.Second)
		defer cl.Close()
		defer func() {
			if p := recover(); p != nil {
				viol(prog.PanicKey(p, debug.Stack()), "panic: %v\n%s", p, debug.Stack())
			}
		}()
		cl.AddNode("P", true, nil)
		cl.AddNode("R1", false, nil)
		if err := cl.Start("P"); err != nil || cl.WaitPrimary(5*time.Second) == nil {
			res.Harness = "cluster start failed"
			return
		}
		if err := cl.Start("R1"); err != nil {
			res.Harness = err.Error()
			return
		}
		P, R := cl.Nodes["P"], cl.Nodes["R1"]
		tps := c.TargetPS
		// ---- build the target ----
		var cur *oracle.Image = &oracle.Image{PageSize: tps}
		conn := pager.NewConn(P.M, "db", 1, tps)
		mk := func(tx pager.RTx, img *oracle.Image) *oracle.Image {
			r := conn.RunRTx(tx, img)
			if r.Err != nil || !r.Committed {
				res.Harness = fmt.Sprintf("target setup failed: %v at %s", r.Err, r.ErrStep)
				return nil
			}
			lab.Settle(300 * time.Millisecond)
			return r.Intended
		}
		switch c.Target {
		case "absent":
		case "empty":
			f, err := P.M.Create("db", 1)
			if err != nil {
				res.Harness = "create: " + err.Error()
				return
			}
			f.Close()
		case "dropped", "journal", "wal-frames", "wal-clean", "wal-unwritten-page", "leftover-journal", "hot-journal":
			if cur = mk(pager.RTx{Create: true, NewSize: 5, Final: "DELETE", Outcome: "commit"}, nil); cur == nil {
				return
			}
			if cur = mk(pager.RTx{Mods: []uint32{2}, Final: "DELETE", Outcome: "commit"}, cur); cur == nil {
				return
			}
			switch c.Target {
			case "dropped":
				conn.Close()
				if err := P.M.Remove("db"); err != nil {
					res.Harness = "drop: " + err.Error()
					return
				}
				cur = &oracle.Image{PageSize: tps}
			case "wal-frames", "wal-clean", "wal-unwritten-page":
				if cur = mk(pager.RTx{ToWAL: true, Final: "DELETE", Outcome: "commit"}, cur); cur == nil {
					return
				}
				conn.Close()
				tx := pager.WTx{Frames: []uint32{1, 3, 6}, Outcome: "commit"}
				if c.Target == "wal-unwritten-page" {
					// the transaction grows the database by two pages and writes only the second: the first (a free-list leaf
					// allocated and freed again) is neither in the log nor - until a checkpoint extends it - in the file
					tx = pager.WTx{Frames: []uint32{1, 2, 7}, NewSize: 7, FreeLeaves: true, Outcome: "commit"}
				}
				w := conn.RunWTx(tx, cur)
				if w.Err != nil || !w.Committed {
					res.Harness = fmt.Sprintf("wal setup failed: %v at %s", w.Err, w.ErrStep)
					return
				}
				cur = w.Intended
				if c.Target == "wal-clean" {
					if err := conn.Checkpoint("TRUNCATE", 0); err != nil {
						res.Harness = "ckpt: " + err.Error()
						return
					}
				}
			case "leftover-journal":
				if cur = mk(pager.RTx{Mods: []uint32{3}, Final: "PERSIST", Outcome: "commit"}, cur); cur == nil {
					return
				}
			case "hot-journal":
				// an application died in the middle of a transaction: pages already overwritten in the file, a valid journal next to it
				func() {
					defer func() {
						if p := recover(); p != nil {
							if _, ok := p.(pager.Abort); !ok {
								panic(p)
							}
						}
					}()
					wrote := false
					conn.Before = func(step int, desc string) {
						if wrote {
							panic(pager.Abort{Step: step})
						}
						if strings.HasPrefix(desc, "db write page") {
							wrote = true
						}
					}
					conn.RunRTx(pager.RTx{Mods: []uint32{2, 3}, SpillAfter: []int{1}, Final: "DELETE", Outcome: "commit"}, cur)
				}()
				conn.Before = nil
			}
		}
		conn.Close()
		if ok, why := cl.WaitConverged(20*time.Second, nil); !ok {
			res.Harness = "target setup did not converge: " + why
			return
		}
		client := lfshttp.NewClient()
		client.HTTPClient = &http.Client{Transport: cl.Net.Transport("client")}
		ctx := context.Background()

		exportEq := func(tag string, want *oracle.Image) {
			rc, err := client.Export(ctx, "http://P", "db")
			if err != nil {
				if want.N() == 0 {
					return // nothing to export
				}
				viol("export-failed/"+tag, "%s: export failed: %v", tag, err)
				return
			}
			b, err := io.ReadAll(rc)
			rc.Close()
			if err != nil {
				viol("export-read/"+tag, "%s: reading the export body failed: %v", tag, err)
				return
			}
			got, err := oracle.ImageFromBytes(b, want.PageSize)
			if err != nil {
				viol("export-shape/"+tag, "%s: export returned %d bytes: %v", tag, len(b), err)
				return
			}
			if ok, d := got.Equal(want); !ok {
				viol("export-differs/"+tag+"/"+c.Target, "%s: export differs from the current committed image: %s", tag, d)
			}
		}
		// Export of the target as it stands = image at the current position.
		// (with a dead application's journal in place the export rolls it back; to let the import meet it too, the
		// imports of invalid input into that target are not preceded by an export)
		if !(c.Target == "hot-journal" && c.Invalid != "") {
			exportEq("before-import", cur)
		}

		before := nodeDigest(P, "db")
		beforeR := nodeDigest(R, "db")
		var body []byte
		var img *oracle.Image
		if c.Invalid != "" {
			body = invalidInput(c.Invalid, c.ImagePS)
		} else {
			img = buildImage(c.ImagePS, c.Pages, c.WALHdr)
			body = img.Bytes()
		}
		var prevTXID uint64
		if db := P.DB("db"); db != nil {
			prevTXID = uint64(db.Pos().TXID)
		}
		err := client.Import(ctx, "http://P", "db", bytes.NewReader(body))
		lab.Settle(500 * time.Millisecond)
		if len(cl.Net.Panics) > 0 {
			viol("handler-panic", "the /import handler panicked: %s", cl.Net.Panics[0])
		}
		if codes := P.ExitCodes(); len(codes) > 0 {
			viol("exit/"+c.Target+"/"+coarse(c), "Store.Exit(%v) on the primary during import (err=%v)", codes, err)
		}
		if err == nil {
			res.Class = "imported"
			if c.Invalid != "" {
				// An invalid input that is accepted must still satisfy the success clauses; most kinds simply cannot.
				res.Class = "invalid-accepted"
			}
			db := P.DB("db")
			if db == nil {
				viol("db-missing-after-import", "database unknown after a successful import")
				return
			}
			if got := uint64(db.Pos().TXID); got != prevTXID+1 {
				viol("import-txid/"+c.Target, "import moved the TXID from %d to %d, want exactly one new transaction", prevTXID, got)
			}
			if img == nil {
				// An input this check calls invalid was accepted. That is allowed only as a success: the next export has to
				// return the imported bytes (but for the eight header bytes an import resets).
				rc, xerr := client.Export(ctx, "http://P", "db")
				var got []byte
				if xerr == nil {
					got, xerr = io.ReadAll(rc)
					rc.Close()
				}
				want := append([]byte(nil), body...)
				for _, off := range []int{24, 25, 26, 27, 40, 41, 42, 43} {
					if off < len(want) {
						want[off] = 0
					}
					if off < len(got) {
						got[off] = 0
					}
				}
				if xerr != nil || !bytes.Equal(got, want) {
					viol("accepted-import-not-exported/"+c.Invalid, "the import of input %q (%d bytes) reported success, but the next export does not return those bytes (export: %d bytes, err=%v; database now has %d pages at %s)", c.Invalid, len(body), len(got), xerr, db.PageN(), db.Pos())
				}
			}
			if img != nil {
				want := img.Clone()
				for _, off := range []int{24, 25, 26, 27, 40, 41, 42, 43} {
					want.Pages[0][off] = 0
				}
				exportEq("after-import", want)
				_, fs := mon.CheckDB(P, "db", want)
				for _, f := range fs {
					viol("after-import-"+f.Prop+"-"+f.Key+"/"+c.Target, "primary after import: %s", f.What)
				}
				if ok, why := cl.WaitConverged(30*time.Second, nil); !ok {
					viol("replica-not-converged/"+c.Target, "replica did not reach the imported image: %s (replica exits %v)", why, R.ExitCodes())
				} else {
					_, fs := mon.CheckDB(R, "db", want)
					for _, f := range fs {
						viol("replica-after-import-"+f.Prop+"-"+f.Key+"/"+c.Target, "replica after import: %s", f.What)
					}
					rc := pager.NewConn(R.M, "db", 9, want.PageSize)
					var got *oracle.Image
					var rerr error
					if c.WALHdr {
						got, rerr = rc.ReadImageWAL()
					} else {
						got, rerr = rc.ReadImage()
					}
					rc.Close()
					if rerr != nil {
						viol("replica-read/"+c.Target, "reading the imported database on the replica failed: %v", rerr)
					} else if ok, d := got.Equal(want); !ok {
						viol("replica-read-differs/"+c.Target, "replica reads a different image through its mount: %s", d)
					}
				}
			}
		} else {
			res.Class = "rejected"
			if c.Invalid == "" && c.ImagePS == tpsOrImage(c) {
				viol("valid-import-rejected/"+c.Target, "a valid image (ps=%d pages=%d wal=%v) was rejected: %v", c.ImagePS, c.Pages, c.WALHdr, err)
			}
			// A failed import changes nothing.
			after := nodeDigest(P, "db")
			if c.Target == "absent" && before.pos == "nodb" {
				// /import creates the database entry before parsing; an empty remembered database is not a change of any image.
				if after.pos != "nodb" && after.pos != "0000000000000000/0000000000000000" {
					viol("failed-import-changed-state/absent", "failed import left position %s", after.pos)
				}
			} else if c.Target == "hot-journal" {
				// rolling the dead application's journal back is not a change of the database: position and log must stay, the
				// committed image is judged below
				if after.pos != before.pos || after.ltx != before.ltx {
					viol("failed-import-changed-state/"+c.Target+"/"+coarse(c), "a failed import changed position or log: before %+v after %+v (error was: %v)", before, after, err)
				}
			} else if after != before {
				viol("failed-import-changed-state/"+c.Target+"/"+coarse(c), "a failed import changed the primary: before %+v after %+v (error was: %v)", before, after, err)
			}
			if afterR := nodeDigest(R, "db"); afterR.pos != beforeR.pos && !(beforeR.pos == "nodb") {
				viol("failed-import-changed-replica/"+c.Target, "a failed import changed the replica position: %s -> %s", beforeR.pos, afterR.pos)
			}
			exportEq("after-failed-import", cur)
			if db := P.DB("db"); db != nil && cur.N() > 0 {
				_, fs := mon.CheckDB(P, "db", cur)
				for _, f := range fs {
					viol("after-failed-import-"+f.Prop+"-"+f.Key+"/"+c.Target+"/"+coarse(c), "primary after a failed import: %s", f.What)
				}
			}
		}
		// The node can restart at the same position.
		if len(res.V) == 0 {
			posBefore := nodeDigest(P, "db").pos
			if err := P.Stop(); err != nil {
				viol("stop-error", "Store.Close: %v", err)
			}
			if err := P.Start(); err != nil {
				viol("restart-failed/"+c.Target+"/"+coarse(c), "restart after the import attempt failed: %v", err)
				return
			}
			if got := nodeDigest(P, "db").pos; got != posBefore && !(posBefore == "nodb" || got == "nodb") {
				viol("restart-moved-position/"+c.Target, "restart moved the position %s -> %s", posBefore, got)
			}
		}
	})
	return res
}

func tpsOrImage(c Case) int {
	switch c.Target {
	case "absent", "empty":
		return c.ImagePS // page size not known yet: any valid page size must be accepted
	}
	return c.TargetPS // populated or dropped: the page size is fixed once learnt
}

func coarse(c Case) string {
	if c.Invalid != "" {
		return "invalid-input"
	}
	return classOfInput(c)
}

func classOfInput(c Case) string {
	if c.Invalid != "" {
		return "invalid-" + c.Invalid
	}
	if c.ImagePS != c.TargetPS {
		return "other-pagesize"
	}
	return "valid"
}

func TestCheck(t *testing.T) {
	if vlib.IsWorker() {
		vlib.Serve(func(in json.RawMessage) any {
			var c Case
			if err := json.Unmarshal(in, &c); err != nil {
				return Result{Harness: "bad case"}
			}
			return run1(t, c)
		})
	}
	run := vlib.Start("C16", "model_checking")
	targets := []string{"absent", "empty", "dropped", "journal", "wal-frames", "wal-clean", "wal-unwritten-page", "leftover-journal", "hot-journal"}
	pss := []int{512, 4096}
	pages := []uint32{1, 2, 3, 257}
	if run.Thorough() {
		pss = []int{512, 1024, 4096, 65536}
	}
	var cases []Case
	for _, tg := range targets {
		for _, tps := range pss {
			if tps > 4096 && tg != "journal" && tg != "absent" {
				continue
			}
			for _, ips := range pss {
				for _, n := range pages {
					if ips == 65536 && n > 3 {
						continue
					}
					for _, wal := range []bool{false, true} {
						cases = append(cases, Case{Target: tg, TargetPS: tps, ImagePS: ips, Pages: n, WALHdr: wal})
					}
				}
			}
			for _, k := range invalidKinds {
				cases = append(cases, Case{Target: tg, TargetPS: tps, ImagePS: tps, Invalid: k})
			}
		}
	}
	pool := vlib.NewPool()
	pool.CaseTimeout = 120 * time.Second
	if run.Thorough() {
		// Lock-page geometry: an image just over 1 GiB (64 KiB pages put SQLite's lock page at 16385), imported into an
		// absent and into a populated database.
		cases = append(cases, Case{Target: "absent", TargetPS: 65536, ImagePS: 65536, Pages: 16387},
			Case{Target: "journal", TargetPS: 65536, ImagePS: 65536, Pages: 16386, WALHdr: true})
		pool.CaseTimeout = 20 * time.Minute
	}
	defer pool.Close()
	anyCases := make([]any, len(cases))
	for i := range cases {
		anyCases[i] = cases[i]
	}
	var classes vlib.Distinct
	var samples []any
	pool.Run(anyCases, func(i int, out json.RawMessage, crash *vlib.Crash, flaky bool) {
		if flaky {
			run.HarnessError("case crashed once and passed on re-run: %+v", cases[i])
		}
		if crash != nil {
			run.Violation("crash/"+cases[i].Target+"/"+classOfInput(cases[i]), fmt.Sprintf("worker died twice on %+v (timeout=%v)\n%s", cases[i], crash.Timeout, tail(crash.Output, 2000)), map[string]any{"case": cases[i]})
			return
		}
		var r Result
		if err := json.Unmarshal(out, &r); err != nil {
			run.HarnessError("bad result: %v", err)
			return
		}
		if r.Harness != "" {
			run.HarnessError("%s (case %+v)", r.Harness, cases[i])
		}
		for _, v := range r.V {
			run.Violation(v.Key, v.What, map[string]any{"case": cases[i]})
		}
		classes.Add(cases[i].Target + "/" + classOfInput(cases[i]) + "=" + r.Class)
		if len(samples) < 8 && i%41 == 0 {
			samples = append(samples, map[string]any{"case": cases[i], "outcome": r.Class})
		}
	})
	cov := map[string]any{
		"states":                        len(cases),
		"transitions":                   len(cases) * 3,
		"traces_validated_against_impl": len(cases),
		"pairs":                         len(cases),
		"distinct_outcome_classes":      classes.N(),
		"outcome_classes":               classes.Top(80),
		"exhaustive":                    true,
		"samples":                       samples,
		"rule":                          "every (target, image) pair: 9 targets (incl. a dead application's hot journal and a WAL database with a page that is neither in the log nor in the file yet) x page sizes x {valid images: page sizes x {1,2,3,257} pages x {rollback,WAL header}; 13 invalid inputs}; each pair is one history export -> import -> export -> replicate -> restart on a fresh 2-node cluster (transitions counts the three HTTP operations)",
	}
	if classes.N() < 6 && run.NViolations() == 0 {
		run.HarnessError("vacuous: %d classes", classes.N())
	}
	run.Finish(cov, []string{
		"An image whose page size differs from the populated target's is classified as an input that 'cannot be applied' unless LiteFS applies it completely; either outcome must satisfy its clause.",
		"Lock-page geometry (1 GiB images) is not enumerated.",
	})
}

func tail(s string, n int) string {
	if len(s) > n {
		return s[len(s)-n:]
	}
	return s
}
