// C08: a node is primary only while it holds a live lease for its own cluster.
//
// Deviation-bounded exhaustive search over lease-service behaviour: every call
// the node under test makes to the (simulated, TTL-based) lease service is a
// decision point whose default answer is the truth and whose other answers
// (already held, error, lease expired, errors for the rest of the run, no
// primary, stale primary info) cost one deviation each; manual demotion,
// handoff to the connected replica / to an unknown node and a stream cut are
// further decisions at fixed instants. All scripts with at most 2 (thorough 3)
// deviations over a horizon of 4 TTLs are executed on real stores on the fake
// clock for every configuration (candidate x stored cluster ID x service
// cluster ID x topology) and judged by monitors evaluated at every step.
package c08

import (
	"context"
	"encoding/json"
	"errors"
	"fmt"
	"net/http"
	"os"
	"runtime/debug"
	"strings"
	"testing"
	"testing/synctest"
	"time"

	"github.com/superfly/litefs"
	"github.com/superfly/litefs/consul"
	"verif/lab"
	"verif/pager"
	"verif/prog"
	"verif/vlib"
)

const (
	ttl     = 10 * time.Second
	horizon = 40 * time.Second
	step    = 500 * time.Millisecond
	ps      = 512
)

type Config struct {
	Candidate bool   `json:"candidate"`
	StoredID  string `json:"stored"`  // "" | X
	ServiceID string `json:"service"` // "" | X | Y
	Topology  string `json:"topo"`    // alone | with-primary-M | with-replica-M
	// Leaser: "" = the in-memory simulated lease service; "consul" = the real consul.Leaser of both nodes
	// talking to an in-process Consul endpoint (sessions with TTL, KV locks, lock delay).
	Leaser string `json:"leaser,omitempty"`
}

// leaseRec is what the monitors need from a lease object handed to the node.
type leaseRec interface {
	ID() string
	NClosed() int
}

const consulKey = "litefs/primary"

type Case struct {
	Cfg    Config `json:"cfg"`
	Prefix []int  `json:"prefix"`
}

type point struct {
	Kind    string `json:"k"`
	Options int    `json:"n"`
}

type Result struct {
	V        []prog.V `json:"v,omitempty"`
	Points   []point  `json:"points"`
	Choices  []int    `json:"choices"`
	Obs      string   `json:"obs"`
	Diverged string   `json:"diverged,omitempty"`
	Harness  string   `json:"harness,omitempty"`
}

const (
	idX = "LFSCAAAAAAAAAAAAAAAA"
	idY = "LFSCBBBBBBBBBBBBBBBB"
)

var errInjected = errors.New("injected lease service error")

type run struct {
	c      Case
	res    *Result
	k      int
	sticky map[string]bool // node -> renew errors for the rest of the run
	log    []string
}

func (r *run) choose(kind string, n int) int {
	c := 0
	if r.k < len(r.c.Prefix) {
		c = r.c.Prefix[r.k]
		if c >= n {
			// The node under test and its peer are real concurrent goroutines: which of them reaches the lease
			// service first at one fake instant is the Go scheduler's choice, so a script recorded in one run can
			// meet another call order in the next. The run continues truthfully from here (it is still a real
			// execution and is judged); the coordinator re-runs the script and accounts for it if it stays unrealised.
			if r.res.Diverged == "" {
				r.res.Diverged = fmt.Sprintf("decision %d is %s with %d answers, the script asks for answer %d", r.k, kind, n, c)
			}
			c = 0
		}
	}
	r.k++
	r.res.Points = append(r.res.Points, point{kind, n})
	r.res.Choices = append(r.res.Choices, c)
	return c
}

func (r *run) viol(key, format string, args ...any) {
	for _, v := range r.res.V {
		if v.Key == key {
			return
		}
	}
	b, _ := json.Marshal(r.c)
	r.res.V = append(r.res.V, prog.V{Key: key, What: fmt.Sprintf(format, args...) + "\nscript: " + strings.Join(r.log, " ; ") + "\ncase: " + string(b)})
}

func run1(t *testing.T, c Case) (res Result) {
	r := &run{c: c, res: &res, sticky: map[string]bool{}}
	synctest.Test(t, func(t *testing.T) {
		defer func() {
			if p := recover(); p != nil {
				r.viol(prog.PanicKey(p, debug.Stack()), "panic: %v\n%s", p, debug.Stack())
			}
		}()
		cl := lab.NewCluster(ttl)
		defer cl.Close()
		svc := cl.Svc
		var fake *lab.FakeConsul
		recLeasers := map[string]*lab.RecLeaser{}
		if c.Cfg.Leaser == "consul" {
			fake = lab.NewFakeConsul()
			cl.Net.Register("consul", fake)
			consul.VerifHTTPClient = func(hostname string) *http.Client {
				return &http.Client{Transport: cl.Net.Transport(hostname)}
			}
			defer func() { consul.VerifHTTPClient = nil }()
			fake.Fault = func(from, op string, r *http.Request) string {
				if rl := recLeasers[from]; rl != nil {
					return rl.FaultFor(op)
				}
				return ""
			}
			svc.ClusterIDSource = func() string { return fake.Value(consulKey + "/clusterid") }
		}
		if c.Cfg.ServiceID != "" {
			id := map[string]string{"X": idX, "Y": idY}[c.Cfg.ServiceID]
			svc.SetClusterIDValue(id)
			if fake != nil {
				fake.SetValue(consulKey+"/clusterid", id)
			}
		}
		// Only the node under test ("N") is scripted.
		svc.Script = func(node, call string) (lab.Deviation, bool) {
			if node != "N" {
				return lab.Deviation{}, false
			}
			switch call {
			case "Acquire":
				switch r.choose("Acquire", 3) {
				case 1:
					r.log = append(r.log, "Acquire->primary-exists")
					return lab.Deviation{Err: litefs.ErrPrimaryExists}, true
				case 2:
					r.log = append(r.log, "Acquire->error")
					return lab.Deviation{Err: errInjected}, true
				}
			case "AcquireExisting":
				switch r.choose("AcquireExisting", 3) {
				case 1:
					r.log = append(r.log, "AcquireExisting->error")
					return lab.Deviation{Err: errInjected}, true
				case 2:
					// between the hand-off and the take-over somebody else became the holder of the lease
					r.log = append(r.log, "AcquireExisting->held-by-someone-else")
					if fake != nil {
						fake.Steal(consulKey) // the truthful answer of the endpoint is now "not acquired"
						return lab.Deviation{}, false
					}
					return lab.Deviation{Err: litefs.ErrPrimaryExists}, true
				}
			case "Renew":
				if r.sticky[node] {
					return lab.Deviation{Err: errInjected}, true
				}
				switch r.choose("Renew", 4) {
				case 1:
					r.log = append(r.log, "Renew->expired")
					return lab.Deviation{Err: litefs.ErrLeaseExpired}, true
				case 2:
					r.log = append(r.log, "Renew->error")
					return lab.Deviation{Err: errInjected}, true
				case 3:
					r.log = append(r.log, "Renew->errors-from-now-on")
					r.sticky[node] = true
					return lab.Deviation{Err: errInjected}, true
				}
			case "PrimaryInfo":
				switch r.choose("PrimaryInfo", 4) {
				case 1:
					r.log = append(r.log, "PrimaryInfo->no-primary")
					return lab.Deviation{Err: litefs.ErrNoPrimary}, true
				case 2:
					r.log = append(r.log, "PrimaryInfo->error")
					return lab.Deviation{Err: errInjected}, true
				case 3:
					r.log = append(r.log, "PrimaryInfo->stale(dead node)")
					return lab.Deviation{StaleInfo: &litefs.PrimaryInfo{Hostname: "Z", AdvertiseURL: "http://Z"}}, true
				}
			case "ClusterID":
				switch r.choose("ClusterID", 3) {
				case 1:
					r.log = append(r.log, "ClusterID->error")
					return lab.Deviation{Err: errInjected}, true
				case 2:
					r.log = append(r.log, "ClusterID->empty")
					return lab.Deviation{EmptyClusterID: true}, true
				}
			case "SetClusterID":
				if r.choose("SetClusterID", 2) == 1 {
					r.log = append(r.log, "SetClusterID->error")
					return lab.Deviation{Err: errInjected}, true
				}
			}
			return lab.Deviation{}, false
		}

		var leases []leaseRec
		handedLeases := map[leaseRec]bool{}
		useConsul := func(cfg *lab.NodeConfig) bool {
			if fake == nil {
				return true
			}
			rl, err := lab.NewRecLeaser(svc, fake, cfg.Name, consulKey, ttl)
			if err != nil {
				res.Harness = "consul leaser: " + err.Error()
				return false
			}
			recLeasers[cfg.Name] = rl
			cfg.Leaser = rl
			return true
		}
		cl.AddNode("N", c.Cfg.Candidate, func(cfg *lab.NodeConfig) {
			cfg.ID = 0xAAAA
			cfg.DemoteDelay = 3 * time.Second
			if !useConsul(cfg) {
				return
			}
			if rl, ok := cfg.Leaser.(*lab.RecLeaser); ok {
				rl.OnLease = func(l *lab.RecLease) { leases = append(leases, l) }
			} else {
				cfg.Leaser.(*lab.SimLeaser).OnLease = func(l *lab.SimLease) { leases = append(leases, l) }
			}
		})
		N := cl.Nodes["N"]
		if c.Cfg.StoredID != "" {
			_ = os.MkdirAll(N.Cfg.Dir, 0o777)
			_ = os.WriteFile(N.Cfg.Dir+"/clusterid", []byte(idX+"\n"), 0o666)
		}
		var M *lab.Node
		if c.Cfg.Topology != "alone" {
			cl.AddNode("M", strings.HasPrefix(c.Cfg.Topology, "with-primary-M"), func(cfg *lab.NodeConfig) { cfg.ID = 0xBBBB; useConsul(cfg) })
			if res.Harness != "" {
				return
			}
			M = cl.Nodes["M"]
			if strings.HasPrefix(c.Cfg.Topology, "with-primary-M") {
				// M is primary first, with the service's cluster ID as its own (or generating one).
				if c.Cfg.ServiceID != "" {
					_ = os.MkdirAll(M.Cfg.Dir, 0o777)
					_ = os.WriteFile(M.Cfg.Dir+"/clusterid", []byte(svc.ClusterIDValue()+"\n"), 0o666)
				}
				if err := M.Start(); err != nil {
					res.Harness = "start M: " + err.Error()
					return
				}
				lab.WaitFor(3*time.Second, M.Store.IsPrimary)
				conn := pager.NewConn(M.M, "db", 1, ps)
				rr := conn.RunRTx(pager.RTx{Create: true, NewSize: 2, Final: "DELETE", Outcome: "commit"}, nil)
				conn.Close()
				if rr.Err != nil {
					res.Harness = "M setup tx failed"
					return
				}
			}
		}
		if err := N.Start(); err != nil {
			res.Harness = "start N: " + err.Error()
			return
		}
		if M != nil && c.Cfg.Topology == "with-replica-M" {
			if c.Cfg.StoredID != "" || c.Cfg.ServiceID != "" {
				_ = os.MkdirAll(M.Cfg.Dir, 0o777)
				id := idX
				if c.Cfg.ServiceID == "Y" && c.Cfg.StoredID == "" {
					id = idY
				}
				_ = os.WriteFile(M.Cfg.Dir+"/clusterid", []byte(id+"\n"), 0o666)
			}
			if err := M.Start(); err != nil {
				res.Harness = "start M: " + err.Error()
				return
			}
		}

		// ---- monitors ----
		wasPrimary := false
		var deadSince, lostAt time.Time
		var primaryCtx context.Context
		handedOff := false
		handoffTarget := uint64(0)
		closedBefore := 0
		var obs []string
		startID := N.Store.ClusterID()
		totalClosed := func() int {
			n := 0
			for _, l := range leases {
				n += l.NClosed()
			}
			return n
		}
		lastRenewOK := func() (time.Time, bool, bool) {
			// scan the service log for N: last successful Acquire/AcquireExisting/Renew and whether an "expired" answer followed it
			var at time.Time
			held, expiredAfter := false, false
			for _, c := range svc.Calls() {
				if c.Node != "N" {
					continue
				}
				switch {
				case (c.Call == "Acquire" || c.Call == "AcquireExisting" || c.Call == "Renew") && strings.HasPrefix(c.Result, "ok"):
					at, held, expiredAfter = c.At, true, false
				case c.Call == "Renew" && (strings.HasPrefix(c.Result, "expired") || strings.Contains(c.Result, litefs.ErrLeaseExpired.Error())):
					expiredAfter = true
				case c.Call == "Close":
					held = false
				}
			}
			return at, held, expiredAfter
		}
		probe := func(n *lab.Node) bool {
			if n == nil || !n.Running() || n.DB("db") == nil || n.DB("db").PageN() == 0 {
				// create the database if nothing exists yet
				if n == nil || !n.Running() {
					return false
				}
				conn := pager.NewConn(n.M, "db", 50, ps)
				defer conn.Close()
				if n.DB("db") != nil && n.DB("db").PageN() > 0 {
					return false
				}
				rr := conn.RunRTx(pager.RTx{Create: true, NewSize: 2, Final: "DELETE", Outcome: "commit"}, nil)
				return rr.Committed
			}
			conn := pager.NewConn(n.M, "db", 51, ps)
			conn.Busy = func() bool { return false }
			defer conn.Close()
			img, err := conn.ReadImage()
			if err != nil {
				return false
			}
			rr := conn.RunRTx(pager.RTx{Final: "DELETE", Outcome: "commit"}, img)
			return rr.Committed
		}
		check := func(now time.Duration) {
			isP := N.Store.IsPrimary()
			at, held, expiredAfter := lastRenewOK()
			if isP {
				if !held {
					r.viol("C08/primary-without-lease", "t=%s: IsPrimary() although the service never granted (or the node already closed) a lease", now)
				}
				if expiredAfter {
					r.viol("C08/primary-after-expired-answer", "t=%s: IsPrimary() although a renewal was answered 'lease expired'", now)
				}
				if held && time.Since(at) > ttl+2*time.Second {
					r.viol("C08/primary-beyond-ttl", "t=%s: IsPrimary() although the last successful acquire/renew was %s ago (TTL %s)", now, time.Since(at), ttl)
				}
				if sid, nid := svc.ClusterIDValue(), N.Store.ClusterID(); sid != "" && sid != nid {
					// also for a node that has no ID stored: it may adopt one as a replica, never lead a cluster it does not belong to
					r.viol("C08/primary-foreign-cluster", "t=%s: IsPrimary() with stored cluster ID %q while the service holds %s", now, nid, sid)
				}
				if !c.Cfg.Candidate && !handedToN(svc) {
					r.viol("C08/non-candidate-primary", "t=%s: a non-candidate node is primary without having been handed a lease", now)
				}
				if fake != nil && len(leases) > 0 {
					// Ground truth from the Consul endpoint, not from what the leaser reported: the node's current session
					// exists and holds the key. A session that died is tolerated for the two seconds LiteFS's retry tick allows.
					id := leases[len(leases)-1].ID()
					holder, _ := fake.Holder(consulKey)
					if fake.SessionLive(id) && holder == id {
						deadSince = time.Time{}
					} else if deadSince.IsZero() {
						deadSince = time.Now()
					} else if time.Since(deadSince) >= 2*time.Second {
						r.viol("C08/primary-without-live-session", "t=%s: IsPrimary() for %s although its Consul session %s is live=%v and the key is held by %q", now, time.Since(deadSince), id, fake.SessionLive(id), holder)
					}
				}
				if !wasPrimary {
					primaryCtx = N.Store.PrimaryCtx(context.Background())
					closedBefore = totalClosed()
					handedOff = false
				}
			}
			if wasPrimary && !isP {
				// edge: primary -> not primary
				select {
				case <-primaryCtx.Done():
				default:
					lab.Settle(10 * time.Millisecond)
					select {
					case <-primaryCtx.Done():
					default:
						r.viol("C08/primary-ctx-not-cancelled", "t=%s: the node stopped being primary but a primary-scoped context is still live", now)
					}
				}
				lab.Settle(50 * time.Millisecond)
				obs = append(obs, fmt.Sprintf("lost@%s", now.Round(time.Second)))
				lostAt = time.Now()
			}
			// a node that is not primary serves no replication stream: the ones opened while it was primary end with its
			// primary-scoped context, and new ones are refused
			if !isP && M != nil && M.Running() && !lostAt.IsZero() && time.Since(lostAt) >= time.Second && !N.Store.IsPrimary() {
				if sub := N.Store.SubscriberByNodeID(M.Store.ID()); sub != nil {
					r.viol("C08/stream-served-after-loss", "t=%s: N stopped being primary %s ago but still serves the replication stream that M opened", now, time.Since(lostAt).Round(time.Millisecond))
				}
			}
			if !wasPrimary && isP {
				obs = append(obs, fmt.Sprintf("primary@%s", now.Round(time.Second)))
			}
			wasPrimary = isP
			// commit probes: may succeed only where the primary monitor holds
			if ok := probe(N); ok && !N.Store.IsPrimary() && !isP {
				r.viol("C08/commit-on-non-primary", "t=%s: a local transaction committed on N while it is not primary", now)
			}
			for _, cc := range svc.Calls() {
				if cc.Node == "N" && cc.Call == "Acquire" && !c.Cfg.Candidate {
					r.viol("C08/non-candidate-acquires", "a non-candidate node called Acquire on the lease service")
				}
			}
			// cluster identity
			if nid := N.Store.ClusterID(); nid != startID && startID != "" {
				r.viol("C08/cluster-id-changed", "t=%s: stored cluster ID changed from %s to %s", now, startID, nid)
			}
		}
		// ---- drive ----
		events := 0
		for now := time.Duration(0); now < horizon; now += step {
			time.Sleep(step)
			synctest.Wait()
			if c.Cfg.Topology == "with-primary-M-handoff" && now == 5*time.Second {
				// part of this configuration, not a deviation: the primary M hands its lease to N five seconds in
				r.log = append(r.log, "t=5s M.Handoff(N) [scheduled]")
				if M.Running() && M.Store.IsPrimary() {
					_ = M.Store.Handoff(context.Background(), N.Store.ID())
				}
				synctest.Wait()
			} else
			// environment decisions every 5 fake seconds
			if now > 0 && now%(5*time.Second) == 0 && events < 6 {
				events++
				opts := 4
				if M == nil {
					opts = 3
				} else if strings.HasPrefix(c.Cfg.Topology, "with-primary-M") {
					opts = 5 // M hands its lease to N
				}
				switch r.choose("env", opts) {
				case 1:
					r.log = append(r.log, fmt.Sprintf("t=%s Demote()", now))
					N.Store.Demote()
				case 2:
					r.log = append(r.log, fmt.Sprintf("t=%s Handoff(unknown)", now))
					err := N.Store.Handoff(context.Background(), 0xDEAD)
					if err == nil {
						r.viol("C08/handoff-to-unknown", "Handoff to a node that is not connected succeeded")
					}
				case 4:
					r.log = append(r.log, fmt.Sprintf("t=%s M.Handoff(N)", now))
					if M.Running() && M.Store.IsPrimary() {
						_ = M.Store.Handoff(context.Background(), N.Store.ID())
					}
				case 3:
					r.log = append(r.log, fmt.Sprintf("t=%s Handoff(M)", now))
					wasP := N.Store.IsPrimary()
					sub := N.Store.SubscriberByNodeID(M.Store.ID()) != nil
					err := N.Store.Handoff(context.Background(), M.Store.ID())
					if err == nil {
						if !wasP || !sub {
							r.viol("C08/handoff-without-subscription", "Handoff(M) succeeded although N primary=%v and M subscribed=%v", wasP, sub)
						}
						handedOff, handoffTarget = true, M.Store.ID()
						if len(leases) > 0 {
							handedLeases[leases[len(leases)-1]] = true
						}
					}
				}
				synctest.Wait()
			}
			check(now + step)
			if len(res.V) > 0 {
				break
			}
		}
		_ = handoffTarget
		_ = closedBefore
		// Every lease the node was granted is destroyed exactly once when the node stops being primary on it -
		// except a lease that was handed off, which must not be destroyed. (One lease object per primary period.)
		lab.Settle(200 * time.Millisecond)
		for i, l := range leases {
			current := i == len(leases)-1 && N.Store.IsPrimary()
			switch {
			case handedLeases[l] && tookOver(svc, l.ID()):
				if l.NClosed() != 0 {
					r.viol("C08/lease-closed-after-handoff", "lease %s was destroyed %d time(s) by N although it was handed off to M", l.ID(), l.NClosed())
				}
			case current:
				if l.NClosed() != 0 {
					r.viol("C08/lease-closed-while-primary", "lease %s was destroyed while the node is still primary on it", l.ID())
				}
			default:
				if fake != nil && fake.SessionLive(l.ID()) {
					r.viol("C08/lease-not-destroyed", "Consul session %s still exists after the node stopped being primary on it (not handed off)", l.ID())
				}
				if l.NClosed() != 1 {
					r.viol("C08/lease-close-count", "lease %s: Lease.Close was called %d times after the node stopped being primary on it, want exactly once", l.ID(), l.NClosed())
				}
			}
		}
		_ = handedOff
		// A handed-off lease ID is used by the requested node only.
		for _, cc := range svc.Calls() {
			if cc.Call == "AcquireExisting" && cc.Node != "M" && cc.Node != "N" {
				r.viol("C08/handoff-target", "lease %s was taken over by %s, which is not the requested node", cc.Arg, cc.Node)
			}
		}
		// N never applied anything from a foreign cluster
		if c.Cfg.StoredID != "" && c.Cfg.ServiceID == "Y" && M != nil {
			if db := N.DB("db"); db != nil && db.Pos().TXID > 0 && strings.HasPrefix(c.Cfg.Topology, "with-primary-M") {
				r.viol("C08/replicated-from-foreign-cluster", "N (cluster %s) holds data at %s although the only primary belongs to cluster %s", idX, db.Pos(), idY)
			}
		}
		for _, n := range []*lab.Node{N, M} {
			if n != nil && len(n.ExitCodes()) > 0 {
				r.viol("C08/exit", "%s called Store.Exit(%v)", n.Cfg.Name, n.ExitCodes())
			}
		}
		res.Obs = strings.Join(obs, ",")
		if res.Obs == "" {
			res.Obs = "never-primary"
		}
	})
	return res
}

// tookOver reports whether M acquired the existing lease id (the handoff completed).
func tookOver(svc *lab.LeaseService, id string) bool {
	for _, c := range svc.Calls() {
		if c.Node == "M" && c.Call == "AcquireExisting" && c.Arg == id && c.Result == "ok" {
			return true
		}
	}
	return false
}

func handedToN(svc *lab.LeaseService) bool {
	for _, c := range svc.Calls() {
		if c.Node == "N" && c.Call == "AcquireExisting" && c.Result == "ok" {
			return true
		}
	}
	return false
}

func deviations(points []point, choices []int, n int) int {
	d := 0
	for i := 0; i < n && i < len(choices); i++ {
		if choices[i] != 0 {
			d++
		}
	}
	return d
}

func TestCheck(t *testing.T) {
	if vlib.IsWorker() {
		vlib.Serve(func(in json.RawMessage) any {
			var c Case
			if err := json.Unmarshal(in, &c); err != nil {
				return Result{Harness: "bad case"}
			}
			return run1(t, c)
		})
	}
	runv := vlib.Start("C08", "exploration")
	bound := 2
	if runv.Thorough() {
		bound = 3
	}
	var cfgs []Config
	for _, cand := range []bool{true, false} {
		for _, stored := range []string{"", "X"} {
			for _, svcID := range []string{"", "X", "Y"} {
				topos := []string{"alone", "with-primary-M"}
				if cand {
					topos = append(topos, "with-replica-M")
				}
				for _, topo := range topos {
					cfgs = append(cfgs, Config{Candidate: cand, StoredID: stored, ServiceID: svcID, Topology: topo})
				}
				if cand && stored == "" && svcID == "" {
					// N joins the primary M, which hands it the lease five seconds later
					cfgs = append(cfgs, Config{Candidate: cand, StoredID: stored, ServiceID: svcID, Topology: "with-primary-M-handoff"})
				}
			}
		}
	}
	// The same configurations again with the real Consul leaser against the in-process Consul endpoint, one deviation less.
	nSim := len(cfgs)
	for i := 0; i < nSim; i++ {
		c := cfgs[i]
		c.Leaser = "consul"
		cfgs = append(cfgs, c)
	}
	if f := os.Getenv("VERIF_C08_LEASER"); f != "" {
		// development aid (mutant runs): one lease service only; the evidence then says so
		var keep []Config
		for _, c := range cfgs {
			if (f == "consul") == (c.Leaser == "consul") {
				keep = append(keep, c)
			}
		}
		cfgs = keep
	}
	pool := vlib.NewPool()
	pool.CaseTimeout = 3 * time.Minute
	defer pool.Close()
	// Wall-clock budget (thorough tier: bound 3 is some 10^7 scripts): when it runs out the search stops, the run
	// reports what was completed and says exhaustive=false. It is an internal deadline, never a verdict.
	budget := 20 * time.Minute
	if runv.Thorough() {
		budget = 75 * time.Minute
	}
	if v := os.Getenv("VERIF_C08_BUDGET"); v != "" {
		if d, err := time.ParseDuration(v); err == nil {
			budget = d
		}
	}
	deadline := time.Now().Add(budget)
	outOfTime := false
	pool.Abort = func() bool {
		if time.Now().After(deadline) {
			outOfTime = true
		}
		return outOfTime
	}
	completed := map[string]int{} // configuration -> deepest deviation level fully explored
	evals := 0
	unrealised := 0
	var unrealisedSamples []any
	distinct := map[string]bool{}
	var samples []any
	maxPoints := 0
	perCfg := []any{}
	// Iterative deepening across all configurations: every configuration completes deviation level k before any starts
	// level k+1, so that a budget that runs out cuts the deepest level only.
	frontiers := make([][]Case, len(cfgs))
	cfgEvalsAll := make([]int, len(cfgs))
	outcomesAll := make([]map[string]int, len(cfgs))
	levelsDone := make([]int, len(cfgs))
	for ci, cfg := range cfgs {
		frontiers[ci] = []Case{{Cfg: cfg}}
		outcomesAll[ci] = map[string]int{}
		levelsDone[ci] = -1
	}
	stop := false
	for level := 0; level <= bound && !stop; level++ {
		for ci, cfg := range cfgs {
			cbound := bound
			if cfg.Leaser == "consul" {
				cbound--
			}
			frontier := frontiers[ci]
			if level > cbound || len(frontier) == 0 {
				if level <= cbound && len(frontier) == 0 && levelsDone[ci] == level-1 {
					levelsDone[ci] = level
				}
				continue
			}
			outcomes := outcomesAll[ci]
			var next []Case
			cur := frontier
			for attempt := 0; attempt < 4 && len(cur) > 0; attempt++ {
				anyCases := make([]any, len(cur))
				for i := range cur {
					anyCases[i] = cur[i]
				}
				var again []Case
				last := attempt == 3
				pool.Run(anyCases, func(i int, out json.RawMessage, crash *vlib.Crash, flaky bool) {
					evals++
					cfgEvalsAll[ci]++
					if flaky {
						runv.HarnessError("case crashed once and passed on re-run: %+v", cur[i])
					}
					if crash != nil {
						runv.Violation("crash", fmt.Sprintf("worker died twice on %+v (timeout=%v)\n%s", cur[i], crash.Timeout, tail(crash.Output, 2500)), map[string]any{"case": cur[i]})
						return
					}
					var r Result
					if err := json.Unmarshal(out, &r); err != nil {
						runv.HarnessError("bad result: %v", err)
						return
					}
					if r.Harness != "" {
						runv.HarnessError("%s (case %+v)", r.Harness, cur[i])
						return
					}
					for _, v := range r.V {
						runv.Violation(v.Key, v.What, map[string]any{"case": cur[i]})
					}
					if r.Diverged != "" {
						if !last {
							again = append(again, cur[i])
						} else {
							unrealised++
							if len(unrealisedSamples) < 5 {
								unrealisedSamples = append(unrealisedSamples, map[string]any{"case": cur[i], "why": r.Diverged})
							}
						}
						return
					}
					outcomes[r.Obs]++
					distinct[fmt.Sprintf("%s%v/%s/%s/%s:%s", cfg.Leaser, cfg.Candidate, cfg.StoredID, cfg.ServiceID, cfg.Topology, r.Obs)] = true
					if len(r.Points) > maxPoints {
						maxPoints = len(r.Points)
					}
					if len(samples) < 6 && len(cur[i].Prefix) > 0 && evals%301 == 0 {
						samples = append(samples, map[string]any{"case": cur[i], "observation": r.Obs, "decision_points": len(r.Points)})
					}
					if level == cbound {
						return
					}
					for p := len(cur[i].Prefix); p < len(r.Points); p++ {
						for alt := 1; alt < r.Points[p].Options; alt++ {
							prefix := append(append([]int{}, r.Choices[:p]...), alt)
							next = append(next, Case{Cfg: cfg, Prefix: prefix})
						}
					}
				})
				cur = again
			}
			frontiers[ci] = next
			if runv.NViolations() > 0 || outOfTime {
				stop = true
				break
			}
			levelsDone[ci] = level
		}
	}
	minDone := bound
	for ci, cfg := range cfgs {
		perCfg = append(perCfg, map[string]any{"config": cfg, "scripts": cfgEvalsAll[ci], "outcomes": outcomesAll[ci], "deviation_levels_completed": levelsDone[ci]})
		d := levelsDone[ci]
		if cfg.Leaser == "consul" {
			d++ // explored to one deviation less by design
		}
		if d < minDone {
			minDone = d
		}
		if levelsDone[ci] >= 0 {
			completed[fmt.Sprintf("%+v", cfg)] = levelsDone[ci]
		}
	}
	if len(samples) == 0 {
		samples = append(samples, perCfg[0])
	}
	cov := map[string]any{
		"evaluations":                  evals,
		"distinct_nontrivial":          len(distinct),
		"deviation_bound":              bound,
		"configurations":               len(cfgs),
		"max_decision_points":          maxPoints,
		"per_configuration":            perCfg,
		"exhaustive":                   unrealised == 0 && os.Getenv("VERIF_C08_LEASER") == "" && !outOfTime,
		"budget":                       budget.String(),
		"budget_exhausted":             outOfTime,
		"configurations_started":       len(completed),
		"deviation_bound_completed":    minDone,
		"filtered_to_leaser":           os.Getenv("VERIF_C08_LEASER"),
		"scripts_not_realised":         unrealised,
		"scripts_not_realised_samples": unrealisedSamples,
		"scripts_not_realised_note":    "a script whose recorded call order did not recur in four runs (two nodes reaching the lease service at the same fake instant in another order); each of those runs was still executed and judged, but the script's own subtree is not covered",
		"samples":                      samples,
		"rule":                         "every lease-service answer script with at most deviation_bound deviations from the truthful answer (answers per call kind: Acquire 3, AcquireExisting 2, Renew 4 incl. 'errors from now on', PrimaryInfo 4 incl. stale info, ClusterID 3 incl. 'none stored', SetClusterID 2; environment events every 5 fake seconds: none / Demote / Handoff(unknown) / Handoff(M)) over a 40 s horizon (TTL 10 s), per configuration and lease service (simulated; Consul leaser with one deviation less); distinct_nontrivial = distinct (configuration, role timeline) classes",
	}
	runv.Finish(cov, []string{
		"Lease services: the in-memory SimLeaser (service-side truth: holder, expiry on the fake clock, cluster ID) at the full deviation bound, and the real consul.Leaser of both nodes against verif's in-process Consul endpoint (sessions with TTL and lock delay, KV locks, behaviour 'delete') at the bound minus one; a deviation is turned into the Consul answer that produces it (500, 404, 'false', session invalidated). The static leaser has no behaviour to script.",
		"Timeouts are on the testing/synctest fake clock; monitors run every 0.5 fake seconds.",
	})
}

func tail(s string, n int) string {
	if len(s) > n {
		return s[len(s)-n:]
	}
	return s
}
