// C05: any crash point recovers to exactly the position of the newest LTX file.
//
// The enumeration itself lives in package verif/crashh (the C15 check runs its drop histories too).
package c05

import (
	"testing"

	"verif/crashh"
	"verif/vlib"
)

func TestCheck(t *testing.T) {
	crashh.ServeIfWorker(t)
	run := vlib.Start("C05", "fault_enumeration")
	cov := crashh.RunAll(run, nil)
	if n, _ := cov["distinct_nontrivial"].(int); n < 6 && run.NViolations() == 0 {
		run.HarnessError("vacuous: %d classes", n)
	}
	run.Finish(cov, append(append([]string{}, crashh.Assumptions...),
		"Histories H15 (restore from backup) and H16 (forwarded commit) are covered by the C14 and C13 checks' own recovery steps, not here."))
}
