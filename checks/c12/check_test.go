// C12: each advisory lock obeys reader/writer semantics with upgrade and downgrade.
//
// Part A (deciding): explicit-state search to closure over one real
// litefs.RWMutex with four guards and the alphabet
// {TryLock, TryRLock, Unlock, CanLock, CanRLock} x {G1..G4}. States are
// identified by the implementation's own private state (sharedN, excl,
// per-guard state) read through the verif accessor; every transition from
// every reachable state is executed on a fresh mutex (replay of the shortest
// path + one operation) and compared with a POSIX one-byte reference model.
//
// Part B (deciding, fake clock): the blocking variants Lock/RLock inside a
// synctest bubble: holder kind x waiter kind x event (release, downgrade,
// cancel, deadline) x event time, all combinations.
package c12

import (
	"context"
	"errors"
	"fmt"
	"os"
	"strings"
	"testing"
	"testing/synctest"
	"time"

	"github.com/superfly/litefs"
	"verif/vlib"
)

const nGuards = 4

type op struct {
	G    int // guard index
	Kind int // 0 TryLock 1 TryRLock 2 Unlock 3 CanLock 4 CanRLock
}

var kindNames = []string{"TryLock", "TryRLock", "Unlock", "CanLock", "CanRLock"}

func (o op) String() string { return fmt.Sprintf("G%d.%s", o.G+1, kindNames[o.Kind]) }

// ---- reference model: POSIX byte-range lock on one byte, distinct owners ----

type model [nGuards]litefs.RWMutexState

func (m model) othersHold(g int, st litefs.RWMutexState) bool {
	for i, s := range m {
		if i != g && s == st {
			return true
		}
	}
	return false
}

func (m model) canLock(g int) bool {
	return !m.othersHold(g, litefs.RWMutexStateShared) && !m.othersHold(g, litefs.RWMutexStateExclusive)
}
func (m model) canRLock(g int) bool { return !m.othersHold(g, litefs.RWMutexStateExclusive) }

func (m model) mutexState() litefs.RWMutexState {
	st := litefs.RWMutexStateUnlocked
	for _, s := range m {
		if s == litefs.RWMutexStateExclusive {
			return litefs.RWMutexStateExclusive
		} else if s == litefs.RWMutexStateShared {
			st = litefs.RWMutexStateShared
		}
	}
	return st
}

// apply returns the model after o and the expected observable result.
func (m model) apply(o op) (model, string) {
	switch o.Kind {
	case 0:
		if m.canLock(o.G) {
			m[o.G] = litefs.RWMutexStateExclusive
			return m, "true"
		}
		return m, "false"
	case 1:
		if m.canRLock(o.G) {
			m[o.G] = litefs.RWMutexStateShared
			return m, "true"
		}
		return m, "false"
	case 2:
		m[o.G] = litefs.RWMutexStateUnlocked
		return m, ""
	case 3:
		return m, fmt.Sprintf("%v/%s", m.canLock(o.G), m.mutexState())
	default:
		return m, fmt.Sprintf("%v", m.canRLock(o.G))
	}
}

// ---- implementation driver ----

type impl struct {
	rw litefs.RWMutex
	g  [nGuards]litefs.RWMutexGuard
}

func newImpl() *impl {
	im := &impl{}
	for i := range im.g {
		im.g[i] = im.rw.Guard()
	}
	return im
}

func (im *impl) do(o op) (res string) {
	defer func() {
		if r := recover(); r != nil {
			res = fmt.Sprintf("PANIC: %v", r)
		}
	}()
	g := &im.g[o.G]
	switch o.Kind {
	case 0:
		return fmt.Sprint(g.TryLock())
	case 1:
		return fmt.Sprint(g.TryRLock())
	case 2:
		g.Unlock()
		return ""
	case 3:
		ok, st := g.CanLock()
		return fmt.Sprintf("%v/%s", ok, st)
	default:
		return fmt.Sprint(g.CanRLock())
	}
}

func (im *impl) key() string {
	sharedN, excl := im.rw.VerifDump()
	ex := -1
	for i := range im.g {
		if excl == &im.g[i] {
			ex = i
		}
	}
	if excl != nil && ex == -1 {
		ex = 99 // exclusive holder is not one of our guards: distinct (bad) state
	}
	var sb strings.Builder
	fmt.Fprintf(&sb, "n=%d x=%d", sharedN, ex)
	for i := range im.g {
		fmt.Fprintf(&sb, " %d", im.g[i].State())
	}
	return sb.String()
}

func (im *impl) guardStates() model {
	var m model
	for i := range im.g {
		m[i] = im.g[i].State()
	}
	return m
}

func replay(hist []op) (*impl, model) {
	im := newImpl()
	var m model
	for _, o := range hist {
		im.do(o)
		m, _ = m.apply(o)
	}
	return im, m
}

func histString(h []op) []string {
	out := make([]string, len(h))
	for i, o := range h {
		out[i] = o.String()
	}
	return out
}

func TestCheck(t *testing.T) {
	run := vlib.Start("C12", "model_checking")

	// ---------- Part A: closure ----------
	var alphabet []op
	for k := 0; k < 5; k++ {
		for g := 0; g < nGuards; g++ {
			alphabet = append(alphabet, op{G: g, Kind: k})
		}
	}
	seen := map[string][]op{newImpl().key(): nil}
	frontier := [][]op{nil}
	states, transitions, maxDepth := 1, 0, 0
	var samples []any
	outcomes := vlib.Distinct{}
	for len(frontier) > 0 {
		// The reference space has 20 states. An implementation that keeps producing new ones (a counter that only
		// grows) would never reach closure: stop once it has clearly left the reference space or violations are in hand.
		if states > 200 || run.NViolations() >= 5 {
			break
		}
		hist := frontier[0]
		frontier = frontier[1:]
		if len(hist) > maxDepth {
			maxDepth = len(hist)
		}
		for _, o := range alphabet {
			im, m := replay(hist)
			before := im.key()
			got := im.do(o)
			m2, want := m.apply(o)
			transitions++
			full := append(append([]op{}, hist...), o)
			outcomes.Add(o.String()[3:] + "=" + got)
			if strings.HasPrefix(got, "PANIC") {
				// A panic leaves rw.mu locked: never touch this instance again.
				run.Violation("A/panic/"+kindNames[o.Kind], fmt.Sprintf("operation panicked: %s\nhistory=%v\nstate before=%q", got, histString(full), before),
					map[string]any{"part": "A", "history": histString(full)})
				continue
			}
			after := im.key()

			fail := func(key, what string) {
				run.Violation(key, fmt.Sprintf("%s\nhistory=%v\nimpl result=%q model result=%q\nimpl state before=%q after=%q model after=%v",
					what, histString(full), got, want, before, after, m2), map[string]any{"part": "A", "history": histString(full)})
			}
			if got != want {
				fail("A/result/"+kindNames[o.Kind], "return value differs from POSIX reader/writer rules")
			}
			if gs := im.guardStates(); gs != m2 {
				fail("A/guardstate/"+kindNames[o.Kind], fmt.Sprintf("guard states %v differ from model %v", gs, m2))
			}
			if st := im.rw.State(); st != m2.mutexState() {
				fail("A/mutexstate/"+kindNames[o.Kind], fmt.Sprintf("mutex state %s differs from model %s", st, m2.mutexState()))
			}
			// A failed attempt and every query changes nothing.
			if (got == "false" || o.Kind >= 3) && after != before {
				fail("A/failed-attempt-mutates/"+kindNames[o.Kind], "a failed attempt or a query changed the lock state")
			}
			// Structural invariant on the private state.
			sharedN, excl := im.rw.VerifDump()
			nS, nX := 0, 0
			for _, s := range im.guardStates() {
				if s == litefs.RWMutexStateShared {
					nS++
				} else if s == litefs.RWMutexStateExclusive {
					nX++
				}
			}
			if nX > 1 || (nX == 1 && nS > 0) || sharedN != nS || (excl != nil) != (nX == 1) {
				fail("A/invariant", fmt.Sprintf("invariant broken: sharedN=%d excl=%v guards S=%d X=%d", sharedN, excl != nil, nS, nX))
			}
			if _, ok := seen[after]; !ok {
				seen[after] = full
				states++
				frontier = append(frontier, full)
				if len(samples) < 6 {
					samples = append(samples, map[string]any{"history": histString(full), "impl_state": after, "last_result": got})
				}
			}
		}
	}
	// The reference space has exactly 1 + C(4,1..4 shared subsets) + 4 exclusive = 20 states.
	if states != 20 {
		run.Violation("A/state-count", fmt.Sprintf("implementation reaches %d distinct states, reference space has 20", states), map[string]any{"part": "A", "states": states})
	}

	// ---------- Part B: blocking variants on the fake clock ----------
	bEvals, bDistinct := 0, vlib.Distinct{}
	type bcase struct {
		Holder string // "X" or "S" or "S2" (two shared holders)
		Waiter string // "Lock" or "RLock"
		Event  string // release | downgrade | cancel | deadline | release-one
		At     int    // quanta after the waiter started
	}
	var bcases []bcase
	for _, h := range []string{"X", "S", "S2"} {
		for _, w := range []string{"Lock", "RLock"} {
			for _, e := range []string{"release", "downgrade", "cancel", "deadline", "release-one"} {
				for _, at := range []int{0, 1, 2, 7} {
					bcases = append(bcases, bcase{h, w, e, at})
				}
			}
		}
	}
	const q = litefs.RWMutexInterval
	// A lock table that already disagrees with the reader/writer rules can leave a waiter of parts B / B2 blocked for
	// ever (a lock nobody holds that never becomes free): part A's verdict stands on its own then.
	skipBlocking := run.NViolations() > 0
	if skipBlocking {
		bcases = nil
	}
	for _, bc := range bcases {
		bc := bc
		var obs string
		synctest.Test(t, func(t *testing.T) {
			var rw litefs.RWMutex
			h1, h2, wg := rw.Guard(), rw.Guard(), rw.Guard()
			switch bc.Holder {
			case "X":
				h1.TryLock()
			case "S":
				h1.TryRLock()
			case "S2":
				h1.TryRLock()
				h2.TryRLock()
			}
			var m model // index 0,1 holders; 2 waiter
			m[0], m[1] = h1.State(), h2.State()

			ctx, cancel := context.WithCancelCause(context.Background())
			defer cancel(nil)
			cause := errors.New("test-cancel")
			if bc.Event == "deadline" {
				var c2 context.CancelFunc
				ctx, c2 = context.WithTimeout(ctx, time.Duration(bc.At)*q+q/2)
				defer c2()
			}
			start := time.Now()
			type ret struct {
				err error
				at  time.Duration
			}
			done := make(chan ret, 1)
			go func() {
				var err error
				if bc.Waiter == "Lock" {
					err = wg.Lock(ctx)
				} else {
					err = wg.RLock(ctx)
				}
				done <- ret{err, time.Since(start)}
			}()
			synctest.Wait()
			// availability at time zero
			avail := func() bool {
				if bc.Waiter == "Lock" {
					return m.canLock(2)
				}
				return m.canRLock(2)
			}
			availAt := time.Duration(-1)
			if avail() {
				availAt = 0
			}
			endAt := time.Duration(-1) // context end
			if bc.Event == "deadline" {
				endAt = time.Duration(bc.At)*q + q/2
			}
			time.Sleep(time.Duration(bc.At)*q + q/4) // land strictly between ticks
			evAt := time.Since(start)
			switch bc.Event {
			case "release":
				h1.Unlock()
				h2.Unlock()
				m[0], m[1] = 0, 0
			case "release-one":
				h1.Unlock()
				m[0] = 0
			case "downgrade":
				h1.TryRLock()
				m[0] = h1.State()
			case "cancel":
				cancel(cause)
				if endAt < 0 {
					endAt = evAt
				}
			}
			if availAt < 0 && avail() {
				availAt = evAt
			}
			time.Sleep(20 * q)
			synctest.Wait()
			var r *ret
			select {
			case v := <-done:
				r = &v
			default:
			}
			// Oracle.
			obs = "blocked"
			if r != nil {
				if r.err == nil {
					obs = "acquired"
				} else {
					obs = "ctx-error"
				}
			}
			fail := func(key, what string) {
				run.Violation("B/"+key, fmt.Sprintf("%s\ncase=%+v availAt=%v ctxEndAt=%v result=%+v", what, bc, availAt, endAt, r), map[string]any{"part": "B", "case": bc})
			}
			switch {
			case availAt >= 0 && (endAt < 0 || availAt < endAt):
				// Must have been acquired within two polling quanta of becoming available.
				if r == nil || r.err != nil {
					fail("not-acquired/"+bc.Waiter, "lock became available but the blocking call did not acquire it")
				} else if r.at > availAt+2*q {
					fail("late/"+bc.Waiter, "blocking call returned later than two polling quanta after the lock became available")
				} else if r.at < availAt {
					fail("early/"+bc.Waiter, "blocking call returned success before the lock was available")
				}
			case endAt >= 0:
				if r == nil {
					fail("no-return-on-ctx/"+bc.Waiter, "context ended but the blocking call did not return")
				} else if r.err == nil {
					if availAt < 0 {
						fail("acquired-unavailable/"+bc.Waiter, "blocking call returned success while the lock was never available")
					}
				} else {
					if r.at > endAt+q {
						fail("late-ctx/"+bc.Waiter, "blocking call returned later than one quantum after its context ended")
					}
					if bc.Event == "cancel" && !errors.Is(r.err, cause) {
						fail("ctx-cause/"+bc.Waiter, "blocking call did not return the context's cause")
					}
				}
			default:
				if r != nil && r.err == nil {
					fail("acquired-unavailable/"+bc.Waiter, "blocking call returned success while the lock was never available")
				}
			}
			// When acquired, the table must reflect it and exclude correctly.
			if r != nil && r.err == nil {
				want := litefs.RWMutexStateExclusive
				if bc.Waiter == "RLock" {
					want = litefs.RWMutexStateShared
				}
				if wg.State() != want {
					fail("state-after-acquire/"+bc.Waiter, "guard state after a successful blocking acquire is wrong")
				}
			}
			cancel(nil)
			time.Sleep(2 * q)
			synctest.Wait()
			if r == nil {
				<-done // unblock before leaving the bubble
			}
		})
		bEvals++
		bDistinct.Add(fmt.Sprintf("%s/%s/%s=%s", bc.Holder, bc.Waiter, bc.Event, obs))
	}

	// ---------- Part B2: events landing inside a retry of the blocking call ----------
	// The waiter's k-th attempt (k = 2, 3: after a tick was chosen over the context) is held at its entry (the
	// instrumented point before the attempt takes the mutex's internal lock) while the holders release and / or the
	// context is cancelled; then it proceeds. Whatever the call returns must agree with the guard: an error means
	// nothing was taken, success means the lock is held.
	type b2case struct {
		Holder string // X | S | S2
		Waiter string // Lock | RLock
		Event  string // release+cancel | cancel | release
		K      int
	}
	var b2cases []b2case
	for _, h := range []string{"X", "S", "S2"} {
		for _, w := range []string{"Lock", "RLock"} {
			if w == "RLock" && h != "X" {
				continue // a shared lock is granted next to shared holders at the first attempt: there is no retry
			}
			for _, e := range []string{"release+cancel", "cancel", "release"} {
				for _, k := range []int{2, 3} {
					b2cases = append(b2cases, b2case{h, w, e, k})
				}
			}
		}
	}
	if skipBlocking {
		b2cases = nil
	}
	for _, bc := range b2cases {
		bc := bc
		var obs string
		synctest.Test(t, func(t *testing.T) {
			var rw litefs.RWMutex
			h1, h2, wg := rw.Guard(), rw.Guard(), rw.Guard()
			switch bc.Holder {
			case "X":
				h1.TryLock()
			case "S":
				h1.TryRLock()
			case "S2":
				h1.TryRLock()
				h2.TryRLock()
			}
			ctx, cancel := context.WithCancelCause(context.Background())
			defer cancel(nil)
			cause := errors.New("test-cancel")
			attempts := 0
			fired := false
			site := "rw.trylock"
			if bc.Waiter == "RLock" {
				site = "rw.tryrlock"
			}
			litefs.VerifSetHook(func(s string, obj any, a int64, b bool) {
				if s != site || obj != any(&wg) {
					return
				}
				attempts++
				if attempts == bc.K && !fired {
					fired = true
					if strings.Contains(bc.Event, "release") {
						h1.Unlock()
						h2.Unlock()
					}
					if strings.Contains(bc.Event, "cancel") {
						cancel(cause)
					}
				}
			})
			defer litefs.VerifSetHook(nil)
			type ret struct{ err error }
			done := make(chan ret, 1)
			go func() {
				var err error
				if bc.Waiter == "Lock" {
					err = wg.Lock(ctx)
				} else {
					err = wg.RLock(ctx)
				}
				done <- ret{err}
			}()
			time.Sleep(50 * q)
			synctest.Wait()
			var r *ret
			select {
			case v := <-done:
				r = &v
			default:
			}
			fail := func(key, what string) {
				run.Violation("B2/"+key, fmt.Sprintf("%s\ncase=%+v result=%+v guard=%v mutex=%v", what, bc, r, wg.State(), rw.State()), map[string]any{"part": "B2", "case": bc})
			}
			litefs.VerifSetHook(nil)
			switch {
			case !fired:
				run.HarnessError("B2 %+v: the waiter never reached attempt %d", bc, bc.K)
			case r == nil:
				obs = "blocked"
				if bc.Event != "release" || true {
					fail("no-return/"+bc.Waiter, "the blocking call did not return although the lock was released or its context cancelled")
				}
			case r.err != nil:
				obs = "error"
				if wg.State() != litefs.RWMutexStateUnlocked {
					fail("failed-attempt-holds-lock/"+bc.Waiter, "the blocking call returned an error but its guard holds the lock: a failed attempt must change nothing")
				}
				if rw.State() != litefs.RWMutexStateUnlocked && strings.Contains(bc.Event, "release") {
					fail("failed-attempt-left-mutex-locked/"+bc.Waiter, "every holder released and the waiter's call failed, but the mutex is not unlocked")
				}
				if !strings.Contains(bc.Event, "cancel") {
					fail("error-without-cancel/"+bc.Waiter, "the blocking call failed although its context was never cancelled")
				} else if !errors.Is(r.err, cause) {
					fail("ctx-cause/"+bc.Waiter, "the blocking call did not return the context's cause")
				}
			default:
				obs = "acquired"
				want := litefs.RWMutexStateExclusive
				if bc.Waiter == "RLock" {
					want = litefs.RWMutexStateShared
				}
				if wg.State() != want {
					fail("state-after-acquire/"+bc.Waiter, "the blocking call returned success but its guard does not hold the lock")
				}
				if !strings.Contains(bc.Event, "release") && !(bc.Waiter == "RLock" && bc.Holder != "X") {
					fail("acquired-unavailable/"+bc.Waiter, "the blocking call returned success although no holder released")
				}
			}
			cancel(nil)
			h1.Unlock()
			h2.Unlock()
			time.Sleep(2 * q)
			synctest.Wait()
			if r == nil {
				<-done
			}
		})
		bEvals++
		bDistinct.Add(fmt.Sprintf("B2 %s/%s/%s@%d=%s", bc.Holder, bc.Waiter, bc.Event, bc.K, obs))
	}

	// ---------- Part C: byte ranges -> locks ----------
	// Every byte range an fcntl request can name around the lock bytes maps to exactly the locks whose byte lies in it
	// (the FUSE handlers translate a request with these two functions before they touch the mutexes).
	cEvals := 0
	{
		type lockByte struct {
			t litefs.LockType
			b uint64
		}
		shm := []lockByte{}
		for _, t := range []litefs.LockType{litefs.LockTypeWrite, litefs.LockTypeCkpt, litefs.LockTypeRecover, litefs.LockTypeRead0, litefs.LockTypeRead1, litefs.LockTypeRead2, litefs.LockTypeRead3, litefs.LockTypeRead4, litefs.LockTypeDMS} {
			shm = append(shm, lockByte{t, uint64(t)})
		}
		dbl := []lockByte{{litefs.LockTypePending, uint64(litefs.LockTypePending)}, {litefs.LockTypeReserved, uint64(litefs.LockTypeReserved)}, {litefs.LockTypeShared, uint64(litefs.LockTypeShared)}}
		expect := func(set []lockByte, start, end uint64) string {
			var out []string
			for _, l := range set {
				if start <= l.b && l.b <= end {
					out = append(out, l.t.String())
				}
			}
			return strings.Join(out, ",")
		}
		str := func(ts []litefs.LockType) string {
			var out []string
			for _, t := range ts {
				out = append(out, t.String())
			}
			return strings.Join(out, ",")
		}
		var shmPts []uint64
		for b := uint64(116); b <= 132; b++ {
			shmPts = append(shmPts, b)
		}
		shmPts = append(shmPts, 0, 1, 1<<31, ^uint64(0))
		for _, a := range shmPts {
			for _, b := range shmPts {
				if b < a {
					continue
				}
				cEvals++
				if got, want := str(litefs.ParseSHMLockRange(a, b)), expect(shm, a, b); got != want {
					run.Violation("C/shm-range", fmt.Sprintf("ParseSHMLockRange(%d,%d) = [%s], the bytes in that range are the locks [%s]", a, b, got, want), map[string]any{"part": "C", "start": a, "end": b})
				}
			}
		}
		p0 := uint64(litefs.LockTypePending)
		dbPts := []uint64{0, p0 - 2, p0 - 1, p0, p0 + 1, p0 + 2, p0 + 3, p0 + 511, p0 + 512, ^uint64(0)}
		for _, a := range dbPts {
			for _, b := range dbPts {
				if b < a {
					continue
				}
				cEvals++
				if got, want := str(litefs.ParseDatabaseLockRange(a, b)), expect(dbl, a, b); got != want {
					run.Violation("C/db-range", fmt.Sprintf("ParseDatabaseLockRange(%#x,%#x) = [%s], the bytes in that range are the locks [%s]", a, b, got, want), map[string]any{"part": "C", "start": a, "end": b})
				}
			}
		}
	}

	samples = append(samples, map[string]any{"part": "B", "blocking_cases": bEvals, "distinct_outcomes": bDistinct.Top(60)})
	cov := map[string]any{
		"states":                        states,
		"transitions":                   transitions,
		"traces_validated_against_impl": transitions,
		"max_depth":                     maxDepth,
		"exhaustive":                    true,
		"distinct_outcomes":             outcomes.N(),
		"blocking_cases":                bEvals,
		"blocking_distinct_outcomes":    bDistinct.N(),
		"byte_range_mappings":           cEvals,
		"blocking_parts_skipped":        skipBlocking,
		"samples":                       samples,
		"rule":                          "Part A: BFS to closure over the implementation's private state key (sharedN, excl holder, 4 guard states); every one of the 20 alphabet operations is executed from every reachable state on a fresh RWMutex and compared with a POSIX one-byte lock model. Part B: every (holder kind, waiter kind, event, event time) combination of the blocking Lock/RLock on a synctest fake clock.",
	}
	if (outcomes.N() < 8 || bDistinct.N() < 6) && run.NViolations() == 0 {
		run.HarnessError("vacuous exploration: %d / %d distinct outcomes", outcomes.N(), bDistinct.N())
	}
	if os.Getenv("VERIF_DEBUG") != "" {
		fmt.Println(bDistinct.Top(100))
	}
	run.Finish(cov, []string{
		"The model is the property's own three-line rule: exclusive iff no other holder; shared iff no other exclusive holder; unlock always.",
		"Part B measures time on the testing/synctest fake clock; polling quantum = litefs.RWMutexInterval.",
		"Unsynchronised data races are outside a deterministic search; see the separate -race pass (auxiliary).",
	})
}
