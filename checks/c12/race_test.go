// Auxiliary pass for C12's "concurrent goroutines ... under the race detector" clause. Not a deciding step
// and not run by ./check: `./race.sh C12` builds this package with -race and runs TestRaceAux free-running.
// Four goroutines, one guard each, issue the lock operations in a fixed pseudo-random order on one RWMutex;
// the race detector watches the implementation's own memory, and an occupancy counter kept by the goroutines
// checks that an exclusive holder is never accompanied by anyone.
package c12

import (
	"context"
	"os"
	"sync"
	"sync/atomic"
	"testing"
	"time"

	"github.com/superfly/litefs"
)

func TestRaceAux(t *testing.T) {
	if os.Getenv("VERIF_RACE_AUX") == "" {
		t.Skip("auxiliary race pass: set VERIF_RACE_AUX=1 (see race.sh)")
	}
	var rw litefs.RWMutex
	var shared, excl atomic.Int32
	var wg sync.WaitGroup
	for g := 0; g < 4; g++ {
		wg.Add(1)
		go func(seed uint32) {
			defer wg.Done()
			guard := rw.Guard()
			state := 0 // 0 none, 1 shared, 2 exclusive (this goroutine's own view)
			x := seed*2654435761 + 1
			leave := func() {
				switch state {
				case 1:
					shared.Add(-1)
				case 2:
					excl.Add(-1)
				}
				state = 0
			}
			enter := func(s int) {
				leave()
				if s == 1 {
					shared.Add(1)
					if excl.Load() != 0 {
						t.Errorf("shared lock granted while another guard holds the lock exclusively")
					}
				} else {
					excl.Add(1)
					if excl.Load() != 1 || shared.Load() != 0 {
						t.Errorf("exclusive lock granted while the lock is held (excl=%d shared=%d)", excl.Load(), shared.Load())
					}
				}
				state = s
			}
			for i := 0; i < 20000; i++ {
				x = x*1664525 + 1013904223
				switch (x >> 24) % 7 {
				case 0:
					if state != 2 { // leaving "shared" happens-before the upgrade attempt
						prev := state
						leave()
						if guard.TryLock() {
							enter(2)
						} else if prev == 1 {
							// an upgrade that fails keeps the shared lock
							enter(1)
						}
					}
				case 1:
					if state == 0 && guard.TryRLock() {
						enter(1)
					} else if state == 2 {
						leave()
						if guard.TryRLock() { // downgrade always succeeds
							enter(1)
						} else {
							t.Errorf("downgrade from exclusive to shared refused")
						}
					}
				case 2:
					leave()
					guard.Unlock()
				case 3:
					_ = guard.CanRLock()
				case 4:
					_, _ = guard.CanLock()
				case 5:
					if state == 0 {
						ctx, cancel := context.WithTimeout(context.Background(), 200*time.Microsecond)
						if guard.RLock(ctx) == nil {
							enter(1)
						}
						cancel()
					}
				case 6:
					if state == 0 {
						ctx, cancel := context.WithTimeout(context.Background(), 200*time.Microsecond)
						if guard.Lock(ctx) == nil {
							enter(2)
						}
						cancel()
					}
				}
			}
			leave()
			guard.Unlock()
		}(uint32(g + 1))
	}
	wg.Wait()
	if s := rw.State(); s != litefs.RWMutexStateUnlocked {
		t.Errorf("lock not free after every guard unlocked: %v", s)
	}
}
