// C02: rollback-journal commits are captured exactly, once, in order.
//
// Exhaustive enumeration of pager programs (single transactions of every
// shape from every starting size, and chains of two over a core of shapes)
// executed on a real primary store through the real FUSE handlers; after every
// transaction the new LTX file is decoded and applied to the reference image
// of the previous position.
package c02

import (
	"fmt"
	"testing"

	"verif/pager"
	"verif/prog"
	"verif/vlib"
)

func sizesAfter(s uint32) []uint32 {
	var out []uint32
	add := func(v uint32) {
		if v >= 1 && v != s {
			for _, o := range out {
				if o == v {
					return
				}
			}
			out = append(out, v)
		}
	}
	out = append(out, 0) // unchanged
	add(s + 1)
	add(s + 2)
	add((s/256+1)*256 + 1) // into the next checksum block
	if s > 1 {
		add(s - 1)
	}
	if s > 2 {
		add(s - 2)
	}
	if s > 256 {
		add(((s - 1) / 256) * 256) // shrink to the end of the previous block
		add(((s-1)/256)*256 - 55)  // shrink into the previous block
	}
	add(1)
	return out
}

func modSets(s uint32) [][]uint32 {
	sets := [][]uint32{{}}
	if s >= 2 {
		sets = append(sets, []uint32{2}, []uint32{s})
	}
	if s >= 4 {
		sets = append(sets, []uint32{2, s / 2, s})
	}
	if s >= 300 {
		sets = append(sets, []uint32{256, 257})
	}
	return sets
}

func singles(s uint32, thorough bool) []pager.RTx {
	var out []pager.RTx
	for _, mods := range modSets(s) {
		for _, ns := range sizesAfter(s) {
			spills := [][]int{nil}
			if len(mods) >= 1 {
				spills = append(spills, []int{1})
			}
			if len(mods) >= 2 {
				spills = append(spills, []int{1, 2})
			}
			for _, sp := range spills {
				for _, sync := range []int{0, 2} {
					for _, fin := range []string{"DELETE", "TRUNCATE", "PERSIST"} {
						for _, oc := range []string{"commit", "rollback"} {
							if oc == "rollback" && ns != 0 && ns != s+1 && ns != 1 {
								continue // rollback does not depend on every target size
							}
							out = append(out, pager.RTx{Mods: mods, NewSize: ns, SpillAfter: sp, SyncMode: sync, Final: fin, Outcome: oc})
						}
					}
				}
			}
		}
	}
	// Pages appended, spilled to the file, and partly or wholly freed again before the commit (peak size above the final size).
	if s >= 2 {
		for _, fin := range []string{"DELETE", "TRUNCATE", "PERSIST"} {
			for _, oc := range []string{"commit", "rollback"} {
				for _, sync := range []int{0, 2} {
					out = append(out,
						pager.RTx{Mods: []uint32{2}, NewSize: s + 2, Peak: s + 4, SpillAfter: []int{1}, SyncMode: sync, Final: fin, Outcome: oc},
						pager.RTx{Mods: []uint32{2}, Peak: s + 3, SpillAfter: []int{1}, SyncMode: sync, Final: fin, Outcome: oc},
						pager.RTx{Mods: []uint32{2, s}, NewSize: s + 1, Peak: s + 258, SpillAfter: []int{2}, SyncMode: sync, Final: fin, Outcome: oc})
				}
			}
		}
	}
	for _, fin := range []string{"DELETE", "TRUNCATE", "PERSIST"} {
		out = append(out, pager.RTx{Final: fin, Outcome: "lockonly"})
		out = append(out, pager.RTx{Mods: []uint32{2}, Final: fin, Outcome: "commit", SameBytes: true})
		out = append(out, pager.RTx{Final: fin, Outcome: "commit", ToWAL: true})
	}
	return out
}

// core returns the reduced shape set used for chains.
func core(s uint32) []pager.RTx {
	var out []pager.RTx
	fins := []string{"DELETE", "TRUNCATE", "PERSIST"}
	i := 0
	for _, ns := range sizesAfter(s) {
		for _, mods := range [][]uint32{{}, {2, s}} {
			fin := fins[i%3]
			i++
			out = append(out, pager.RTx{Mods: mods, NewSize: ns, Final: fin, Outcome: "commit"})
		}
	}
	out = append(out,
		pager.RTx{Mods: []uint32{2, s}, SpillAfter: []int{1}, Final: "PERSIST", Outcome: "commit"},
		pager.RTx{Mods: []uint32{2, s}, SpillAfter: []int{1}, Final: "DELETE", Outcome: "rollback"},
		pager.RTx{Mods: []uint32{2}, Final: "TRUNCATE", Outcome: "rollback"},
		pager.RTx{Mods: []uint32{2}, SyncMode: 2, Final: "PERSIST", Outcome: "rollback"},
		pager.RTx{Final: "DELETE", Outcome: "lockonly"},
		pager.RTx{Mods: []uint32{2}, SyncMode: 2, NewSize: s + 1, Final: "DELETE", Outcome: "commit"},
		pager.RTx{Mods: []uint32{2}, NewSize: s + 1, Peak: s + 3, SpillAfter: []int{1}, Final: "DELETE", Outcome: "commit"},
	)
	return out
}

func sizeAfter(s uint32, tx pager.RTx) uint32 {
	if tx.Outcome == "commit" && tx.NewSize != 0 {
		return tx.NewSize
	}
	return s
}

func TestCheck(t *testing.T) {
	prog.ServeIfWorker(t, "C02")
	run := vlib.Start("C02", "model_checking")

	starts := []uint32{1, 2, 3, 255, 256, 257, 513}
	pageSizes := []int{512, 4096}
	if run.Thorough() {
		pageSizes = []int{512, 1024, 2048, 4096, 8192, 16384, 32768, 65536}
	}
	var cases []prog.Case
	nSingles, nChains2, nChains3 := 0, 0, 0
	for _, ps := range pageSizes {
		for _, s := range starts {
			if ps > 4096 && s > 3 && s != 257 {
				continue // large pages: keep the block-crossing size only
			}
			if ps == 4096 && !run.Thorough() && (s == 255 || s == 513) {
				continue
			}
			for _, tx := range singles(s, run.Thorough()) {
				tx := tx
				cases = append(cases, prog.Case{PageSize: ps, Start: s, Ops: []prog.Op{{Kind: "rtx", R: &tx}}})
				nSingles++
			}
			// a database created by a multi-page first transaction with a cache spill is covered by Start itself;
			// chains: dirty set, block cache and pageN carry over.
			if ps != 512 && !run.Thorough() {
				continue
			}
			if ps > 4096 {
				continue
			}
			chainStarts := map[uint32]bool{2: true, 3: true, 256: true, 257: true}
			if !chainStarts[s] {
				continue
			}
			for _, t1 := range core(s) {
				s1 := sizeAfter(s, t1)
				for _, t2 := range core(s1) {
					t1, t2 := t1, t2
					cases = append(cases, prog.Case{PageSize: ps, Start: s, Ops: []prog.Op{{Kind: "rtx", R: &t1}, {Kind: "rtx", R: &t2}}})
					nChains2++
					if run.Thorough() && ps == 512 && (s == 3 || s == 257) {
						s2 := sizeAfter(s1, t2)
						for k, t3 := range core(s2) {
							if k%3 != 0 {
								continue
							}
							t3 := t3
							cases = append(cases, prog.Case{PageSize: ps, Start: s, Ops: []prog.Op{{Kind: "rtx", R: &t1}, {Kind: "rtx", R: &t2}, {Kind: "rtx", R: &t3}}})
							nChains3++
						}
					}
				}
			}
		}
	}
	// A database created from nothing: the first transaction commits or is rolled back (with the journal header
	// carrying its magic at once under synchronous=OFF, and only after the first sync otherwise), before or after a
	// spill; whatever happened, a second creating transaction then commits.
	nCreate := 0
	for _, ps := range pageSizes {
		if ps > 4096 && ps != 65536 {
			continue
		}
		for _, n := range []uint32{1, 2, 3, 257} {
			for _, sync := range []int{0, 2} {
				for _, fin := range []string{"DELETE", "TRUNCATE", "PERSIST"} {
					for _, oc := range []string{"commit", "rollback"} {
						t1 := pager.RTx{Create: true, NewSize: n, SyncMode: sync, Final: fin, Outcome: oc}
						ops := []prog.Op{{Kind: "rtx", R: &t1}}
						if oc == "rollback" {
							t2 := pager.RTx{Create: true, NewSize: n + 1, SyncMode: sync, Final: fin, Outcome: "commit"}
							ops = append(ops, prog.Op{Kind: "rtx", R: &t2})
							if n <= 2 {
								// the same, but the second attempt uses another page size (PRAGMA page_size before the first page exists)
								other := 4096
								if ps == 4096 {
									other = 512
								}
								cases = append(cases, prog.Case{PageSize: ps, Start: 0, Ops: []prog.Op{{Kind: "rtx", R: &t1}, {Kind: "repage", Max: uint32(other)}, {Kind: "rtx", R: &t2}}})
								nCreate++
							}
						} else {
							t2 := pager.RTx{Mods: []uint32{n}, NewSize: n + 1, SyncMode: sync, Final: fin, Outcome: "commit"}
							ops = append(ops, prog.Op{Kind: "rtx", R: &t2})
						}
						cases = append(cases, prog.Case{PageSize: ps, Start: 0, Ops: ops})
						nCreate++
					}
				}
			}
		}
	}
	// A WAL database switched back to a rollback-journal mode (PRAGMA journal_mode=DELETE|TRUNCATE|PERSIST: the log is
	// checkpointed and unlinked, then page 1 is rewritten through a rollback journal), followed by an ordinary
	// rollback-journal transaction; before the switch the log is empty, holds one transaction, or has been checkpointed.
	nLeave := 0
	for _, ps := range pageSizes {
		if ps > 4096 {
			continue
		}
		for _, s := range []uint32{2, 3, 257} {
			for _, fin := range []string{"DELETE", "TRUNCATE", "PERSIST"} {
				for pre := 0; pre < 3; pre++ {
					var ops []prog.Op
					if pre >= 1 {
						ops = append(ops, prog.Op{Kind: "wtx", W: &pager.WTx{Frames: []uint32{1, 2, s + 1}, Outcome: "commit"}})
					}
					if pre == 2 {
						ops = append(ops, prog.Op{Kind: "ckpt", Mode: "TRUNCATE"})
					}
					t := pager.RTx{Mods: []uint32{2}, Final: fin, Outcome: "commit"}
					ops = append(ops, prog.Op{Kind: "leave-wal", Mode: fin}, prog.Op{Kind: "rtx", R: &t})
					cases = append(cases, prog.Case{PageSize: ps, Start: s, StartWAL: true, Ops: ops})
					nLeave++
				}
			}
		}
	}

	// Page content that looks like page 1's WAL marker (02 02 at offset 18) in other pages, followed by an ordinary transaction.
	for _, ps := range pageSizes {
		if ps > 4096 {
			continue
		}
		for _, fin := range []string{"DELETE", "TRUNCATE", "PERSIST"} {
			t1 := pager.RTx{Mods: []uint32{2, 3}, VersionBytes22: true, Final: fin, Outcome: "commit"}
			t2 := pager.RTx{Mods: []uint32{2}, NewSize: 4, Final: fin, Outcome: "commit"}
			cases = append(cases, prog.Case{PageSize: ps, Start: 3, Ops: []prog.Op{{Kind: "rtx", R: &t1}, {Kind: "rtx", R: &t2}}})
		}
	}

	// Growth by pages that are never written: free-list leaves allocated and freed inside the transaction, the file
	// extended by one zero page at commit; followed by a transaction that uses one of them, and by a restart.
	for _, ps := range pageSizes {
		if ps > 4096 {
			continue
		}
		for _, s := range []uint32{3, 255, 257} {
			for _, fin := range []string{"DELETE", "TRUNCATE", "PERSIST"} {
				t1 := pager.RTx{Mods: []uint32{2}, NewSize: s + 3, FreeLeaves: true, Final: fin, Outcome: "commit"}
				t2 := pager.RTx{Mods: []uint32{s + 1}, Final: fin, Outcome: "commit"}
				cases = append(cases, prog.Case{PageSize: ps, Start: s, Ops: []prog.Op{{Kind: "rtx", R: &t1}, {Kind: "rtx", R: &t2}, {Kind: "restart"}}})
				// the same with an ordinary new page in front of the unwritten ones
				t3 := pager.RTx{Mods: []uint32{2}, NewSize: s + 4, FreeLeaves: true, FirstNew: 1, Final: fin, Outcome: "commit"}
				t4 := pager.RTx{Mods: []uint32{s + 2}, Final: fin, Outcome: "commit"}
				cases = append(cases, prog.Case{PageSize: ps, Start: s, Ops: []prog.Op{{Kind: "rtx", R: &t3}, {Kind: "rtx", R: &t4}, {Kind: "restart"}}})
			}
		}
	}

	// LZ4 on: a slice of the single programs.
	for i := 0; i < nSingles; i += 37 {
		c := cases[i]
		if len(c.Ops) == 1 {
			c.Compress = true
			cases = append(cases, c)
		}
	}

	// Lock-page geometry (thorough only: each program builds a 1 GiB database): with 64 KiB pages SQLite's lock
	// page is page 16385; transactions grow across it, write the page after it, shrink back to just before it and
	// across it, and roll back a growth across it.
	nLock := 0
	fourGiBSkipped := ""
	if run.Thorough() {
		r := func(tx pager.RTx) prog.Op { t := tx; return prog.Op{Kind: "rtx", R: &t} }
		lockProgs := [][]prog.Op{
			{r(pager.RTx{NewSize: 16387, Mods: []uint32{2}, Final: "DELETE", Outcome: "commit"}), r(pager.RTx{Mods: []uint32{16386}, Final: "DELETE", Outcome: "commit"}), r(pager.RTx{NewSize: 16384, Final: "TRUNCATE", Outcome: "commit"})},
			{r(pager.RTx{NewSize: 16386, Final: "PERSIST", Outcome: "commit"}), r(pager.RTx{NewSize: 16380, Mods: []uint32{3}, Final: "DELETE", Outcome: "commit"})},
			{r(pager.RTx{NewSize: 16388, Mods: []uint32{2, 16383}, SpillAfter: []int{1}, Final: "DELETE", Outcome: "rollback"}), r(pager.RTx{NewSize: 16384, Final: "DELETE", Outcome: "commit"}), r(pager.RTx{NewSize: 16386, Final: "DELETE", Outcome: "commit"})},
		}
		// growth across the lock page by pages that are never written (free-list leaves): the page before the lock page,
		// the page after it, two pages after it
		lockProgs = append(lockProgs,
			[]prog.Op{r(pager.RTx{NewSize: 16387, Mods: []uint32{2}, FreeLeaves: true, Final: "DELETE", Outcome: "commit"}), r(pager.RTx{Mods: []uint32{16386}, Final: "DELETE", Outcome: "commit"}), {Kind: "restart"}},
			[]prog.Op{r(pager.RTx{NewSize: 16386, FreeLeaves: true, Final: "TRUNCATE", Outcome: "commit"}), r(pager.RTx{Mods: []uint32{16384}, Final: "DELETE", Outcome: "commit"})},
			[]prog.Op{r(pager.RTx{NewSize: 16389, Mods: []uint32{3}, FreeLeaves: true, Final: "PERSIST", Outcome: "commit"}), {Kind: "restart"}, r(pager.RTx{Mods: []uint32{16387}, Final: "DELETE", Outcome: "commit"})},
		)
		for _, ops := range lockProgs {
			cases = append(cases, prog.Case{PageSize: 65536, Start: 16383, Ops: ops})
			nLock++
		}
		// One database just over 4 GiB (65537 pages of 64 KiB): grow, shrink back (byte offsets beyond 32 bits in the
		// truncate), write the last page, restart. About four minutes and 20 GB of memory on its own.
		if avail := vlib.MemAvailableGiB(); avail >= 30 {
			cases = append(cases, prog.Case{PageSize: 65536, Start: 65537, Ops: []prog.Op{
				r(pager.RTx{NewSize: 65539, Mods: []uint32{2}, Final: "DELETE", Outcome: "commit"}),
				r(pager.RTx{NewSize: 65537, Final: "DELETE", Outcome: "commit"}),
				r(pager.RTx{Mods: []uint32{65537}, Final: "DELETE", Outcome: "commit"}),
				// start-up applies the newest transaction file again: LiteFS's own write of a page that starts at byte 2^32
				{Kind: "restart"}}})
			nLock++
		} else {
			fourGiBSkipped = fmt.Sprintf("not run: it needs about 20 GiB of memory-backed scratch and %d GiB are available", avail)
			fmt.Println("NOTE: C02 thorough: the 4 GiB database program was " + fourGiBSkipped)
		}
	}

	var st prog.Stats
	prog.RunAll(run, "C02", cases, &st)

	cov := map[string]any{
		"four_gib_program":              map[bool]string{true: "run (thorough) / not part of the quick tier", false: fourGiBSkipped}[fourGiBSkipped == ""],
		"states":                        st.Cases, // one terminal state per program; every intermediate state is checked too
		"transitions":                   st.Steps,
		"traces_validated_against_impl": st.Cases,
		"programs":                      st.Cases,
		"lock_page_programs":            nLock,
		"single_transaction_programs":   nSingles,
		"chains_of_2":                   nChains2,
		"chains_of_3":                   nChains3,
		"created_from_nothing_programs": nCreate,
		"leave_wal_programs":            nLeave,
		"file_operations_executed":      st.Steps,
		"distinct_outcome_classes":      st.Classes.N(),
		"outcome_classes":               st.Classes.Top(20),
		"page_sizes":                    pageSizes,
		"start_sizes":                   starts,
		"exhaustive":                    true,
		"samples":                       st.Samples,
		"rule":                          "every rollback-journal pager program of the enumerated shape space (modified-page set x new size x spill points x sync mode x finalisation x outcome; plus transactions whose size peaks above the final size) from every starting size, plus all chains of two over the core shapes; transitions = individual file operations issued through the FUSE handlers",
	}
	if st.Classes.N() < 3 && run.NViolations() == 0 {
		run.HarnessError("vacuous: %d outcome classes", st.Classes.N())
	}
	run.Finish(cov, []string{
		"SQLite is played by the pager simulator (verif/pager), which issues the file operations of SQLite's unix VFS and pager; kernel page cache and POSIX lock owners are simulated (DESIGN.md §2.3/2.4).",
		"Page contents are a deterministic function of (page, version); distinct versions differ in every 8-byte word.",
		"Lock-page geometry (1 GiB database) is not enumerated in this check.",
	})
}
