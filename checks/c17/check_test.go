// C17: journal rollback and WAL scanning follow SQLite's validity rules on any bytes.
//
// Journals: the pager simulator runs a rollback-journal transaction on a real
// primary store; before every file operation the data directory is copied
// (every interruption point of SQLite's commit protocol), and for every journal
// write the torn variants (1 byte, half, all-but-one byte of the write applied)
// are derived. Every such image is opened by a fresh Store: the database must
// be exactly the pre-transaction image (or the post-transaction image once the
// journal was finalised). Then every field of every segment header and record
// of the complete journals is mutated, regions are zeroed and every length
// class is cut: Open must neither panic, hang, exit, write outside the
// database's pages, nor succeed with an image other than the one its position names.
// WALs: base logs from the simulator, every truncation class and field
// mutation; the frame sequence litefs.WALReader yields must equal the
// independent reference scanner's, and Open must be robust as above.
package c17

import (
	"context"
	"bytes"
	"encoding/binary"
	"encoding/json"
	"fmt"
	"io"
	"os"
	"path/filepath"
	"runtime/debug"
	"sort"
	"strings"
	"testing"
	"testing/synctest"
	"time"

	"github.com/superfly/litefs"
	"verif/lab"
	"verif/mon"
	"verif/oracle"
	"verif/pager"
	"verif/prog"
	"verif/vlib"
)

type Case struct {
	Kind     string     `json:"kind"` // journal | wal
	PageSize int        `json:"ps"`
	Sector   int        `json:"sector"`
	Start    uint32     `json:"start"`
	Tx       pager.RTx  `json:"tx"`
	WOps     []prog.Op  `json:"wops,omitempty"`
	Mode     string     `json:"mode"`  // legit | mut | count
	Only     int        `json:"only"`  // mutation index, -1 = all
	PrevPersist bool    `json:"prevpersist,omitempty"`
	Skip     []int      `json:"skip,omitempty"` // mutation indexes already known to kill the process
}

func skipped(c Case, i int) bool {
	for _, s := range c.Skip {
		if s == i {
			return true
		}
	}
	return false
}

type Result struct {
	V        []prog.V `json:"v,omitempty"`
	Images   int      `json:"images"`
	Opens    int      `json:"opens"`
	Muts     int      `json:"muts"`
	Classes  []string `json:"classes"`
	Harness  string   `json:"harness,omitempty"`
	Sample   any      `json:"sample,omitempty"`
	Descs    [][2]string `json:"descs,omitempty"`
}

type ctx struct {
	c   Case
	res *Result
}

func (x *ctx) viol(key, format string, args ...any) {
	for _, v := range x.res.V {
		if v.Key == key {
			return
		}
	}
	b, _ := json.Marshal(x.c)
	x.res.V = append(x.res.V, prog.V{Key: key, What: fmt.Sprintf(format, args...) + "\ncase: " + string(b)})
}

func (x *ctx) class(s string) {
	for _, c := range x.res.Classes {
		if c == s {
			return
		}
	}
	x.res.Classes = append(x.res.Classes, s)
}

type image struct {
	label   string
	dir     string
	want    *oracle.Image
	wantPos [2]uint64
	legit   bool
}

// judge opens a store on dir and evaluates the oracle. legit: recovery is required.
// robust opens a store on dir and, if live is non-nil, writes live over the WAL of the running store and runs
// Store.Recover (LiteFS's checkpoint as on a role change). Only "never a panic, an exit or a write outside the
// database's pages" is judged: there is no position to compare the image with.
func (x *ctx) robust(dir, label, what string, live []byte) {
	x.res.Opens++
	var bad string
	litefs.VerifSetHook(func(site string, obj any, a int64, b bool) {
		if site == "db.writepage" && a < 1 {
			bad = fmt.Sprintf("page number %d", a)
		}
	})
	defer litefs.VerifSetHook(nil)
	n := lab.NewNode(lab.NodeConfig{Name: "P", ID: 0x1111, Dir: dir, Candidate: true, Leaser: litefs.NewStaticLeaser(true, "P", "http://P")})
	started := false
	func() {
		defer func() {
			if p := recover(); p != nil {
				st := debug.Stack()
				x.viol(prog.PanicKey(p, st), "%s [%s]: panicked: %v\n%s", what, label, p, trim(st))
			}
		}()
		// What the checkpoint has to produce: the database file as it is, overlaid with the frames of the log up to
		// its last valid commit frame and cut to that frame's size (the reference scanner applies SQLite's rules).
		dbPath := filepath.Join(dir, "dbs", "db")
		var want *oracle.Image
		var wantErr error
		if live == nil {
			want, wantErr = oracle.LogicalImage(readFile(filepath.Join(dbPath, "database")), readFile(filepath.Join(dbPath, "wal")), x.c.PageSize)
		}
		if err := n.Start(); err != nil {
			x.class(what + "/open-error")
			return
		}
		started = true
		compare := false
		if live != nil {
			lab.WaitFor(time.Second, n.Store.IsPrimary)
			if db := n.DB("db"); db != nil {
				want, wantErr = oracle.LogicalImage(readFile(filepath.Join(dbPath, "database")), live, x.c.PageSize)
				_ = os.WriteFile(db.WALPath(), live, 0o666)
				ctx, cancel := context.WithTimeout(context.Background(), 5*time.Second)
				err := n.Store.Recover(ctx)
				cancel()
				x.class(fmt.Sprintf("%s/recover-err=%v", what, err != nil))
				compare = err == nil
			}
		} else {
			x.class(what + "/opened")
			compare = true
		}
		if compare && wantErr == nil && want != nil {
			got, err := oracle.LogicalImage(readFile(filepath.Join(dbPath, "database")), readFile(filepath.Join(dbPath, "wal")), x.c.PageSize)
			if err != nil {
				x.viol("checkpoint-image-unreadable/"+what, "%s [%s]: the database cannot be read back after the checkpoint: %v", what, label, err)
			} else if ok, d := got.Equal(want); !ok {
				x.viol("checkpoint-image/"+what, "%s [%s]: after LiteFS's checkpoint the database (%d pages) is not the file overlaid with the log's committed frames (%d pages): %s", what, label, got.N(), want.N(), d)
			}
		}
	}()
	if started {
		func() {
			defer func() { _ = recover() }()
			_ = n.Stop()
		}()
	}
	if codes := n.ExitCodes(); len(codes) > 0 {
		x.viol("exit/"+what, "%s [%s]: Store.Exit(%v)", what, label, codes)
	}
	if bad != "" {
		x.viol("write-outside/"+what, "%s [%s]: wrote %s (outside the database's pages)", what, label, bad)
	}
}

// liveRecover starts a store on the pre-transaction directory, puts the interrupted transaction's database and
// journal files in place and runs Store.Recover.
func (x *ctx) liveRecover(base, preDir string, im image, pre *oracle.Image, prePos [2]uint64, i int) {
	jsrc := filepath.Join(im.dir, "dbs", "db", "journal")
	if _, err := os.Stat(jsrc); err != nil {
		return // no journal: nothing a running store would roll back
	}
	x.res.Opens++
	dir := filepath.Join(base, fmt.Sprintf("live%03d", i))
	_ = lab.CopyDir(preDir, dir)
	defer lab.RemoveAll(dir)
	n := lab.NewNode(lab.NodeConfig{Name: "P", ID: 0x1111, Dir: dir, Candidate: true, Leaser: litefs.NewStaticLeaser(true, "P", "http://P")})
	what := "live-recover"
	func() {
		defer func() {
			if p := recover(); p != nil {
				st := debug.Stack()
				x.viol(prog.PanicKey(p, st), "%s [%s]: panicked: %v\n%s", what, im.label, p, trim(st))
			}
		}()
		if err := n.Start(); err != nil {
			x.class(what + "/open-error")
			return
		}
		defer func() {
			defer func() { _ = recover() }()
			_ = n.Stop()
		}()
		lab.WaitFor(time.Second, n.Store.IsPrimary)
		db := n.DB("db")
		if db == nil {
			x.class(what + "/no-db")
			return
		}
		_ = os.WriteFile(db.DatabasePath(), readFile(filepath.Join(im.dir, "dbs", "db", "database")), 0o666)
		_ = os.WriteFile(db.JournalPath(), readFile(jsrc), 0o666)
		ctx, cancel := context.WithTimeout(context.Background(), 5*time.Second)
		err := n.Store.Recover(ctx)
		cancel()
		if err != nil {
			x.viol("live-recover-error", "%s [%s]: Store.Recover on a state SQLite's commit protocol can leave behind failed: %v", what, im.label, err)
			return
		}
		got, gerr := oracle.ReadLogicalImage(db.Path(), x.c.PageSize)
		if gerr != nil {
			x.viol("live-recover-unreadable", "%s [%s]: database unreadable after Store.Recover: %v", what, im.label, gerr)
			return
		}
		if ok, d := got.Equal(pre); !ok && !(got.N() == 0 && pre.N() == 0) {
			x.viol("live-recover-image", "%s [%s]: after Store.Recover the database is not the pre-transaction image: %s", what, im.label, d)
		}
		if p := db.Pos(); [2]uint64{uint64(p.TXID), uint64(p.PostApplyChecksum)} != prePos {
			x.viol("live-recover-position", "%s [%s]: position after Store.Recover is %s, want (%d,%016x)", what, im.label, p, prePos[0], prePos[1])
		}
		if _, e := os.Stat(db.JournalPath()); e == nil {
			x.viol("live-recover-journal-left", "%s [%s]: a journal file is left after Store.Recover", what, im.label)
		}
		if codes := n.ExitCodes(); len(codes) > 0 {
			x.viol("exit/"+what, "%s [%s]: Store.Exit(%v)", what, im.label, codes)
		}
		x.class(what + "/recovered")
	}()
}

func (x *ctx) judge(im image, what string) {
	x.res.Opens++
	var writes []int64
	var badWrite string
	litefs.VerifSetHook(func(site string, obj any, a int64, b bool) {
		if site == "db.writepage" {
			writes = append(writes, a)
		}
	})
	defer litefs.VerifSetHook(nil)
	n := lab.NewNode(lab.NodeConfig{Name: "P", ID: 0x1111, Dir: im.dir, Candidate: true, Leaser: litefs.NewStaticLeaser(true, "P", "http://P")})
	var err error
	func() {
		defer func() {
			if p := recover(); p != nil {
				st := debug.Stack()
				x.viol(prog.PanicKey(p, st), "%s [%s]: Store.Open panicked: %v\n%s", what, im.label, p, trim(st))
				err = fmt.Errorf("panic")
			}
		}()
		err = n.Start()
	}()
	defer func() {
		func() {
			defer func() { _ = recover() }()
			_ = n.Stop()
		}()
	}()
	if codes := n.ExitCodes(); len(codes) > 0 {
		x.viol("exit/"+what, "%s [%s]: Store.Exit(%v) during open", what, im.label, codes)
	}
	maxPg := int64(im.want.N())
	if fi, e := os.Stat(filepath.Join(im.dir, "dbs", "db", "database")); e == nil && x.c.PageSize > 0 {
		if p := fi.Size() / int64(x.c.PageSize); p > maxPg {
			maxPg = p
		}
	}
	for _, w := range writes {
		if w < 1 {
			badWrite = fmt.Sprintf("page number %d", w)
		}
	}
	if badWrite != "" {
		x.viol("write-outside/"+what, "%s [%s]: recovery wrote %s (outside the database's pages)", what, im.label, badWrite)
	}
	if err != nil {
		if im.legit {
			x.viol("open-failed/"+what, "%s [%s]: Store.Open failed on a state SQLite's commit protocol can leave behind: %v", what, im.label, err)
		} else {
			x.class(what + "/open-error")
		}
		return
	}
	lab.WaitFor(time.Second, n.Store.IsPrimary)
	db := n.DB("db")
	if db == nil && im.want.N() == 0 && im.wantPos == [2]uint64{} {
		x.class(what + "/recovered-empty")
		return
	}
	if db == nil {
		x.viol("db-missing/"+what, "%s [%s]: database unknown after open", what, im.label)
		return
	}
	pos := db.Pos()
	if [2]uint64{uint64(pos.TXID), uint64(pos.PostApplyChecksum)} != im.wantPos {
		x.viol("position/"+what, "%s [%s]: position after open is %s, want (%d,%016x)", what, im.label, pos, im.wantPos[0], im.wantPos[1])
		return
	}
	_, fs := mon.CheckDB(n, "db", im.want)
	for _, f := range fs {
		x.viol("recovered-"+f.Prop+"-"+f.Key+"/"+what, "%s [%s]: after open: %s", what, im.label, f.What)
	}
	if _, e := os.Stat(db.JournalPath()); e == nil {
		x.viol("journal-left/"+what, "%s [%s]: a journal file is left after open (SQLite would replay it)", what, im.label)
	}
	x.class(what + "/recovered")
}

func trim(st []byte) string {
	var keep []string
	for _, l := range strings.Split(string(st), "\n") {
		if strings.Contains(l, "superfly/litefs") {
			keep = append(keep, strings.TrimSpace(l))
		}
		if len(keep) > 10 {
			break
		}
	}
	return strings.Join(keep, "\n")
}

func readFile(p string) []byte { b, _ := os.ReadFile(p); return b }

// diffRegion returns the changed byte range between a and b (b is the later version).
func diffRegion(a, b []byte) (lo, hi int, changed bool) {
	if bytes.Equal(a, b) {
		return 0, 0, false
	}
	n := len(a)
	if len(b) < n {
		n = len(b)
	}
	lo = 0
	for lo < n && a[lo] == b[lo] {
		lo++
	}
	hi = len(b)
	if len(a) == len(b) {
		for hi > lo && a[hi-1] == b[hi-1] {
			hi--
		}
	}
	return lo, hi, true
}

func runJournal(t *testing.T, c Case) (res Result) {
	x := &ctx{c: c, res: &res}
	synctest.Test(t, func(t *testing.T) {
		base := lab.ScratchDir("c17")
		defer lab.RemoveAll(base)
		live := filepath.Join(base, "live")
		n, err := lab.StartPrimary(live, lab.NodeConfig{})
		if err != nil {
			res.Harness = err.Error()
			return
		}
		stopped := false
		defer func() {
			if !stopped {
				_ = n.Stop()
			}
		}()
		conn := pager.NewConn(n.M, "db", 1, c.PageSize)
		conn.SectorSize = c.Sector
		pre := &oracle.Image{PageSize: c.PageSize}
		var prePos [2]uint64
		if c.Start > 0 {
			r1 := conn.RunRTx(pager.RTx{Create: true, NewSize: c.Start, Final: "DELETE", Outcome: "commit"}, nil)
			if r1.Err != nil || !r1.Committed {
				res.Harness = fmt.Sprintf("setup tx failed: %v at %s", r1.Err, r1.ErrStep)
				return
			}
			// A second, small transaction so that the newest LTX file is not a full image of the database
			// (otherwise re-applying it at open would repair anything a wrong rollback leaves behind).
			tx2 := pager.RTx{Final: "DELETE", Outcome: "commit"}
			if c.PrevPersist {
				// The previous transaction leaves a longer PERSIST journal behind: its records (old nonce) follow
				// the interrupted transaction's shorter journal in the same file.
				tx2 = pager.RTx{Mods: []uint32{2, c.Start}, Final: "PERSIST", Outcome: "commit"}
			}
			r1 = conn.RunRTx(tx2, r1.Intended)
			if r1.Err != nil || !r1.Committed {
				res.Harness = fmt.Sprintf("setup tx 2 failed: %v at %s", r1.Err, r1.ErrStep)
				return
			}
			pre = r1.Intended
			p0 := n.DB("db").Pos()
			prePos = [2]uint64{uint64(p0.TXID), uint64(p0.PostApplyChecksum)}
		}

		// Run the transaction, copying the data directory before every file operation.
		var imgs []image
		var descs []string
		finalized := -1
		conn.Before = func(step int, desc string) {
			dir := filepath.Join(base, fmt.Sprintf("img%03d", len(imgs)))
			if err := lab.CopyDir(live, dir); err != nil {
				panic("copy: " + err.Error())
			}
			imgs = append(imgs, image{label: fmt.Sprintf("before step %d: %s", len(imgs), desc), dir: dir})
			descs = append(descs, desc)
		}
		r2 := conn.RunRTx(c.Tx, pre)
		conn.Before = nil
		if r2.Err != nil || !r2.Committed {
			res.Harness = fmt.Sprintf("base tx failed: %v at %s", r2.Err, r2.ErrStep)
			return
		}
		// final image after the last step
		{
			dir := filepath.Join(base, fmt.Sprintf("img%03d", len(imgs)))
			_ = lab.CopyDir(live, dir)
			imgs = append(imgs, image{label: "after last step", dir: dir})
			descs = append(descs, "end")
		}
		post := r2.Intended
		p1 := n.DB("db").Pos()
		postPos := [2]uint64{uint64(p1.TXID), uint64(p1.PostApplyChecksum)}
		conn.Close()
		_ = n.Stop()
		stopped = true

		// The commit point is the journal finalisation step: images taken after it must recover to post.
		for i, d := range descs {
			if finalized < 0 && (strings.HasPrefix(d, "unlink journal") || strings.HasPrefix(d, "journal truncate 0") || strings.HasPrefix(d, "journal write zero header")) {
				finalized = i
			}
		}
		for i := range imgs {
			imgs[i].legit = true
			if finalized >= 0 && i > finalized {
				imgs[i].want, imgs[i].wantPos = post, postPos
			} else {
				imgs[i].want, imgs[i].wantPos = pre, prePos
			}
		}
		res.Images = len(imgs)
		jpath := func(dir string) string { return filepath.Join(dir, "dbs", "db", "journal") }

		pristine := filepath.Join(base, "pristine") // the directory as it was before the transaction's first step
		if len(imgs) > 0 {
			_ = lab.CopyDir(imgs[0].dir, pristine)
		}
		switch c.Mode {
		case "legit":
			for i, im := range imgs {
				if i > 0 && (finalized < 0 || i <= finalized) {
					// the same files left by an application that died while LiteFS keeps running: the next role change (or
					// halt, export, import) recovers with the store's in-memory state of the pre-transaction database.
					// (Before the image is judged: opening a store on it recovers it in place.)
					x.liveRecover(base, pristine, im, pre, prePos, i)
				}
				x.judge(im, "interrupt")
				// torn variants of the journal write performed by step i (difference between image i and i+1)
				if i+1 < len(imgs) && (finalized < 0 || i < finalized) {
					a, b := readFile(jpath(im.dir)), readFile(jpath(imgs[i+1].dir))
					lo, hi, ch := diffRegion(a, b)
					if !ch || hi-lo < 2 {
						continue
					}
					for _, cut := range []int{1, (hi - lo) / 2, hi - lo - 1} {
						if cut <= 0 || cut >= hi-lo {
							continue
						}
						torn := append([]byte(nil), a...)
						if len(torn) < lo+cut {
							torn = append(torn, make([]byte, lo+cut-len(torn))...)
						}
						copy(torn[lo:lo+cut], b[lo:lo+cut])
						dir := filepath.Join(base, fmt.Sprintf("torn%03d_%d", i, cut))
						_ = lab.CopyDir(im.dir, dir)
						_ = os.WriteFile(jpath(dir), torn, 0o666)
						x.judge(image{label: fmt.Sprintf("step %d (%s) torn after %d of %d bytes", i, descs[i], cut, hi-lo), dir: dir, want: pre, wantPos: prePos, legit: true}, "torn")
						lab.RemoveAll(dir)
					}
				}
			}
		case "mut", "count":
			// Base: the last image before finalisation (complete journal, database fully written).
			bi := finalized
			if bi < 0 {
				bi = len(imgs) - 1
			}
			baseImg := imgs[bi]
			j := readFile(jpath(baseImg.dir))
			muts := journalMutations(j, c.PageSize, c.Sector)
			res.Muts = len(muts)
			if c.Mode == "count" {
				for _, m := range muts {
					res.Descs = append(res.Descs, [2]string{m.kind, m.desc})
				}
				return
			}
			for mi, m := range muts {
				if c.Only >= 0 && mi != c.Only {
					continue
				}
				if skipped(c, mi) {
					continue
				}
				fmt.Fprintf(os.Stderr, "MUT %d %s|%s\n", mi, m.kind, m.desc)
				dir := filepath.Join(base, fmt.Sprintf("mut%04d", mi))
				_ = lab.CopyDir(baseImg.dir, dir)
				_ = os.WriteFile(jpath(dir), m.data, 0o666)
				x.judge(image{label: fmt.Sprintf("mutation %d: %s", mi, m.desc), dir: dir, want: pre, wantPos: prePos, legit: false}, "mut-"+m.kind)
				lab.RemoveAll(dir)
			}
		}
		if res.Sample == nil && len(descs) > 3 {
			res.Sample = map[string]any{"steps": len(descs), "first_steps": descs[:3], "finalize_step": finalized}
		}
	})
	return res
}

type mutation struct {
	kind string
	desc string
	data []byte
}

func journalMutations(j []byte, pageSize, sector int) []mutation {
	var out []mutation
	add := func(kind, desc string, d []byte) { out = append(out, mutation{kind, desc, d}) }
	put := func(off int, v uint32) []byte {
		d := append([]byte(nil), j...)
		if off+4 <= len(d) {
			binary.BigEndian.PutUint32(d[off:], v)
		}
		return d
	}
	// locate segments by SQLite's own rules on the pristine journal
	type seg struct {
		off  int
		nRec int
	}
	var segs []seg
	off := 0
	for off+28 <= len(j) {
		if !bytes.Equal(j[off:off+8], []byte{0xd9, 0xd5, 0x05, 0xf9, 0x20, 0xa1, 0x63, 0xd7}) {
			break
		}
		n := int(binary.BigEndian.Uint32(j[off+8:]))
		if n == 0xffffffff {
			n = (len(j) - sector) / (pageSize + 8)
		}
		segs = append(segs, seg{off, n})
		off += sector + n*(pageSize+8)
		if r := off % sector; r != 0 {
			off += sector - r
		}
	}
	fields := []struct {
		name string
		at   int
	}{{"nRec", 8}, {"nonce", 12}, {"dbSize", 16}, {"sector", 20}, {"pageSize", 24}}
	for si, s := range segs {
		for fi, f := range fields {
			cur := binary.BigEndian.Uint32(j[s.off+f.at:])
			vals := []uint32{0, 1, 0xffffffff, cur + 1, cur - 1}
			if fi+1 < len(fields) {
				vals = append(vals, binary.BigEndian.Uint32(j[s.off+fields[fi+1].at:]))
			}
			for _, v := range vals {
				if v == cur {
					continue
				}
				add("hdr-"+f.name, fmt.Sprintf("segment %d header %s := %#x (was %#x)", si, f.name, v, cur), put(s.off+f.at, v))
			}
		}
		// magic damaged / header zeroed / sector zeroed
		d := append([]byte(nil), j...)
		d[s.off] ^= 0xff
		add("magic", fmt.Sprintf("segment %d magic damaged", si), d)
		d = append([]byte(nil), j...)
		for i := 0; i < 28 && s.off+i < len(d); i++ {
			d[s.off+i] = 0
		}
		add("hdr-zeroed", fmt.Sprintf("segment %d header zeroed (28 bytes)", si), d)
		d = append([]byte(nil), j...)
		for i := 0; i < sector && s.off+i < len(d); i++ {
			d[s.off+i] = 0
		}
		add("sector-zeroed", fmt.Sprintf("segment %d header sector zeroed", si), d)
		// records
		for r := 0; r < s.nRec && r < 3; r++ {
			ro := s.off + sector + r*(pageSize+8)
			if ro+pageSize+8 > len(j) {
				break
			}
			pg := binary.BigEndian.Uint32(j[ro:])
			for _, v := range []uint32{0, 0xffffffff, pg + 1, pg - 1, uint32(0x40000000/pageSize) + 1, 0x7fffffff} {
				if v != pg {
					add("rec-pgno", fmt.Sprintf("segment %d record %d pgno := %#x (was %d)", si, r, v, pg), put(ro, v))
				}
			}
			d := append([]byte(nil), j...)
			d[ro+4+pageSize+3] ^= 0x01
			add("rec-cksum", fmt.Sprintf("segment %d record %d checksum flipped", si, r), d)
			d = append([]byte(nil), j...)
			d[ro+4+pageSize-200] ^= 0x55
			add("rec-data", fmt.Sprintf("segment %d record %d data byte covered by the checksum flipped", si, r), d)
		}
	}
	// truncation at every length class
	cuts := map[int]bool{}
	for _, s := range segs {
		for _, a := range []int{0, 1, 7, 8, 11, 12, 16, 20, 24, 27, 28, 29, sector - 1, sector, sector + 1, sector + 3, sector + 4, sector + 4 + pageSize/2, sector + 4 + pageSize, sector + 8 + pageSize - 1, sector + 8 + pageSize, sector + 8 + pageSize + 1} {
			if s.off+a < len(j) {
				cuts[s.off+a] = true
			}
		}
	}
	var cl []int
	for c := range cuts {
		cl = append(cl, c)
	}
	sort.Ints(cl)
	for _, c := range cl {
		add("truncate", fmt.Sprintf("journal cut to %d of %d bytes", c, len(j)), append([]byte(nil), j[:c]...))
	}
	// short files over a 3-symbol alphabet for the header region (length <= 32, exhaustive over {00,ff,magic} per 4-byte word is too large; use per-position)
	for n := 1; n <= 32; n++ {
		add("short-zero", fmt.Sprintf("journal = %d zero bytes", n), make([]byte, n))
		add("short-ff", fmt.Sprintf("journal = %d 0xff bytes", n), bytes.Repeat([]byte{0xff}, n))
	}
	m := append([]byte{0xd9, 0xd5, 0x05, 0xf9, 0x20, 0xa1, 0x63, 0xd7}, make([]byte, 1024)...)
	for _, n := range []int{8, 12, 28, 512, 1032} {
		add("magic-then-zero", fmt.Sprintf("journal = magic followed by zeros, %d bytes", n), append([]byte(nil), m[:n]...))
	}
	return out
}

// ---------------------------------------------------------------------------
// WAL part.

func litefsScan(b []byte) (frames [][3]int64, hdrErr string, panicked string) {
	defer func() {
		if p := recover(); p != nil {
			panicked = fmt.Sprintf("%v\n%s", p, trim(debug.Stack()))
		}
	}()
	r := litefs.NewWALReader(bytes.NewReader(b))
	if err := r.ReadHeader(); err != nil {
		return nil, err.Error(), ""
	}
	ps := r.PageSize()
	if ps == 0 || ps > 1<<16 {
		return nil, fmt.Sprintf("pagesize %d", ps), ""
	}
	buf := make([]byte, ps)
	for i := 0; i < 1<<20; i++ {
		pgno, commit, err := r.ReadFrame(buf)
		if err == io.EOF {
			return frames, "", ""
		} else if err != nil {
			return frames, "frame: " + err.Error(), ""
		}
		frames = append(frames, [3]int64{int64(pgno), int64(commit), r.Offset()})
	}
	return frames, "HANG", ""
}

func walMutations(w []byte, ps int) []mutation {
	var out []mutation
	add := func(kind, desc string, d []byte) { out = append(out, mutation{kind, desc, d}) }
	put := func(off int, v uint32) []byte {
		d := append([]byte(nil), w...)
		if off+4 <= len(d) {
			binary.BigEndian.PutUint32(d[off:], v)
		}
		return d
	}
	add("pristine", "unmodified", append([]byte(nil), w...))
	hdrFields := []struct {
		name string
		at   int
	}{{"magic", 0}, {"version", 4}, {"pageSize", 8}, {"ckptSeq", 12}, {"salt1", 16}, {"salt2", 20}, {"cksum1", 24}, {"cksum2", 28}}
	for _, f := range hdrFields {
		if f.at+4 > len(w) {
			continue
		}
		cur := binary.BigEndian.Uint32(w[f.at:])
		for _, v := range []uint32{0, 1, 0xffffffff, cur + 1, cur - 1, cur ^ 1} {
			if v != cur {
				add("hdr-"+f.name, fmt.Sprintf("WAL header %s := %#x", f.name, v), put(f.at, v))
			}
		}
	}
	fs := 24 + ps
	nf := 0
	if len(w) > 32 {
		nf = (len(w) - 32) / fs
	}
	ffields := []struct {
		name string
		at   int
	}{{"pgno", 0}, {"commit", 4}, {"salt1", 8}, {"salt2", 12}, {"cksum1", 16}, {"cksum2", 20}}
	for i := 0; i < nf; i++ {
		fo := 32 + i*fs
		for _, f := range ffields {
			cur := binary.BigEndian.Uint32(w[fo+f.at:])
			for _, v := range []uint32{0, 1, 0xffffffff, cur + 1} {
				if v != cur {
					add("frame-"+f.name, fmt.Sprintf("frame %d %s := %#x", i, f.name, v), put(fo+f.at, v))
				}
			}
		}
		d := append([]byte(nil), w...)
		d[fo+24+ps/2] ^= 0x10
		add("frame-data", fmt.Sprintf("frame %d data byte flipped", i), d)
		if i+1 < nf {
			// swap salts of two frames
			d = append([]byte(nil), w...)
			copy(d[fo+8:fo+16], w[fo+fs+8:fo+fs+16])
			add("salt-swap", fmt.Sprintf("frame %d takes the salts of frame %d", i, i+1), d)
		}
	}
	cuts := map[int]bool{}
	for _, a := range []int{0, 1, 3, 4, 15, 16, 31, 32, 33} {
		cuts[a] = true
	}
	for i := 0; i < nf; i++ {
		fo := 32 + i*fs
		for _, a := range []int{1, 8, 23, 24, 25, 24 + ps/2, fs - 1, fs} {
			cuts[fo+a] = true
		}
	}
	var cl []int
	for c := range cuts {
		if c < len(w) {
			cl = append(cl, c)
		}
	}
	sort.Ints(cl)
	for _, c := range cl {
		add("truncate", fmt.Sprintf("WAL cut to %d of %d bytes", c, len(w)), append([]byte(nil), w[:c]...))
	}
	for _, n := range []int{1, 31, 32, 55, 56, 32 + fs, 32 + 2*fs} {
		add("zeros", fmt.Sprintf("WAL = %d zero bytes", n), make([]byte, n))
		add("ffs", fmt.Sprintf("WAL = %d 0xff bytes", n), bytes.Repeat([]byte{0xff}, n))
	}
	d := append([]byte(nil), w...)
	for i := 0; i < 32 && i < len(d); i++ {
		d[i] = 0
	}
	add("hdr-zeroed", "WAL header zeroed", d)
	// A header that carries another page size *and* a checksum that matches it (SQLite accepts powers of two from
	// 512 to 65536 only; anything else means "no valid header").
	if len(w) >= 32 {
		for _, v := range []uint32{0, 12, 100, 511, 513, 1 << 17, 0xfffffff8, uint32(ps) * 2, uint32(ps) / 2} {
			d := append([]byte(nil), w...)
			binary.BigEndian.PutUint32(d[8:], v)
			var bo binary.ByteOrder = binary.LittleEndian
			if binary.BigEndian.Uint32(d[0:])&1 == 1 {
				bo = binary.BigEndian
			}
			c0, c1 := pager.WALChecksum(bo, 0, 0, d[:24])
			binary.BigEndian.PutUint32(d[24:], c0)
			binary.BigEndian.PutUint32(d[28:], c1)
			add("hdr-pagesize-cksum", fmt.Sprintf("WAL header page size := %d with a matching header checksum", v), d)
		}
	}
	return out
}

func runWAL(t *testing.T, c Case) (res Result) {
	x := &ctx{c: c, res: &res}
	synctest.Test(t, func(t *testing.T) {
		base := lab.ScratchDir("c17w")
		defer lab.RemoveAll(base)
		live := filepath.Join(base, "live")
		n, err := lab.StartPrimary(live, lab.NodeConfig{})
		if err != nil {
			res.Harness = err.Error()
			return
		}
		stopped := false
		defer func() {
			if !stopped {
				_ = n.Stop()
			}
		}()
		conn := pager.NewConn(n.M, "db", 1, c.PageSize)
		r1 := conn.RunRTx(pager.RTx{Create: true, NewSize: c.Start, Final: "DELETE", Outcome: "commit"}, nil)
		if r1.Err == nil {
			r1 = conn.RunRTx(pager.RTx{ToWAL: true, Final: "DELETE", Outcome: "commit"}, r1.Intended)
		}
		if r1.Err != nil || !r1.Committed {
			res.Harness = fmt.Sprintf("setup failed: %v at %s", r1.Err, r1.ErrStep)
			return
		}
		conn.Close()
		img := r1.Intended
		a := pager.NewConn(n.M, "db", 2, c.PageSize)
		b := pager.NewConn(n.M, "db", 3, c.PageSize)
		for _, op := range c.WOps {
			switch op.Kind {
			case "wtx":
				r := a.RunWTx(*op.W, img)
				if r.Err != nil {
					res.Harness = fmt.Sprintf("base wtx failed: %v at %s", r.Err, r.ErrStep)
					return
				}
				if r.Committed {
					img = r.Intended
				}
			case "ckpt":
				if err := b.Checkpoint(op.Mode, op.Max); err != nil {
					res.Harness = "base ckpt failed: " + err.Error()
					return
				}
			}
		}
		a.Close()
		b.Close()
		p0 := n.DB("db").Pos()
		pos := [2]uint64{uint64(p0.TXID), uint64(p0.PostApplyChecksum)}
		frozen := filepath.Join(base, "frozen")
		_ = lab.CopyDir(live, frozen)
		_ = n.Stop()
		stopped = true
		wpath := func(dir string) string { return filepath.Join(dir, "dbs", "db", "wal") }
		w := readFile(wpath(frozen))
		muts := walMutations(w, c.PageSize)
		res.Muts = len(muts)
		if c.Mode == "count" {
			for _, m := range muts {
				res.Descs = append(res.Descs, [2]string{m.kind, m.desc})
			}
			return
		}
		for mi, m := range muts {
			if c.Only >= 0 && mi != c.Only {
				continue
			}
			if skipped(c, mi) {
				continue
			}
			fmt.Fprintf(os.Stderr, "MUT %d %s|%s\n", mi, m.kind, m.desc)
			// (1) differential: frames accepted by litefs.WALReader == reference scanner.
			frames, hdrErr, pan := litefsScan(m.data)
			ref := oracle.ScanWAL(m.data)
			switch {
			case pan != "":
				x.viol("walreader-panic/"+m.kind, "WALReader panicked on %s: %s", m.desc, pan)
			case hdrErr == "HANG":
				x.viol("walreader-hang/"+m.kind, "WALReader did not terminate on %s", m.desc)
			default:
				if !ref.Valid && len(frames) > 0 {
					x.viol("walreader-frames-without-header/"+m.kind, "WALReader yields %d frames although the header is invalid (%s)", len(frames), m.desc)
				}
				if ref.Valid {
					if hdrErr != "" && !strings.HasPrefix(hdrErr, "frame:") {
						x.viol("walreader-rejects-valid-header/"+m.kind, "WALReader rejects a header that is valid by SQLite's rules (%s): %s", m.desc, hdrErr)
					} else if len(frames) != len(ref.Frames) {
						x.viol("walreader-prefix-length/"+m.kind, "WALReader accepts %d frames, the longest valid prefix by SQLite's rules has %d (%s)", len(frames), len(ref.Frames), m.desc)
					} else {
						for i := range frames {
							rf := ref.Frames[i]
							if frames[i] != [3]int64{int64(rf.Pgno), int64(rf.Commit), rf.Offset} {
								x.viol("walreader-frame-differs/"+m.kind, "frame %d: WALReader (pgno,commit,offset)=%v reference=(%d,%d,%d) (%s)", i, frames[i], rf.Pgno, rf.Commit, rf.Offset, m.desc)
								break
							}
						}
					}
				}
				x.class(fmt.Sprintf("wal/%s/valid=%v/frames=%d", m.kind, ref.Valid, min(len(ref.Frames), 3)))
			}
			// (2) open-level robustness.
			dir := filepath.Join(base, fmt.Sprintf("wmut%04d", mi))
			_ = lab.CopyDir(frozen, dir)
			_ = os.WriteFile(wpath(dir), m.data, 0o666)
			x.judge(image{label: fmt.Sprintf("WAL mutation %d: %s", mi, m.desc), dir: dir, want: img, wantPos: pos, legit: m.kind == "pristine"}, "walmut-"+m.kind)
			lab.RemoveAll(dir)
			// (3) the same bytes met by LiteFS's own checkpoint with nothing to compare them with: no transaction file
			// (start-up goes straight to the checkpoint), and a checkpoint of a running store (role change, halt, import).
			dir2 := filepath.Join(base, fmt.Sprintf("wmutn%04d", mi))
			_ = lab.CopyDir(frozen, dir2)
			_ = os.WriteFile(wpath(dir2), m.data, 0o666)
			_ = os.RemoveAll(filepath.Join(dir2, "dbs", "db", "ltx"))
			x.robust(dir2, fmt.Sprintf("WAL mutation %d without transaction files: %s", mi, m.desc), "walmut-nolog-"+m.kind, nil)
			lab.RemoveAll(dir2)
			dir3 := filepath.Join(base, fmt.Sprintf("wmutr%04d", mi))
			_ = lab.CopyDir(frozen, dir3)
			x.robust(dir3, fmt.Sprintf("WAL mutation %d placed under a running store, then Store.Recover: %s", mi, m.desc), "walmut-live-"+m.kind, m.data)
			lab.RemoveAll(dir3)
		}
		res.Sample = map[string]any{"wal_bytes": len(w), "mutations": len(muts)}
	})
	return res
}

func run1(t *testing.T, c Case) Result {
	if c.Kind == "wal" {
		return runWAL(t, c)
	}
	return runJournal(t, c)
}

func TestCheck(t *testing.T) {
	if vlib.IsWorker() {
		vlib.Serve(func(in json.RawMessage) any {
			var c Case
			if err := json.Unmarshal(in, &c); err != nil {
				return Result{Harness: "bad case"}
			}
			return run1(t, c)
		})
	}
	run := vlib.Start("C17", "model_checking")

	var cases []Case
	type geo struct{ ps, sector int }
	geos := []geo{{512, 512}, {4096, 512}, {1024, 4096}}
	if run.Thorough() {
		geos = append(geos, geo{512, 4096}, geo{4096, 4096}, geo{65536, 512}, geo{8192, 1024})
	}
	for _, g := range geos {
		starts := []uint32{3, 257}
		if g.ps > 4096 {
			starts = []uint32{3}
		}
		for _, s := range starts {
			txs := []pager.RTx{
				{Mods: []uint32{2}, Final: "DELETE", Outcome: "commit"},
				{Mods: []uint32{2, s}, SpillAfter: []int{1}, Final: "PERSIST", Outcome: "commit"},
				{Mods: []uint32{2, s}, SpillAfter: []int{1, 2}, NewSize: s + 2, Final: "TRUNCATE", Outcome: "commit"},
				{Mods: []uint32{2}, NewSize: s - 1, Final: "DELETE", Outcome: "commit"},
				{Mods: []uint32{2, s}, SyncMode: 2, NewSize: s + 1, Final: "DELETE", Outcome: "commit"},
				{Mods: []uint32{2, s}, SyncMode: 2, SpillAfter: []int{1}, Final: "PERSIST", Outcome: "commit"},
			}
			if s > 256 {
				txs = append(txs, pager.RTx{Mods: []uint32{2, 256, s}, SpillAfter: []int{2}, NewSize: 200, Final: "TRUNCATE", Outcome: "commit"})
				// A first segment of 63 / 64 / 65 records: with 512-byte sectors 64 records of (page + 8) bytes end exactly on a
				// sector boundary, so the next segment's header follows without padding.
				seq := func(a, b uint32) []uint32 {
					var out []uint32
					for x := a; x <= b; x++ {
						out = append(out, x)
					}
					return out
				}
				if g.sector == 512 {
					for _, n := range []uint32{63, 64, 65} {
						txs = append(txs, pager.RTx{Mods: seq(2, n+3), SpillAfter: []int{int(n)}, Final: "DELETE", Outcome: "commit"})
					}
				}
			}
			for _, tx := range txs {
				cases = append(cases, Case{Kind: "journal", PageSize: g.ps, Sector: g.sector, Start: s, Tx: tx, Mode: "legit", Only: -1})
				if tx.Final == "PERSIST" || len(tx.Mods) == 1 {
					cases = append(cases, Case{Kind: "journal", PageSize: g.ps, Sector: g.sector, Start: s, Tx: tx, Mode: "legit", Only: -1, PrevPersist: true})
				}
				if s == 3 || run.Thorough() {
					cases = append(cases, Case{Kind: "journal", PageSize: g.ps, Sector: g.sector, Start: s, Tx: tx, Mode: "mut", Only: -1})
				}
			}
		}
	}
	if !run.Thorough() {
		// the largest page size (the boundary of every page-size test) with the two spilling shapes; thorough has all shapes there
		for _, tx := range []pager.RTx{
			{Mods: []uint32{2, 3}, SpillAfter: []int{1}, Final: "PERSIST", Outcome: "commit"},
			{Mods: []uint32{2, 3}, SpillAfter: []int{1, 2}, NewSize: 5, Final: "TRUNCATE", Outcome: "commit"},
		} {
			cases = append(cases, Case{Kind: "journal", PageSize: 65536, Sector: 512, Start: 3, Tx: tx, Mode: "legit", Only: -1})
		}
	}
	// The very first transaction of a database (created from nothing), incl. a cache spill.
	for _, g := range geos {
		for _, tx := range []pager.RTx{
			{Create: true, NewSize: 3, Final: "DELETE", Outcome: "commit"},
			{Create: true, NewSize: 2, SyncMode: 2, Final: "PERSIST", Outcome: "commit"},
		} {
			cases = append(cases, Case{Kind: "journal", PageSize: g.ps, Sector: g.sector, Start: 0, Tx: tx, Mode: "legit", Only: -1})
		}
	}
	w := func(frames []uint32, ns uint32, outcome string, be bool) prog.Op {
		return prog.Op{Kind: "wtx", W: &pager.WTx{Frames: frames, NewSize: ns, Outcome: outcome, BigEndianCksum: be}}
	}
	// the largest page size: two transactions in the log, the older one only there
	cases = append(cases, Case{Kind: "wal", PageSize: 65536, Start: 3, Mode: "mut", Only: -1, WOps: []prog.Op{w([]uint32{1, 2}, 0, "commit", false), w([]uint32{3}, 0, "commit", false)}})
	for _, ps := range []int{512, 4096} {
		for _, be := range []bool{false, true} {
			cases = append(cases,
				Case{Kind: "wal", PageSize: ps, Start: 3, Mode: "mut", Only: -1, WOps: []prog.Op{w([]uint32{1, 2}, 0, "commit", be)}},
				Case{Kind: "wal", PageSize: ps, Start: 3, Mode: "mut", Only: -1, WOps: []prog.Op{w([]uint32{1, 2, 2}, 0, "commit", be), w([]uint32{3, 1, 4}, 4, "commit", be), w([]uint32{2, 3}, 0, "rollback", be)}},
				Case{Kind: "wal", PageSize: ps, Start: 3, Mode: "mut", Only: -1, WOps: []prog.Op{w([]uint32{1, 2, 3}, 0, "commit", be), {Kind: "ckpt", Mode: "RESTART"}, w([]uint32{2}, 0, "commit", be)}},
			)
			if !be {
				// the log holds a transaction that grew the database and a later one that shrank it below those pages
				cases = append(cases, Case{Kind: "wal", PageSize: ps, Start: 3, Mode: "mut", Only: -1, WOps: []prog.Op{w([]uint32{1, 2, 4, 5, 6}, 6, "commit", be), w([]uint32{1, 2}, 3, "commit", be)}})
			}
		}
	}

	pool := vlib.NewPool()
	pool.CaseTimeout = 90 * time.Second
	defer pool.Close()
	var classes vlib.Distinct
	var samples []any
	images, opens, muts := 0, 0, 0
	handle := func(c Case, out json.RawMessage, crash *vlib.Crash, flaky bool) (crashed bool) {
		if flaky {
			run.HarnessError("case crashed once and passed on re-run: %+v", c)
		}
		if crash != nil {
			return true
		}
		var r Result
		if err := json.Unmarshal(out, &r); err != nil {
			run.HarnessError("bad result: %v", err)
			return false
		}
		if r.Harness != "" {
			run.HarnessError("%s (case %+v)", r.Harness, c)
		}
		for _, v := range r.V {
			run.Violation(v.Key, v.What, map[string]any{"case": c})
		}
		for _, cl := range r.Classes {
			classes.Add(cl)
		}
		images += r.Images
		opens += r.Opens
		if c.Mode != "count" && c.Only < 0 {
			muts += r.Muts
		}
		if r.Sample != nil && len(samples) < 6 {
			samples = append(samples, map[string]any{"case": c, "info": r.Sample})
		}
		return false
	}
	anyCases := make([]any, len(cases))
	for i := range cases {
		anyCases[i] = cases[i]
	}
	var crashedCases []Case
	pool.Run(anyCases, func(i int, out json.RawMessage, crash *vlib.Crash, flaky bool) {
		if handle(cases[i], out, crash, flaky) {
			crashedCases = append(crashedCases, cases[i])
		}
	})
	// A case that killed its worker is split into single mutations to name the input.
	for _, cc := range crashedCases {
		if cc.Mode != "mut" {
			run.Violation("crash/"+cc.Kind+"-"+cc.Mode, fmt.Sprintf("worker died twice on %+v", cc), map[string]any{"case": cc})
			continue
		}
		cnt := cc
		cnt.Mode = "count"
		n := 0
		var descs [][2]string
		pool.Run([]any{cnt}, func(i int, out json.RawMessage, crash *vlib.Crash, flaky bool) {
			var r Result
			if crash == nil && json.Unmarshal(out, &r) == nil {
				n = r.Muts
				descs = r.Descs
			}
		})
		var singles []any
		var sl []Case
		for k := 0; k < n; k++ {
			s := cc
			s.Only = k
			singles = append(singles, s)
			sl = append(sl, s)
		}
		pool.Run(singles, func(i int, out json.RawMessage, crash *vlib.Crash, flaky bool) {
			if handle(sl[i], out, crash, flaky) {
				kind, desc := "?", "?"
				if i < len(descs) {
					kind, desc = descs[i][0], descs[i][1]
				}
				k := "crash"
				if crash.Timeout {
					k = "hang"
				}
				run.Violation(fmt.Sprintf("%s/%s-mut-%s", k, cc.Kind, kind), fmt.Sprintf("Store.Open %s (worker killed, timeout=%v) on %s mutation %d: %s\n%s", map[bool]string{true: "did not return within 90 s", false: "crashed the process"}[crash.Timeout], crash.Timeout, cc.Kind, i, desc, tailS(crash.Output, 1500)),
					map[string]any{"case": sl[i], "mutation": desc})
			}
		})
	}

	cov := map[string]any{
		"states":                        opens,
		"transitions":                   opens,
		"traces_validated_against_impl": opens,
		"inputs_opened":                 opens,
		"interruption_images":           images,
		"mutated_inputs":                muts,
		"base_cases":                    len(cases),
		"distinct_outcome_classes":      classes.N(),
		"outcome_classes":               classes.Top(60),
		"exhaustive":                    true,
		"samples":                       samples,
		"rule":                          "journals: every file-operation boundary of 6-10 transaction shapes (incl. first segments ending before, on and after a sector boundary) x geometries x start sizes, plus 3 torn variants of every journal write; every header field of every segment := {0,1,0xffffffff,v+1,v-1,neighbour}, record pgno := 6 values, checksum/data flips, zeroed header/sector, damaged magic, every truncation class, short constant files. WALs: 3 base logs x 2 byte orders x 2 page sizes; every header and frame-header field := {0,1,0xffffffff,v+1}, data flips, salt swaps, every truncation class, constant files. Each input is opened by a fresh Store; each WAL also without its transaction files and under a running store followed by Store.Recover (states = opens).",
	}
	if classes.N() < 4 && run.NViolations() == 0 {
		run.HarnessError("vacuous: %d classes", classes.N())
	}
	run.Finish(cov, []string{
		"Legitimate interruptions are judged absolutely (pre-transaction image, or post-transaction image after the journal was finalised); mutated inputs are judged for robustness and for never succeeding with an image other than the one the position names.",
		"The WAL frame sequence is compared with an independent scanner implementing header magic/version/checksum, per-frame salts and the cumulative checksum.",
		"'Arbitrary random byte strings' are replaced by exhaustive field-wise and constant-file families. Hangs are detected by a 90 s real-time watchdog per case and confirmed by a re-run.",
	})
}

func tailS(s string, n int) string {
	if len(s) > n {
		return s[len(s)-n:]
	}
	return s
}
