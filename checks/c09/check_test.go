// C09: the on-disk transaction log is one contiguous, self-verifying chain.
//
// The chain monitor (names parse, contiguous ranges, each file passes its CRC,
// pre = previous post, ends at DB.Pos(), listing never returns temporary
// files, a snapshot leaves exactly itself) runs at every state of every
// cluster search (C01, C04, C15, C16 ...). This check adds the dedicated
// breadth-first search over retention histories: commits, ageing of the
// oldest / newest / all files, high-water-mark settings around the current
// TXID, sweeps with retention disabled / 1 ns / 10 min on the primary and on a
// replica, with and without a backup client, partitions, restarts and drops.
// For every sweep the set of removed files is checked against the guards.
package c09

import (
	"os"
	"testing"
	"time"

	"verif/hist"
	"verif/vlib"
)

func TestCheck(t *testing.T) {
	hist.ServeIfWorker(t)
	if f := os.Getenv("VERIF_REPLAY"); f != "" {
		hist.Replay(t, f)
	}
	run := vlib.Start("C09", "model_checking")
	alpha := []string{"tx:t1", "tx:g1", "age", "hwm", "sweep", "litter", "part", "heal", "restart", "drop", "create", "import:s", "retain"}
	jobs := []hist.Job{
		{Name: "journal-backup", Cfg: hist.Config{PageSize: 512, Start: 3, Backup: true, R2Starts: "absent", Alphabet: alpha, Prelude: []string{"tx:a:t1", "tx:a:g1"}}, Depth: 4, Budget: 70 * time.Second},
		{Name: "wal-nobackup", Cfg: hist.Config{PageSize: 512, Start: 3, WAL: true, R2Starts: "absent", Alphabet: alpha, Prelude: []string{"tx:a:t1", "tx:a:g1"}}, Depth: 4, Budget: 70 * time.Second},
	}
	jobs = append(jobs, hist.Job{Name: "journal-lagging-replica-trimmed-log", Cfg: hist.Config{PageSize: 512, Start: 3, R2Starts: "absent", Alphabet: alpha, Prelude: []string{"part:R1", "tx:a:t1", "tx:a:g1", "age:P:a"}}, Depth: 3, Budget: 60 * time.Second})
	// A replica that holds a multi-transaction snapshot file (it fell behind a trimmed log) followed by one later file, with a backup
	// client configured: the high-water mark can then lie inside the snapshot file's TXID range.
	jobs = append(jobs, hist.Job{Name: "journal-backup-replica-with-snapshot-file", Cfg: hist.Config{PageSize: 512, Start: 3, Backup: true, R2Starts: "absent", Alphabet: []string{"age", "hwm", "sweep", "tx:t1"},
		Prelude: []string{"part:R1", "tx:a:t1", "tx:a:g1", "hwm:P:p", "retain", "heal:R1", "tx:a:t1"}}, Depth: 3, Budget: 60 * time.Second})
	// Transactions forwarded by a halt-lock holder: the next one, and files that overlap the chain, leave a gap or repeat the
	// last transaction; whatever is sent, the log stays one chain (and restarts, sweeps and a joining replica still work).
	jobs = append(jobs, hist.Job{Name: "journal-forwarded-files", Cfg: hist.Config{PageSize: 512, Start: 3, R2Starts: "absent", Alphabet: []string{"fwd:ok", "fwd:overlap", "fwd:gap", "fwd:again", "tx:t1", "restartP", "sweep"},
		Prelude: []string{"tx:a:t1", "tx:a:g1"}}, Depth: 3, Budget: 60 * time.Second})
	// A real backup client against a service whose acknowledged high-water mark trails its data by one upload: retention
	// goes by the mark the service reported, not by what the node has sent.
	jobs = append(jobs, hist.Job{Name: "journal-lfsc-lagging-acknowledgement", Cfg: hist.Config{PageSize: 512, Start: 3, R2Starts: "absent", BackupKind: "lfsc-lag", Alphabet: []string{"tx:t1", "sync", "age", "sweep", "retain", "restartP"},
		Prelude: []string{"sync", "tx:a:t1"}}, Depth: 3, Budget: 60 * time.Second})
	if run.Thorough() {
		jobs[0].Depth, jobs[0].Budget = 5, 20*time.Minute
		jobs[1].Depth, jobs[1].Budget = 5, 20*time.Minute
		jobs = append(jobs, hist.Job{Name: "journal-backup-lagging", Cfg: hist.Config{PageSize: 4096, Start: 3, Backup: true, R2Starts: "partitioned", Alphabet: alpha, Prelude: []string{"part:R1", "tx:a:t1", "tx:a:g1", "tx:a:t1"}}, Depth: 4, Budget: 15 * time.Minute})
	}
	cov := hist.RunJobs(run, jobs)
	run.Finish(cov, append(hist.CommonAssumptions,
		"File modification times are set explicitly relative to the fake clock (files created during the run carry real-time stamps, which lie in the fake clock's future and therefore count as young).",
		"Sweep racing a commit or a stream at lock granularity belongs to the schedule engine and is not claimed here."))
}
