// C03 part B: a checkpoint that overtakes the capture of a commit.
//
// A PASSIVE checkpointer takes the CKPT lock while nobody writes (LiteFS lets it), is then slow, and reads the
// wal-index only after a writer has appended its commit frame and published it there - but before the writer
// releases the WRITE lock, which is when LiteFS captures the transaction. The checkpointer copies the new frames
// into the database file first; the capture that follows must still produce the transaction file of exactly that
// commit (pages, size, pre- and post-checksum), and a restart must re-apply it to the same image.
package c03

import (
	"fmt"
	"strings"
	"testing"
	"testing/synctest"

	"verif/lab"
	"verif/mon"
	"verif/oracle"
	"verif/pager"
)

type ckptRaceResult struct {
	Name string
	V    []string // key|what
	Obs  string
}

func ckptInsideCommit(t *testing.T) (out []ckptRaceResult) {
	const ps = 512
	type shape struct {
		name string
		tx   func(s uint32) pager.WTx
	}
	shapes := []shape{
		{"modify", func(s uint32) pager.WTx { return pager.WTx{Frames: []uint32{1, 2}, Outcome: "commit"} }},
		{"grow", func(s uint32) pager.WTx { return pager.WTx{Frames: []uint32{1, s + 1}, Outcome: "commit"} }},
		{"shrink", func(s uint32) pager.WTx { return pager.WTx{Frames: []uint32{1}, NewSize: s - 1, Outcome: "commit"} }},
		{"grow-unwritten", func(s uint32) pager.WTx {
			return pager.WTx{Frames: []uint32{1, s + 1}, NewSize: s + 2, FreeLeaves: true, Outcome: "commit"}
		}},
	}
	for _, prior := range []bool{false, true} {
		for _, sh := range shapes {
			res := ckptRaceResult{Name: fmt.Sprintf("%s earlier-frames-not-yet-copied=%v", sh.name, prior)}
			viol := func(key, format string, args ...any) {
				res.V = append(res.V, key+"|"+res.Name+": "+fmt.Sprintf(format, args...))
			}
			synctest.Test(t, func(t *testing.T) {
				dir := lab.ScratchDir("c03ck")
				defer lab.RemoveAll(dir)
				n, err := lab.StartPrimary(dir, lab.NodeConfig{})
				if err != nil {
					res.Obs = "harness-error: " + err.Error()
					return
				}
				defer func() { _ = n.Stop() }()
				a := pager.NewConn(n.M, "db", 1, ps)
				r := a.RunRTx(pager.RTx{Create: true, NewSize: 4, Final: "DELETE", Outcome: "commit"}, nil)
				if r.Err == nil {
					r = a.RunRTx(pager.RTx{ToWAL: true, Final: "DELETE", Outcome: "commit"}, r.Intended)
				}
				if r.Err != nil || !r.Committed {
					res.Obs = fmt.Sprintf("harness-error: setup %v at %s", r.Err, r.ErrStep)
					return
				}
				img := r.Intended
				{
					w0 := a.RunWTx(pager.WTx{Frames: []uint32{1, 3}, Outcome: "commit"}, img)
					if w0.Err != nil || !w0.Committed {
						res.Obs = "harness-error: prior frames"
						return
					}
					img = w0.Intended
				}
				if !prior {
					// everything in the log is already in the database file: the overtaking checkpoint copies the new commit only
					if err := a.Checkpoint("PASSIVE", 0); err != nil {
						res.Obs = "harness-error: prior checkpoint: " + err.Error()
						return
					}
				}
				defer a.Close() // stays connected: the wal-index stays valid
				before := n.DB("db").Pos()

				ck := pager.NewConn(n.M, "db", 2, ps)
				w := pager.NewConn(n.M, "db", 3, ps)
				w.KeepTrace = true
				defer ck.Close()
				defer w.Close()
				atUnlock, resume := make(chan struct{}), make(chan struct{})
				wdone := make(chan pager.WTxResult, 1)
				paused, wrote := false, false
				w.Before = func(step int, desc string) {
					if strings.HasPrefix(desc, "wal write") {
						wrote = true
					}
					if wrote && !paused && desc == fmt.Sprintf("unlock shm %d+1", pager.WALWriteLock) {
						paused = true
						close(atUnlock)
						<-resume
					}
				}
				fired := false
				var early *pager.WTxResult
				ck.Before = func(step int, desc string) {
					if fired || !strings.HasPrefix(desc, "read shm header") {
						return
					}
					fired = true
					go func() { wdone <- w.RunWTx(sh.tx(img.N()), img) }()
					select {
					case <-atUnlock:
					case x := <-wdone:
						early = &x
					}
				}
				cerr := ck.Checkpoint("PASSIVE", 0)
				if !fired {
					res.Obs = "harness-error: the checkpointer never read the wal-index"
					return
				}
				var wr pager.WTxResult
				if early != nil {
					wr = *early
				} else {
					close(resume)
					wr = <-wdone
				}
				res.Obs = fmt.Sprintf("writer-paused=%v committed=%v ckpt-err=%v", paused, wr.Committed, cerr)
				if !paused {
					res.Obs += fmt.Sprintf(" writer-error=%v at %q trace=%v", wr.Err, wr.ErrStep, w.Trace)
				}
				if !paused {
					// the writer did not get as far as its commit (refused): nothing was overtaken
					if wr.Committed {
						viol("C03/ckpt-inside-commit/harness", "writer committed without passing its unlock step")
					}
					return
				}
				if wr.Err != nil || !wr.Committed {
					viol("C03/ckpt-inside-commit/commit-failed", "the write transaction failed at %q: %v", wr.ErrStep, wr.Err)
					return
				}
				if codes := n.ExitCodes(); len(codes) > 0 {
					viol("C03/ckpt-inside-commit/exit", "Store.Exit(%v)", codes)
					return
				}
				want := wr.Intended
				pos := n.DB("db").Pos()
				if pos.TXID != before.TXID+1 {
					viol("C03/ckpt-inside-commit/position", "position went from %s to %s for one commit", before, pos)
				}
				if c := want.Checksum(); uint64(pos.PostApplyChecksum) != c {
					viol("C03/ckpt-inside-commit/checksum", "position %s, but the image SQLite sees has checksum %016x", pos, c)
				}
				check := func(tag string) {
					_, fs := mon.CheckDB(n, "db", want)
					for _, f := range fs {
						viol("C03/ckpt-inside-commit/"+f.Prop+"-"+f.Key+"/"+tag, "%s: %s", tag, f.What)
					}
				}
				check("after-commit")
				// the transaction file of that commit, applied to the previous image, is the new image
				if f, err := oracle.DecodeLTXFile(n.DB("db").LTXPath(pos.TXID, pos.TXID)); err != nil {
					viol("C03/ckpt-inside-commit/ltx-unreadable", "%v", err)
				} else {
					if got, err := f.Apply(img); err != nil {
						viol("C03/ckpt-inside-commit/ltx-apply", "%v", err)
					} else if ok, d := got.Equal(want); !ok {
						viol("C03/ckpt-inside-commit/ltx-content", "the transaction file applied to the previous image differs from what SQLite committed: %s", d)
					}
				}
				ck.Close()
				w.Close()
				a.Close()
				if err := n.Stop(); err != nil {
					viol("C03/ckpt-inside-commit/stop", "%v", err)
					return
				}
				n2, err := lab.StartPrimary(dir, lab.NodeConfig{})
				if err != nil {
					viol("C03/ckpt-inside-commit/restart", "restart failed: %v", err)
					return
				}
				n = n2
				if p2 := n.DB("db").Pos(); p2 != pos {
					viol("C03/ckpt-inside-commit/restart-position", "position %s before the restart, %s after", pos, p2)
				}
				check("after-restart")
			})
			out = append(out, res)
		}
	}
	return out
}
