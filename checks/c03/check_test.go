// C03: WAL-mode commits are captured exactly when the write lock is released.
//
// Exhaustive enumeration of WAL programs (write transactions of several frame
// shapes incl. repeats, rollbacks later overwritten, lock-only; SQLite
// checkpoints PASSIVE/partial/FULL/RESTART/TRUNCATE; LiteFS's own recovery)
// up to a depth, from several starting sizes, on a real primary store.
package c03

import (
	"strings"
	"testing"

	"verif/pager"
	"verif/prog"
	"verif/vlib"
)

type shape struct {
	op   prog.Op
	size func(s uint32) uint32 // size after the op
}

func wtx(frames []uint32, newSize uint32, split int, outcome string) prog.Op {
	return prog.Op{Kind: "wtx", W: &pager.WTx{Frames: frames, NewSize: newSize, Split: split, Outcome: outcome}}
}

func seq(from, to uint32) []uint32 {
	var out []uint32
	for p := from; p <= to; p++ {
		out = append(out, p)
	}
	return out
}

// shapes returns the alphabet resolved against current size s.
func shapes(s uint32, thorough bool) []shape {
	same := func(x uint32) func(uint32) uint32 { return func(uint32) uint32 { return x } }
	keep := func(s uint32) uint32 { return s }
	var out []shape
	add := func(op prog.Op, f func(uint32) uint32) { out = append(out, shape{op, f}) }
	last := s
	add(wtx([]uint32{1}, 0, 0, "commit"), keep)
	add(wtx([]uint32{2}, 0, 0, "commit"), keep)
	add(wtx([]uint32{1, 2, 2, last}, 0, 1, "commit"), keep)
	add(wtx([]uint32{1, last, s + 1}, 0, 2, "commit"), same(s+1))
	add(wtx([]uint32{2, 1}, 0, 0, "rollback"), keep)
	add(wtx([]uint32{1, 2, last}, 0, 0, "rollback"), keep)
	add(wtx(nil, 0, 0, "lockonly"), keep)
	add(prog.Op{Kind: "wtx", W: &pager.WTx{Frames: []uint32{1, 2}, Outcome: "commit", CloseAfter: true}}, keep)
	add(prog.Op{Kind: "wtx", W: &pager.WTx{Frames: []uint32{2}, Outcome: "rollback", Torn: 1}}, keep)
	add(prog.Op{Kind: "wtx", W: &pager.WTx{Frames: nil, Outcome: "rollback", Torn: 2}}, keep)
	if s > 2 {
		add(wtx([]uint32{1}, s-1, 0, "commit"), same(s-1))
		// the last page is modified and spilled to the log, then freed: its frame lies beyond the commit size
		add(wtx([]uint32{last, 1}, s-1, 0, "commit"), same(s-1))
	}
	// a page is appended and spilled, then freed again before the commit (grow and shrink inside one transaction)
	add(wtx([]uint32{s + 1, 1}, s, 0, "commit"), keep)
	if s > 256 {
		t := ((s-1)/256)*256 - 56 // into the previous block, e.g. 257 -> 200, 513 -> 456
		add(wtx([]uint32{1}, t, 0, "commit"), same(t))
		add(wtx([]uint32{1, 2}, ((s-1)/256)*256, 0, "commit"), same(((s-1)/256)*256))
	}
	if s == 255 || s == 256 || s == 511 || s == 512 {
		t := (s/256+1)*256 + 1
		if s%256 == 0 {
			t = s + 1
		}
		add(wtx(append([]uint32{1}, seq(s+1, t)...), 0, 0, "commit"), same(t))
	}
	if thorough {
		add(wtx([]uint32{last, last, last}, 0, 2, "commit"), keep)
		add(wtx([]uint32{1, s + 1, s + 2}, 0, 1, "commit"), same(s+2))
		add(wtx([]uint32{s + 1}, 0, 0, "rollback"), keep)
	}
	for _, m := range []string{"PASSIVE", "FULL", "RESTART", "TRUNCATE"} {
		add(prog.Op{Kind: "ckpt", Mode: m}, keep)
	}
	add(prog.Op{Kind: "ckpt", Mode: "PASSIVE", Max: 1}, keep)
	add(prog.Op{Kind: "recover"}, keep)
	// a write to the log by a connection that does not hold the write lock: refused, and without any effect on the capture
	add(prog.Op{Kind: "stray-wal", Mode: "header"}, keep)
	if thorough {
		add(prog.Op{Kind: "stray-wal", Mode: "frame"}, keep)
	}
	return out
}

func gen(s uint32, depth int, thorough bool, prefix []prog.Op, emit func([]prog.Op)) {
	if len(prefix) > 0 {
		emit(prefix)
	}
	if depth == 0 {
		return
	}
	for _, sh := range shapes(s, thorough) {
		next := append(append([]prog.Op{}, prefix...), sh.op)
		gen(sh.size(s), depth-1, thorough, next, emit)
	}
}

func TestCheck(t *testing.T) {
	prog.ServeIfWorker(t, "C03")
	run := vlib.Start("C03", "model_checking")

	type cfg struct {
		ps    int
		start uint32
		depth int
	}
	cfgs := []cfg{{512, 2, 3}, {512, 3, 3}, {512, 256, 2}, {512, 257, 3}, {512, 300, 3}, {512, 513, 2}, {4096, 3, 2}, {4096, 257, 2}}
	if run.Thorough() {
		cfgs = []cfg{{512, 2, 4}, {512, 3, 4}, {512, 255, 3}, {512, 256, 3}, {512, 257, 4}, {512, 300, 4}, {512, 513, 3}, {512, 512, 3},
			{1024, 3, 3}, {2048, 257, 2}, {4096, 3, 3}, {4096, 257, 3}, {8192, 3, 2}, {16384, 3, 2}, {32768, 3, 2}, {65536, 3, 3}, {65536, 257, 2}}
	}
	var cases []prog.Case
	maxDepth := 0
	for _, c := range cfgs {
		if c.depth > maxDepth {
			maxDepth = c.depth
		}
		// Only maximal-depth programs and their prefixes are distinct executions; a prefix is re-checked inside
		// every extension, so emit leaves only (every intermediate state is still evaluated by the runner).
		gen(c.start, c.depth, run.Thorough(), nil, func(ops []prog.Op) {
			if len(ops) == c.depth {
				cases = append(cases, prog.Case{PageSize: c.ps, Start: c.start, StartWAL: true, Ops: ops})
			}
		})
	}
	// Lock-page geometry (thorough only: each program builds a 1 GiB database; 64 KiB pages put SQLite's lock page at 16385).
	if run.Thorough() {
		for _, ops := range [][]prog.Op{
			{wtx([]uint32{1, 16384, 16386}, 16386, 0, "commit"), {Kind: "ckpt", Mode: "TRUNCATE"}, wtx([]uint32{2, 16386}, 0, 0, "commit"), wtx([]uint32{1}, 16384, 0, "commit"), {Kind: "recover"}},
			{wtx([]uint32{1, 16384, 16386, 16387}, 16387, 1, "commit"), wtx([]uint32{1}, 16380, 0, "commit"), {Kind: "ckpt", Mode: "PASSIVE"}, wtx([]uint32{1, 16381, 16382, 16383, 16384, 16386}, 16386, 0, "commit")},
			{wtx([]uint32{16384, 16386}, 16386, 0, "rollback"), wtx([]uint32{1, 16384}, 16384, 0, "commit"), {Kind: "ckpt", Mode: "RESTART"}, wtx([]uint32{1, 16386}, 16386, 0, "commit")},
		} {
			cases = append(cases, prog.Case{PageSize: 65536, Start: 16383, StartWAL: true, Ops: ops})
		}
	}
	// Free-list leaves: the transaction grows the database by pages it never writes a frame for (SQLite does not write
	// leaves it allocates and frees again); later transactions use, or truncate away, those pages; SQLite's and
	// LiteFS's checkpoints and a restart in between.
	for _, ps := range []int{512, 4096} {
		for _, s := range []uint32{3, 255} {
			fl := func(newSize uint32) prog.Op {
				return prog.Op{Kind: "wtx", W: &pager.WTx{Frames: []uint32{1, 2}, NewSize: newSize, FreeLeaves: true, Outcome: "commit"}}
			}
			for _, mid := range [][]prog.Op{{}, {{Kind: "ckpt", Mode: "PASSIVE"}}, {{Kind: "ckpt", Mode: "TRUNCATE"}}, {{Kind: "recover"}}, {{Kind: "restart"}}} {
				ops := append([]prog.Op{fl(s + 3)}, mid...)
				ops = append(ops, wtx([]uint32{1, s + 1}, 0, 0, "commit"), wtx([]uint32{1}, s, 0, "commit"), prog.Op{Kind: "recover"}, wtx([]uint32{2}, 0, 0, "commit"))
				cases = append(cases, prog.Case{PageSize: ps, Start: s, StartWAL: true, Ops: ops})
			}
		}
	}
	// A page spilled to the log and truncated away by its own transaction, then brought back by a later transaction that
	// grows the database without writing it: readers - and the transaction file - find the spilled frame's content.
	for _, ps := range []int{512, 4096} {
		for _, s := range []uint32{3, 255} {
			spill := prog.Op{Kind: "wtx", W: &pager.WTx{Frames: []uint32{s + 1, 1}, NewSize: s, Outcome: "commit"}}
			regrow := prog.Op{Kind: "wtx", W: &pager.WTx{Frames: []uint32{1, 2}, NewSize: s + 2, FreeLeaves: true, Outcome: "commit"}}
			shrinkGrow := []prog.Op{wtx([]uint32{1, s + 1, s + 2}, 0, 0, "commit"), wtx([]uint32{1}, s, 0, "commit"), regrow}
			for _, ops := range [][]prog.Op{{spill, regrow, wtx([]uint32{2}, 0, 0, "commit")}, {spill, regrow, {Kind: "ckpt", Mode: "PASSIVE"}, {Kind: "restart"}}, shrinkGrow, append(append([]prog.Op{}, shrinkGrow...), prog.Op{Kind: "recover"})} {
				cases = append(cases, prog.Case{PageSize: ps, Start: s, StartWAL: true, Ops: ops})
			}
		}
	}
	// Commit frames repeated to fill the sector (psow=0 with synchronous=FULL): several valid commit frames of one
	// transaction under one hold of the write lock; the release captures all of it, and the next transaction is not
	// held up by what was left over.
	for _, ps := range []int{512, 4096} {
		for _, pad := range []int{1, 3} {
			padded := func(frames []uint32, newSize uint32) prog.Op {
				return prog.Op{Kind: "wtx", W: &pager.WTx{Frames: frames, NewSize: newSize, Outcome: "commit", Pad: pad, Sync: true}}
			}
			for _, ops := range [][]prog.Op{
				{padded([]uint32{2}, 0), wtx([]uint32{3}, 0, 0, "commit"), wtx([]uint32{1, 2}, 0, 0, "commit")},
				{padded([]uint32{1, 4}, 4), padded([]uint32{2}, 0), {Kind: "ckpt", Mode: "RESTART"}, wtx([]uint32{3}, 0, 0, "commit"), {Kind: "restart"}},
				{padded([]uint32{1}, 2), padded([]uint32{1, 3}, 3), {Kind: "recover"}, wtx([]uint32{2}, 0, 0, "commit")},
			} {
				cases = append(cases, prog.Case{PageSize: ps, Start: 3, StartWAL: true, Ops: ops})
			}
		}
	}
	// Rolled-back frames behind a commit, overwritten only in part by the next (shorter) transaction: the stale rest has
	// the right salts and a broken checksum chain; the commits that follow are captured all the same.
	for _, ps := range []int{512, 4096} {
		for _, ops := range [][]prog.Op{
			{wtx([]uint32{1, 2}, 0, 0, "commit"), wtx([]uint32{1, 2, 3}, 0, 0, "rollback"), wtx([]uint32{1}, 0, 0, "commit"), wtx([]uint32{2}, 0, 0, "commit"), wtx([]uint32{1, 3}, 0, 0, "commit")},
			{wtx([]uint32{2}, 0, 0, "commit"), wtx([]uint32{2, 1}, 0, 0, "rollback"), wtx([]uint32{3}, 0, 0, "commit"), {Kind: "ckpt", Mode: "PASSIVE"}, wtx([]uint32{1, 2}, 0, 0, "commit"), {Kind: "restart"}},
		} {
			cases = append(cases, prog.Case{PageSize: ps, Start: 3, StartWAL: true, Ops: ops})
		}
	}
	// A write below the captured position is refused and leaves the log as it was.
	for _, ps := range []int{512, 4096} {
		hb := prog.Op{Kind: "stray-wal", Mode: "held-body"}
		for _, ops := range [][]prog.Op{
			{wtx([]uint32{1, 2}, 0, 0, "commit"), hb, wtx([]uint32{3}, 0, 0, "commit")},
			{wtx([]uint32{2}, 0, 0, "commit"), wtx([]uint32{1, 3}, 0, 0, "commit"), hb, {Kind: "recover"}, wtx([]uint32{2}, 0, 0, "commit")},
		} {
			cases = append(cases, prog.Case{PageSize: ps, Start: 3, StartWAL: true, Ops: ops})
		}
	}
	// Other connections trying to get in while a transaction is being captured (see prog.Case.Intrude).
	for _, ps := range []int{512, 4096} {
		for _, pre := range [][]prog.Op{{}, {wtx([]uint32{1, 2}, 0, 0, "commit"), {Kind: "ckpt", Mode: "PASSIVE"}}, {wtx([]uint32{1, 2, 3}, 0, 1, "commit"), {Kind: "ckpt", Mode: "RESTART"}}} {
			ops := append(append([]prog.Op{}, pre...), wtx([]uint32{1, 2}, 0, 0, "commit"), wtx([]uint32{1, 3, 4}, 4, 2, "commit"), wtx([]uint32{2}, 0, 0, "commit"))
			cases = append(cases, prog.Case{PageSize: ps, Start: 3, StartWAL: true, Ops: ops, Intrude: true})
		}
	}
	// Big-endian checksum order and LZ4: a slice of the programs.
	n := len(cases)
	for i := 0; i < n; i += 11 {
		c := cases[i]
		ops := append([]prog.Op{}, c.Ops...)
		if ops[0].Kind == "wtx" {
			w := *ops[0].W
			w.BigEndianCksum = true
			ops[0] = prog.Op{Kind: "wtx", W: &w}
			cases = append(cases, prog.Case{PageSize: c.PageSize, Start: c.Start, StartWAL: true, Ops: ops, Compress: i%22 == 0})
		}
	}

	// Part B: a checkpoint that overtakes the capture of a commit (see ckpt_inside_commit_test.go).
	var partB []any
	for _, r := range ckptInsideCommit(t) {
		if strings.HasPrefix(r.Obs, "harness-error") {
			run.HarnessError("checkpoint inside commit, %s: %s", r.Name, r.Obs)
		}
		for _, v := range r.V {
			kv := strings.SplitN(v, "|", 2)
			run.Violation(kv[0], kv[1], map[string]any{"part": "B", "case": r.Name})
		}
		partB = append(partB, map[string]any{"case": r.Name, "outcome": r.Obs})
	}

	var st prog.Stats
	prog.RunAll(run, "C03", cases, &st)

	cov := map[string]any{
		"states":                        st.Cases,
		"transitions":                   st.Steps,
		"traces_validated_against_impl": st.Cases,
		"programs":                      st.Cases,
		"max_depth":                     maxDepth,
		"file_operations_executed":      st.Steps,
		"distinct_outcome_classes":      st.Classes.N(),
		"outcome_classes":               st.Classes.Top(30),
		"configs":                       cfgs,
		"checkpoint_inside_commit":      partB,
		"exhaustive":                    true,
		"samples":                       st.Samples,
		"rule":                          "all WAL programs of the stated depth over the alphabet {write transactions of 11-16 frame shapes incl. release of the write lock by closing the -shm descriptor and torn trailing frames, 5 SQLite checkpoint shapes, LiteFS recovery} from each (page size, start size); each program's every intermediate state is checked; transitions = individual file operations issued through the FUSE handlers",
	}
	if st.Classes.N() < 3 && run.NViolations() == 0 {
		run.HarnessError("vacuous: %d outcome classes", st.Classes.N())
	}
	run.Finish(cov, []string{
		"SQLite's WAL module is played by the pager simulator incl. wal-index header handling through the shm file (DESIGN.md §2.3).",
		"Single connection writes; a second connection checkpoints; concurrency between them is C10/C11's subject.",
	})
}
