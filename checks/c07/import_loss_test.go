// C07 part D: the node loses write authority while the body of an HTTP import is still arriving.
//
// POST /import on the primary holds the database's write lock while it reads the image from the request. The
// primary is demoted (or hands the lease over) after the K-th read of the body. The import's commit step - the
// rename of its transaction file - begins after the loss: it must not be published, the client must not be told
// success, and the node's position, log and database stay what they were.
package c07

import (
	"bytes"
	"context"
	"fmt"
	"io"
	"net/http"
	"runtime/debug"
	"testing"
	"testing/synctest"
	"time"

	lfshttp "github.com/superfly/litefs/http"
	"verif/lab"
	"verif/mon"
	"verif/oracle"
	"verif/pager"
	"verif/prog"
)

type ImportLossCase struct {
	ImportLoss string `json:"import_loss"` // demote | handoff
	WAL        bool   `json:"wal"`
	At         int    `json:"at"` // the loss happens inside the At-th Read of the request body (0-based)
}

type ImportLossResult struct {
	V       []prog.V `json:"v,omitempty"`
	Class   string   `json:"class"`
	Reads   int      `json:"reads"`
	Harness string   `json:"harness,omitempty"`
}

type lossyBody struct {
	r     io.Reader
	n     int
	at    int
	onHit func()
}

func (b *lossyBody) Read(p []byte) (int, error) {
	if b.n == b.at && b.onHit != nil {
		f := b.onHit
		b.onHit = nil
		f()
	}
	b.n++
	if len(p) > 300 {
		p = p[:300] // several reads per page
	}
	return b.r.Read(p)
}

func runImportLoss(t *testing.T, c ImportLossCase) (res ImportLossResult) {
	const ps = 512
	viol := func(key, format string, args ...any) {
		for _, v := range res.V {
			if v.Key == key {
				return
			}
		}
		res.V = append(res.V, prog.V{Key: key, What: fmt.Sprintf(format, args...) + fmt.Sprintf("\nimport-loss case: %+v", c)})
	}
	synctest.Test(t, func(t *testing.T) {
		defer func() {
			if p := recover(); p != nil {
				viol(prog.PanicKey(p, debug.Stack()), "panic: %v\n%s", p, debug.Stack())
			}
		}()
		cl := lab.NewCluster(10 * time.Second)
		defer cl.Close()
		cl.Defaults = func(cfg *lab.NodeConfig) { cfg.DemoteDelay = 3 * time.Second }
		cl.AddNode("P", true, nil)
		cl.AddNode("R1", true, nil)
		if err := cl.Start("P"); err != nil || cl.WaitPrimary(5*time.Second) == nil {
			res.Harness = "start P"
			return
		}
		if err := cl.Start("R1"); err != nil {
			res.Harness = "start R1"
			return
		}
		P, R := cl.Nodes["P"], cl.Nodes["R1"]
		conn := pager.NewConn(P.M, "db", 1, ps)
		r := conn.RunRTx(pager.RTx{Create: true, NewSize: 4, Final: "DELETE", Outcome: "commit"}, nil)
		if r.Err == nil {
			lab.Settle(300 * time.Millisecond)
			r = conn.RunRTx(pager.RTx{Mods: []uint32{2}, Final: "DELETE", Outcome: "commit", ToWAL: c.WAL}, r.Intended)
		}
		conn.Close()
		if r.Err != nil || !r.Committed {
			res.Harness = fmt.Sprintf("setup: %v at %s", r.Err, r.ErrStep)
			return
		}
		img := r.Intended
		if ok, why := cl.WaitConverged(20*time.Second, nil); !ok {
			res.Harness = "setup converge: " + why
			return
		}
		before, listingBefore := P.DB("db").Pos(), ltxListing(P, "db")

		im := &oracle.Image{PageSize: ps}
		im.Pages = append(im.Pages, pager.MakePage1(ps, 0x9200, 3, c.WAL, 5), pager.MakePage(ps, 2, 0x9200), pager.MakePage(ps, 3, 0x9200))
		lost := false
		body := &lossyBody{r: bytes.NewReader(im.Bytes()), at: c.At}
		body.onHit = func() {
			lost = true
			switch c.ImportLoss {
			case "demote":
				P.Store.Demote()
			case "handoff":
				if err := P.Store.Handoff(context.Background(), R.Store.ID()); err != nil {
					res.Harness = "handoff refused: " + err.Error()
				}
			}
			if !lab.WaitFor(40*time.Second, func() bool { return !P.Store.IsPrimary() }) {
				res.Harness = "P still primary 40 fake seconds after " + c.ImportLoss
			}
		}
		cli := lfshttp.NewClient()
		cli.HTTPClient = &http.Client{Transport: cl.Net.Transport("client")}
		ierr := cli.Import(context.Background(), "http://P", "db", body)
		res.Reads = body.n
		if res.Harness != "" {
			return
		}
		posAfter, listingAfter := P.DB("db").Pos(), ltxListing(P, "db")
		if !lost {
			res.Class = "at-beyond-body"
			return
		}
		res.Class = fmt.Sprintf("import-error=%v published=%v", ierr != nil, posAfter != before || listingAfter != listingBefore)
		if ierr == nil {
			viol("C07/import-accepted-after-loss/"+c.ImportLoss, "the node lost write authority (%s) while the body of an import was arriving (read %d of %d) and answered the import with success; position %s -> %s", c.ImportLoss, c.At, body.n, before, posAfter)
		}
		if posAfter != before || listingAfter != listingBefore {
			viol("C07/import-published-after-loss/"+c.ImportLoss, "the node lost write authority (%s) while the body of an import was arriving (read %d of %d), yet the import was published: position %s -> %s, log %s -> %s", c.ImportLoss, c.At, body.n, before, posAfter, listingBefore, listingAfter)
		}
		if len(res.V) > 0 {
			return
		}
		if cl.WaitPrimary(60*time.Second) == nil {
			viol("C01/no-single-primary/import-loss", "60 fake seconds after the loss the primaries are %v", cl.Primaries())
			return
		}
		if ok, why := cl.WaitConverged(40*time.Second, nil); !ok {
			viol("C01/no-convergence/import-loss", "after the loss: %s", why)
			return
		}
		lab.Settle(10 * time.Second)
		for _, n := range []*lab.Node{P, R} {
			if n.DB("db").Pos() != before {
				viol("C07/replicated-after-loss/import", "%s is at %s after settling; nothing was committed since %s", n.Cfg.Name, n.DB("db").Pos(), before)
			}
			_, fs := mon.CheckDB(n, "db", img)
			for _, f := range fs {
				viol("C07/import-loss/"+f.Prop+"-"+f.Key, "%s after the refused import: %s", n.Cfg.Name, f.What)
			}
			if codes := n.ExitCodes(); len(codes) > 0 {
				viol("C07/exit/import-loss", "%s called Store.Exit(%v)", n.Cfg.Name, codes)
			}
		}
	})
	return res
}
