// C07 part B: write authority lost in the middle of a local transaction.
//
// A transaction runs on the primary through the FUSE handlers. Before its k-th
// file operation - for every k - the node loses write authority (demotion,
// lease revoked by the lease service, lease handed to the other candidate) and
// the harness waits until the node itself knows it (Store.IsPrimary() false).
// The application then carries on as SQLite does. If the loss came before the
// commit step began (journal finalisation; release of the WAL write lock) the
// transaction must be refused, not published: no node's position moves and no
// LTX file appears; if it came after the commit step the transaction is
// published as usual. Either way every node ends with the reference image of
// the position it reports, and the next primary's commit replicates everywhere.
package c07

import (
	"bytes"
	"context"
	"net/http"
	"fmt"
	"os"
	"runtime/debug"
	"sort"
	"strings"
	"testing"
	"testing/synctest"
	"time"

	"github.com/superfly/litefs"
	lfshttp "github.com/superfly/litefs/http"
	"github.com/superfly/ltx"
	"verif/lab"
	"verif/mon"
	"verif/oracle"
	"verif/pager"
	"verif/prog"
)

type LossCase struct {
	Loss  string `json:"loss_kind"` // demote | revoke | handoff | none
	WAL   bool   `json:"wal"`
	Shape string `json:"shape"`
	K     int    `json:"k"` // loss before the K-th file operation of the transaction (0-based); -1 = probe run without loss
	// Commit is the index of the operation that begins the commit step in the loss-free run (from the probe).
	Commit int `json:"commit"`
	// ImportAt >= 0: before that operation of the transaction (the connection then holds its write lock) an HTTP
	// import of another image is sent to the node; it waits for the write lock while the node loses its authority.
	ImportAt int `json:"import_at"`
}

type LossResult struct {
	V          []prog.V `json:"v,omitempty"`
	Steps      int      `json:"steps"`       // file operations the transaction issued
	CommitStep int      `json:"commit_step"` // index of the operation that begins the commit step (-1 unknown)
	LockedFrom int      `json:"locked_from"` // index of the operation that takes the write lock (RESERVED / WAL write lock)
	Class      string   `json:"class"`
	Harness    string   `json:"harness,omitempty"`
	Trace      []string `json:"trace,omitempty"`
}

var lossShapes = map[bool][]string{false: {"mod-delete", "grow-spill-truncate", "mod-persist", "mod-last-page-spill"}, true: {"one-frame", "grow-three-frames"}}

func commitStepOf(wal bool, trace []string) int {
	idx := -1
	for i, d := range trace {
		if !wal && (d == "unlink journal" || d == "journal truncate 0" || d == "journal write zero header") && idx < 0 {
			idx = i
		}
		if wal && d == "unlock shm 120+1" { // release of the WAL write lock
			idx = i
		}
	}
	return idx
}

func ltxListing(n *lab.Node, name string) string {
	d := n.DB(name)
	if d == nil {
		return "-"
	}
	ents, _ := os.ReadDir(d.LTXDir())
	var out []string
	for _, e := range ents {
		if strings.HasSuffix(e.Name(), ".ltx") { // a temporary file is not a published transaction
			out = append(out, e.Name())
		}
	}
	sort.Strings(out)
	return strings.Join(out, ",")
}

func runLoss(t *testing.T, c LossCase) (res LossResult) {
	res.CommitStep = -1
	viol := func(key, format string, args ...any) {
		for _, v := range res.V {
			if v.Key == key {
				return
			}
		}
		res.V = append(res.V, prog.V{Key: key, What: fmt.Sprintf(format, args...) + fmt.Sprintf("\ncase: %+v", c)})
	}
	synctest.Test(t, func(t *testing.T) {
		cl := lab.NewCluster(10 * time.Second)
		defer cl.Close()
		defer func() {
			if p := recover(); p != nil {
				if _, ok := p.(pager.Abort); ok {
					return
				}
				st := debug.Stack()
				viol(prog.PanicKey(p, st), "panic: %v\n%s", p, st)
			}
		}()
		cl.Defaults = func(cfg *lab.NodeConfig) { cfg.DemoteDelay = 3 * time.Second }
		// Store.Exit ends the process on the spot: what the restarted process finds is the data directory as it
		// was at that instant, not what the still-running store object does to it afterwards.
		exitImage := ""
		cl.AddNode("P", true, func(cfg *lab.NodeConfig) {
			cfg.Configure = func(s *litefs.Store) {
				orig := s.Exit
				s.Exit = func(code int) {
					if exitImage == "" {
						exitImage = cfg.Dir + ".at-exit"
						if err := lab.CopyDir(cfg.Dir, exitImage); err != nil {
							res.Harness = "copy at exit: " + err.Error()
						}
					}
					orig(code)
				}
			}
		})
		cl.AddNode("R1", true, nil)
		if err := cl.Start("P"); err != nil || cl.WaitPrimary(5*time.Second) == nil {
			res.Harness = "cluster start failed"
			return
		}
		if err := cl.Start("R1"); err != nil {
			res.Harness = err.Error()
			return
		}
		P, R := cl.Nodes["P"], cl.Nodes["R1"]
		const ps = 512
		ref := map[ltx.Pos]*oracle.Image{}
		conn := pager.NewConn(P.M, "db", 1, ps)
		conn.Det = true
		r := conn.RunRTx(pager.RTx{Create: true, NewSize: 4, Final: "DELETE", Outcome: "commit"}, nil)
		if r.Err == nil && r.Committed {
			ref[P.DB("db").Pos()] = r.Intended
			lab.Settle(300 * time.Millisecond)
			r = conn.RunRTx(pager.RTx{Mods: []uint32{2}, Final: "DELETE", Outcome: "commit", ToWAL: c.WAL}, r.Intended)
		}
		if r.Err != nil || !r.Committed {
			res.Harness = fmt.Sprintf("setup failed: %v at %s", r.Err, r.ErrStep)
			return
		}
		ref[P.DB("db").Pos()] = r.Intended
		cur := r.Intended
		if c.WAL {
			// one committed WAL transaction so that the log and the wal-index exist
			w := conn.RunWTx(pager.WTx{Frames: []uint32{3}, Outcome: "commit"}, cur)
			if w.Err != nil || !w.Committed {
				res.Harness = fmt.Sprintf("setup wal tx failed: %v at %s", w.Err, w.ErrStep)
				return
			}
			cur = w.Intended
			ref[P.DB("db").Pos()] = cur
		}
		if ok, why := cl.WaitConverged(20*time.Second, nil); !ok {
			res.Harness = "setup did not converge: " + why
			return
		}
		before := P.DB("db").Pos()
		listingBefore := ltxListing(P, "db")

		// The transaction under test.
		lost := false
		conn.KeepTrace = true
		conn.Trace = nil
		base := conn.Steps
		importDone := make(chan error, 1)
		importStarted := false
		conn.Before = func(step int, desc string) {
			if c.K >= 0 && c.ImportAt >= 0 && step-base-1 == c.ImportAt && !importStarted {
				importStarted = true
				im := &oracle.Image{PageSize: ps}
				im.Pages = append(im.Pages, pager.MakePage1(ps, 0x9100, 2, c.WAL, 5), pager.MakePage(ps, 2, 0x9100))
				go func() {
					cli := lfshttp.NewClient()
					cli.HTTPClient = &http.Client{Transport: cl.Net.Transport("client")}
					importDone <- cli.Import(context.Background(), "http://P", "db", bytes.NewReader(im.Bytes()))
				}()
				lab.Settle(200 * time.Millisecond) // the import is now waiting for the write lock
			}
			if c.K < 0 || step-base-1 != c.K || lost { // step counts from 1
				return
			}
			lost = true
			switch c.Loss {
			case "demote":
				P.Store.Demote()
			case "revoke":
				// the node is cut off, its lease lapses on the service and the other candidate takes over
				cl.Net.Block("P", "R1")
				cl.Svc.Revoke()
				if !lab.WaitFor(40*time.Second, func() bool { h, _ := cl.Svc.Holder(); return h == "R1" }) {
					res.Harness = "R1 did not take the revoked lease"
				}
			case "handoff":
				if err := P.Store.Handoff(context.Background(), R.Store.ID()); err != nil {
					res.Harness = "handoff refused: " + err.Error()
				}
			}
			if !lab.WaitFor(40*time.Second, func() bool { return !P.Store.IsPrimary() }) {
				res.Harness = "P still primary 40 fake seconds after " + c.Loss
			}
			if c.Loss == "revoke" {
				cl.Net.Unblock("P", "R1")
			}
		}
		var committed bool
		var intended *oracle.Image
		var txErr error
		var errStep string
		if c.WAL {
			var w pager.WTx
			switch c.Shape {
			case "one-frame":
				w = pager.WTx{Frames: []uint32{2}, Outcome: "commit"}
			case "grow-three-frames":
				w = pager.WTx{Frames: []uint32{1, 2, 5}, Outcome: "commit"}
			}
			out := conn.RunWTx(w, cur)
			committed, intended, txErr, errStep = out.Committed, out.Intended, out.Err, out.ErrStep
		} else {
			var x pager.RTx
			switch c.Shape {
			case "mod-delete":
				x = pager.RTx{Mods: []uint32{2}, Final: "DELETE", Outcome: "commit"}
			case "grow-spill-truncate":
				x = pager.RTx{Mods: []uint32{2, 3}, NewSize: 6, SpillAfter: []int{1}, Final: "TRUNCATE", Outcome: "commit"}
			case "mod-persist":
				x = pager.RTx{Mods: []uint32{3}, Final: "PERSIST", Outcome: "commit"}
			case "mod-last-page-spill":
				// the last page of the database is overwritten in the file before the loss (spill): the node's own recovery must put it back
				x = pager.RTx{Mods: []uint32{4, 2}, SpillAfter: []int{1}, Final: "DELETE", Outcome: "commit"}
			}
			out := conn.RunRTx(x, cur)
			committed, intended, txErr, errStep = out.Committed, out.Intended, out.Err, out.ErrStep
		}
		conn.Before = nil
		importResult := "none"
		if importStarted {
			var ierr error
			got := lab.WaitFor(60*time.Second, func() bool {
				select {
				case ierr = <-importDone:
					return true
				default:
					return false
				}
			})
			switch {
			case !got:
				importResult = "no-answer"
			case ierr == nil:
				importResult = "accepted"
			default:
				importResult = "refused"
			}
		}
		posAfterTx := P.DB("db").Pos()
		listingAfterTx := ltxListing(P, "db")
		res.Steps = conn.Steps - base
		res.Trace = conn.Trace
		res.CommitStep = commitStepOf(c.WAL, conn.Trace)
		res.LockedFrom = -1
		for i, d := range conn.Trace {
			if d == "lock RESERVED w" || d == "lock shm 120+1 w" {
				res.LockedFrom = i
				break
			}
		}
		conn.Close()
		if res.Harness != "" {
			return
		}
		if c.K < 0 {
			if txErr != nil || !committed {
				res.Harness = fmt.Sprintf("probe transaction failed: %v at %s", txErr, errStep)
			}
			res.Class = "probe"
			return
		}
		if !lost {
			res.Class = "k-beyond-transaction"
			return
		}
		exited := len(P.ExitCodes()) > 0
		if exited {
			// A refused WAL commit stops the process by design (the WAL holds frames LiteFS did not publish); the supervisor restarts it.
			dump := func(when string) {
				if os.Getenv("VERIF_LOG") == "" {
					return
				}
				ents, _ := os.ReadDir(P.DB("db").Path())
				for _, e := range ents {
					if fi, err := e.Info(); err == nil {
						fmt.Fprintf(os.Stderr, "DUMP %s: %s %d\n", when, e.Name(), fi.Size())
					}
				}
			}
			dump("before stop")
			_ = P.Stop()
			dump("after stop")
			P.ClearExits()
			if exitImage == "" {
				res.Harness = "exit without image"
				return
			}
			lab.RemoveAll(P.Cfg.Dir)
			if err := os.Rename(exitImage, P.Cfg.Dir); err != nil {
				res.Harness = err.Error()
				return
			}
			if err := P.Start(); err != nil {
				viol("C05/reopen-failed", "P does not reopen after the exit that followed the refused commit: %v", err)
				return
			}
		}
		// Let the cluster find its next primary and settle.
		np := cl.WaitPrimary(60 * time.Second)
		if np == nil {
			viol("C01/no-single-primary/loss", "60 fake seconds after the loss the primaries are %v", cl.Primaries())
			return
		}
		ok, why := cl.WaitConverged(40*time.Second, nil)
		// The node that lost authority finishes its role change (demotion delay, recovery of its databases, reconnect) in its own time.
		lab.Settle(10 * time.Second)
		if !ok {
			if ok2, why2 := cl.Converged(nil); !ok2 {
				viol("C01/no-convergence/loss", "after the loss: %s (%s)", why2, why)
			}
		}
		// The commit step is the operation at index CommitStep of the loss-free trace. The prefix of the trace
		// up to the loss is the same as in the loss-free run, so K <= CommitStep means the loss came first.
		// (CommitStep of this run is only known when the run got that far; use the position in this run's own trace.)
		after := P.DB("db").Pos()
		published := posAfterTx != before || listingAfterTx != listingBefore
		lossBeforeCommit := c.K <= c.Commit
		res.Class = fmt.Sprintf("loss-before-commit-step=%v app-told-committed=%v published=%v err=%v exited=%v import=%s", lossBeforeCommit, committed, published, txErr != nil, exited, importResult)
		if importStarted && lossBeforeCommit && importResult == "accepted" {
			viol("C07/import-accepted-after-loss/"+c.Loss, "an import that was waiting for the write lock when the node lost write authority (%s before operation %d) was answered with success; position %s -> %s", c.Loss, c.K, before, posAfterTx)
		}
		if lossBeforeCommit {
			if published {
				viol("C07/published-after-loss/"+c.Loss, "the node lost write authority (%s) before operation %d (%q); the commit step begins at operation %d, yet the transaction was published: position %s -> %s, log %s -> %s\ntrace: %v",
					c.Loss, c.K, at(conn.Trace, c.K), c.Commit, before, posAfterTx, listingBefore, listingAfterTx, conn.Trace)
			}
			if R.DB("db").Pos() != before || after != before {
				viol("C07/replicated-after-loss/"+c.Loss, "after settling P is at %s and R1 at %s although the transaction's commit step began after the loss (before: %s)", after, R.DB("db").Pos(), before)
			}
		} else if committed && posAfterTx == before {
			viol("C07/commit-before-loss-not-published", "the commit step completed before the loss and the application was told success, but the position was still %s when the transaction returned", before)
		}
		if committed && !published && !c.WAL {
			viol("C07/acknowledged-but-refused/"+c.Loss, "the application's commit returned success although the node refused to publish it (loss before operation %d, commit step at %d)", c.K, c.Commit)
		}
		ref[before] = cur
		if published && intended != nil {
			ref[posAfterTx] = intended
		}
		// Every node holds the reference image of the position it reports.
		check := func(stage string) {
			for _, n := range []*lab.Node{P, R} {
				d := n.DB("db")
				want, known := ref[d.Pos()]
				if !known {
					viol("C01/unknown-position/"+stage, "%s reports position %s which no primary committed", n.Cfg.Name, d.Pos())
					continue
				}
				_, fs := mon.CheckDB(n, "db", want)
				for _, f := range fs {
					pr := f.Prop
					if pr == "image" {
						pr = "C07"
					}
					viol(pr+"/"+f.Key+"/"+stage, "%s", f.What)
				}
				rc := pager.NewConn(n.M, "db", 77, ps)
				var got *oracle.Image
				var err error
				if c.WAL {
					got, err = rc.ReadImageWAL()
				} else {
					got, err = rc.ReadImage()
				}
				rc.Close()
				if err != nil {
					viol("C07/reader-error/"+stage, "%s: reading the database through the mount failed: %v", n.Cfg.Name, err)
				} else if ok, diff := got.Equal(want); !ok {
					viol("C07/reader-image/"+stage, "%s: at position %s an application reads an image that differs from the reference: %s", n.Cfg.Name, d.Pos(), diff)
				}
				if codes := n.ExitCodes(); len(codes) > 0 {
					viol("C07/exit/"+stage, "%s called Store.Exit(%v)", n.Cfg.Name, codes)
				}
			}
		}
		check("after-loss")
		if len(res.V) > 0 {
			return
		}
		// The next primary commits; everybody follows.
		np = cl.Primary()
		if np == nil {
			viol("C01/no-single-primary/follow-up", "primaries: %v", cl.Primaries())
			return
		}
		base2, _ := ref[np.DB("db").Pos()]
		fc := pager.NewConn(np.M, "db", 9, ps)
		fc.Det = true
		if c.WAL {
			w := fc.RunWTx(pager.WTx{Frames: []uint32{4}, Outcome: "commit"}, base2)
			if w.Err != nil || !w.Committed {
				viol("C07/follow-up-commit-failed", "the next primary %s cannot commit: %v at %s", np.Cfg.Name, w.Err, w.ErrStep)
			} else {
				ref[np.DB("db").Pos()] = w.Intended
			}
		} else {
			x := fc.RunRTx(pager.RTx{Mods: []uint32{4}, Final: "DELETE", Outcome: "commit"}, base2)
			if x.Err != nil || !x.Committed {
				viol("C07/follow-up-commit-failed", "the next primary %s cannot commit: %v at %s", np.Cfg.Name, x.Err, x.ErrStep)
			} else {
				ref[np.DB("db").Pos()] = x.Intended
			}
		}
		fc.Close()
		if ok, why := cl.WaitConverged(40*time.Second, nil); !ok {
			viol("C01/no-convergence/follow-up", "after the next primary's commit: %s", why)
		}
		lab.Settle(1500 * time.Millisecond)
		check("follow-up")
		if len(cl.Net.Panics) > 0 {
			viol("C20/handler-panic", "HTTP handler panicked: %s", cl.Net.Panics[0])
		}
	})
	return res
}

func at(trace []string, k int) string {
	if k >= 0 && k < len(trace) {
		return trace[k]
	}
	return "?"
}
