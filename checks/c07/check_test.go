// C07: a node without write authority cannot change a replicated database.
//
// Part E1 (this file): on a replica that is connected and caught up, the full
// rollback-journal and WAL transaction scripts are executed step by step
// through the real FUSE handlers, continuing past refusals, with one (thorough:
// two) extra arbitrary mutating operation inserted at every position. After
// every single operation the replica's digest (position, logical image, LTX
// directory contents) must be unchanged, page/journal/WAL writes must fail with
// EACCES, and the file modes must show a read-only database. Primary commits
// are part of the alphabet so that the position is seen to move by the stream only.
package c07

import (
	"bytes"
	"context"
	"crypto/sha256"
	"encoding/binary"
	"encoding/json"
	"fmt"
	"net/http"
	"os"
	"path/filepath"
	"runtime/debug"
	"sort"
	"strings"
	"syscall"
	"testing"
	"testing/synctest"
	"time"

	lfshttp "github.com/superfly/litefs/http"
	"verif/lab"
	"verif/oracle"
	"verif/pager"
	"verif/prog"
	"verif/vlib"
)

type Case struct {
	WAL       bool     `json:"wal"`
	PageSize  int      `json:"ps"`
	Leftover  bool     `json:"leftover"` // a journal file exists on the replica (left from an earlier role)
	Insert    []string `json:"insert"`   // extra ops
	At        []int    `json:"at"`       // positions in the script (before step At[i])
}

type Result struct {
	V       []prog.V       `json:"v,omitempty"`
	Ops     int            `json:"ops"`
	Classes map[string]int `json:"classes"`
	Harness string         `json:"harness,omitempty"`
	Script  []string       `json:"script,omitempty"`
}

const owner = 42

type rig struct {
	c    Case
	res  *Result
	cl   *lab.Cluster
	P, R *lab.Node
	img  *oracle.Image
	ps   int
	s    uint32
	db, jrn, wal, shm *lab.File
	expect string
}

func (g *rig) viol(key, format string, args ...any) {
	for _, v := range g.res.V {
		if v.Key == key {
			return
		}
	}
	b, _ := json.Marshal(g.c)
	g.res.V = append(g.res.V, prog.V{Key: key, What: fmt.Sprintf(format, args...) + "\ncase: " + string(b)})
}

func (g *rig) digest() string {
	db := g.R.DB("db")
	if db == nil {
		return "nodb"
	}
	h := sha256.New()
	fmt.Fprintf(h, "pos=%s pageN=%d\n", db.Pos(), db.PageN())
	img, err := oracle.ReadLogicalImage(db.Path(), g.ps)
	if err != nil {
		fmt.Fprintf(h, "image unreadable: %v\n", err)
	} else {
		fmt.Fprintf(h, "image %d pages %x\n", img.N(), sha256.Sum256(img.Bytes()))
	}
	ents, _ := os.ReadDir(db.LTXDir())
	var names []string
	for _, e := range ents {
		names = append(names, e.Name())
	}
	sort.Strings(names)
	for _, n := range names {
		b, _ := os.ReadFile(filepath.Join(db.LTXDir(), n))
		fmt.Fprintf(h, "ltx %s %x\n", n, sha256.Sum256(b))
	}
	return fmt.Sprintf("%x", h.Sum(nil)[:12])
}

// kind: "write" = page/journal/WAL write that must be refused with EACCES;
// "mutate" = other mutating op (must not change the digest; refusal with any error is fine);
// "neutral" = lock/sync/read ops.
type op struct {
	name string
	kind string
	run  func(g *rig) error
}

func (g *rig) needDB() error {
	if g.db != nil {
		return nil
	}
	f, err := g.R.M.Open("db", owner)
	g.db = f
	return err
}

func (g *rig) needJournal(create bool) error {
	if g.jrn != nil {
		return nil
	}
	if g.R.M.Exists("db-journal") {
		f, err := g.R.M.Open("db-journal", owner)
		g.jrn = f
		return err
	}
	if !create {
		return errNoHandle
	}
	f, err := g.R.M.Create("db-journal", owner)
	g.jrn = f
	return err
}

func (g *rig) needWAL() error {
	if g.wal != nil {
		return nil
	}
	f, _, err := g.R.M.OpenOrCreate("db-wal", owner)
	g.wal = f
	return err
}

func (g *rig) needSHM() error {
	if g.shm != nil {
		return nil
	}
	f, _, err := g.R.M.OpenOrCreate("db-shm", owner)
	g.shm = f
	return err
}

var errNoHandle = fmt.Errorf("no handle (file does not exist and cannot be created)")

func journalHeader(ps int, nRec uint32, orig uint32) []byte {
	b := make([]byte, 512)
	copy(b, []byte{0xd9, 0xd5, 0x05, 0xf9, 0x20, 0xa1, 0x63, 0xd7})
	binary.BigEndian.PutUint32(b[8:], nRec)
	binary.BigEndian.PutUint32(b[12:], 99)
	binary.BigEndian.PutUint32(b[16:], orig)
	binary.BigEndian.PutUint32(b[20:], 512)
	binary.BigEndian.PutUint32(b[24:], uint32(ps))
	return b
}

func walHeader(ps int) []byte {
	hdr := make([]byte, 32)
	binary.BigEndian.PutUint32(hdr[0:], 0x377f0682)
	binary.BigEndian.PutUint32(hdr[4:], 3007000)
	binary.BigEndian.PutUint32(hdr[8:], uint32(ps))
	binary.BigEndian.PutUint32(hdr[16:], 0x1111)
	binary.BigEndian.PutUint32(hdr[20:], 0x2222)
	var s0, s1 uint32
	for i := 0; i < 24; i += 8 {
		s0 += binary.LittleEndian.Uint32(hdr[i:]) + s1
		s1 += binary.LittleEndian.Uint32(hdr[i+4:]) + s0
	}
	binary.BigEndian.PutUint32(hdr[24:], s0)
	binary.BigEndian.PutUint32(hdr[28:], s1)
	return hdr
}

func (g *rig) ops() map[string]op {
	ps := g.ps
	m := map[string]op{}
	add := func(name, kind string, run func(g *rig) error) { m[name] = op{name, kind, run} }
	newPage := func(p uint32) []byte { return pager.MakePage(ps, p, 0x777) }
	// database file
	add("db.write.p2", "write", func(g *rig) error { return g.db.Pwrite(int64(ps), newPage(2)) })
	add("db.write.p1", "write", func(g *rig) error {
		return g.db.Pwrite(0, pager.MakePage1(ps, 0x777, g.s, g.c.WAL, 99))
	})
	add("db.write.unaligned", "write", func(g *rig) error { return g.db.Pwrite(100, make([]byte, 50)) })
	add("db.write.beyond", "write", func(g *rig) error { return g.db.Pwrite(int64(g.s+1)*int64(ps), newPage(g.s+2)) })
	add("db.write.half", "write", func(g *rig) error { return g.db.Pwrite(int64(ps), make([]byte, ps/2)) })
	add("db.trunc.same", "mutate", func(g *rig) error { return g.db.Truncate(int64(g.s) * int64(ps)) })
	add("db.trunc.smaller", "mutate", func(g *rig) error { return g.db.Truncate(int64(g.s-1) * int64(ps)) })
	add("db.trunc.larger", "mutate", func(g *rig) error { return g.db.Truncate(int64(g.s+1) * int64(ps)) })
	add("db.trunc.unaligned", "mutate", func(g *rig) error { return g.db.Truncate(int64(ps) + 7) })
	add("db.trunc.zero", "mutate", func(g *rig) error { return g.db.Truncate(0) })
	add("db.fsync", "neutral", func(g *rig) error { return g.db.Fsync() })
	add("db.unlink", "mutate", func(g *rig) error { return g.R.M.Remove("db") })
	// journal
	add("j.create", "mutate", func(g *rig) error { return g.needJournal(true) })
	add("j.write.hdr", "write", func(g *rig) error {
		if err := g.needJournal(false); err != nil {
			return err
		}
		return g.jrn.Pwrite(0, journalHeader(ps, 1, g.s))
	})
	add("j.write.rec", "write", func(g *rig) error {
		if err := g.needJournal(false); err != nil {
			return err
		}
		return g.jrn.Pwrite(512, append([]byte{0, 0, 0, 2}, g.img.Pages[1]...))
	})
	add("j.write.zero28", "write", func(g *rig) error {
		if err := g.needJournal(false); err != nil {
			return err
		}
		return g.jrn.Pwrite(0, make([]byte, 28))
	})
	add("j.trunc0", "mutate", func(g *rig) error {
		if err := g.needJournal(false); err != nil {
			return err
		}
		return g.jrn.Truncate(0)
	})
	add("j.unlink", "mutate", func(g *rig) error { return g.R.M.Remove("db-journal") })
	add("j.fsync", "neutral", func(g *rig) error {
		if err := g.needJournal(false); err != nil {
			return err
		}
		return g.jrn.Fsync()
	})
	// wal
	add("wal.create", "neutral", func(g *rig) error { return g.needWAL() })
	add("wal.write.hdr", "write", func(g *rig) error {
		if err := g.needWAL(); err != nil {
			return err
		}
		return g.wal.Pwrite(0, walHeader(ps))
	})
	add("wal.write.fhdr", "write", func(g *rig) error {
		if err := g.needWAL(); err != nil {
			return err
		}
		fh := make([]byte, 24)
		binary.BigEndian.PutUint32(fh[0:], 2)
		binary.BigEndian.PutUint32(fh[4:], g.s)
		binary.BigEndian.PutUint32(fh[8:], 0x1111)
		binary.BigEndian.PutUint32(fh[12:], 0x2222)
		return g.wal.Pwrite(32, fh)
	})
	add("wal.write.fbody", "write", func(g *rig) error {
		if err := g.needWAL(); err != nil {
			return err
		}
		return g.wal.Pwrite(56, newPage(2))
	})
	add("wal.trunc0", "mutate", func(g *rig) error {
		if err := g.needWAL(); err != nil {
			return err
		}
		return g.wal.Truncate(0)
	})
	add("wal.unlink", "mutate", func(g *rig) error { return g.R.M.Remove("db-wal") })
	add("wal.fsync", "neutral", func(g *rig) error {
		if err := g.needWAL(); err != nil {
			return err
		}
		return g.wal.Fsync()
	})
	// shm
	add("shm.open", "neutral", func(g *rig) error { return g.needSHM() })
	add("shm.write", "neutral", func(g *rig) error {
		if err := g.needSHM(); err != nil {
			return err
		}
		return g.shm.Pwrite(0, make([]byte, 136))
	})
	add("shm.trunc3", "neutral", func(g *rig) error {
		if err := g.needSHM(); err != nil {
			return err
		}
		return g.shm.Truncate(3)
	})
	add("shm.unlink", "neutral", func(g *rig) error { return g.R.M.Remove("db-shm") })
	// locks
	lk := func(name string, f func(g *rig) (*lab.File, error), start, end uint64, write bool) {
		add(name, "neutral", func(g *rig) error {
			h, err := f(g)
			if err != nil {
				return err
			}
			return h.Lock(start, end, write)
		})
	}
	ul := func(name string, f func(g *rig) (*lab.File, error), start, end uint64) {
		add(name, "neutral", func(g *rig) error {
			h, err := f(g)
			if err != nil {
				return err
			}
			return h.Unlock(start, end)
		})
	}
	dbf := func(g *rig) (*lab.File, error) { return g.db, nil }
	shmf := func(g *rig) (*lab.File, error) { return g.shm, g.needSHM() }
	lk("lock.PENDING.r", dbf, pager.PendingByte, pager.PendingByte, false)
	lk("lock.SHARED.r", dbf, pager.SharedFirst, pager.SharedFirst+pager.SharedSize-1, false)
	ul("unlock.PENDING", dbf, pager.PendingByte, pager.PendingByte)
	lk("lock.RESERVED.w", dbf, pager.ReservedByte, pager.ReservedByte, true)
	lk("lock.PENDING.w", dbf, pager.PendingByte, pager.PendingByte, true)
	lk("lock.SHARED.w", dbf, pager.SharedFirst, pager.SharedFirst+pager.SharedSize-1, true)
	ul("unlock.db.all", dbf, 0, 1<<62)
	lk("lock.DMS.r", shmf, pager.WALDMSLock, pager.WALDMSLock, false)
	lk("lock.READ0.r", shmf, pager.WALReadLock0, pager.WALReadLock0, false)
	lk("lock.WRITE.w", shmf, pager.WALWriteLock, pager.WALWriteLock, true)
	lk("lock.CKPT.w", shmf, pager.WALCkptLock, pager.WALCkptLock, true)
	lk("lock.RECOVER.w", shmf, pager.WALRecoverLock, pager.WALRecoverLock, true)
	ul("unlock.WRITE", shmf, pager.WALWriteLock, pager.WALWriteLock)
	ul("unlock.CKPT", shmf, pager.WALCkptLock, pager.WALCkptLock)
	ul("unlock.shm.all", shmf, 0, 1<<62)
	add("close.shm", "neutral", func(g *rig) error {
		if g.shm == nil {
			return nil
		}
		err := g.shm.Close()
		g.shm = nil
		return err
	})
	// import to the replica's own HTTP endpoint
	add("http.import", "mutate", func(g *rig) error {
		cl := lfshttp.NewClient()
		cl.HTTPClient = &http.Client{Transport: g.cl.Net.Transport("client")}
		im := &oracle.Image{PageSize: ps}
		im.Pages = append(im.Pages, pager.MakePage1(ps, 0x888, 2, false, 5), pager.MakePage(ps, 2, 0x888))
		return cl.Import(context.Background(), "http://R1", "db", bytes.NewReader(im.Bytes()))
	})
	// a commit on the primary: the only legitimate way the replica's state moves
	add("P.tx", "primary", func(g *rig) error {
		conn := pager.NewConn(g.P.M, "db", 7, ps)
		conn.Det = true
		defer conn.Close()
		if g.c.WAL {
			r := conn.RunWTx(pager.WTx{Frames: []uint32{1, 3}, Outcome: "commit"}, g.img)
			if r.Err != nil || !r.Committed {
				return fmt.Errorf("primary wtx: %v at %s", r.Err, r.ErrStep)
			}
			g.img = r.Intended
		} else {
			r := conn.RunRTx(pager.RTx{Mods: []uint32{3}, Final: "DELETE", Outcome: "commit"}, g.img)
			if r.Err != nil || !r.Committed {
				return fmt.Errorf("primary rtx: %v at %s", r.Err, r.ErrStep)
			}
			g.img = r.Intended
		}
		return nil
	})
	return m
}

func script(wal bool) []string {
	if !wal {
		return []string{
			"lock.PENDING.r", "lock.SHARED.r", "unlock.PENDING", "lock.RESERVED.w",
			"j.create", "j.write.hdr", "j.write.rec", "j.fsync", "j.write.hdr",
			"lock.PENDING.w", "lock.SHARED.w", "db.write.p2", "db.write.p1", "db.write.beyond", "db.fsync",
			"j.unlink", "db.trunc.smaller", "lock.SHARED.r", "unlock.db.all",
			// the same again with the other finalisations
			"lock.RESERVED.w", "j.create", "j.write.hdr", "db.write.p2", "j.trunc0",
			"j.write.hdr", "db.write.p2", "j.write.zero28", "unlock.db.all",
		}
	}
	return []string{
		"shm.open", "lock.DMS.r", "wal.create", "lock.READ0.r", "lock.WRITE.w",
		"wal.write.hdr", "wal.write.fhdr", "wal.write.fbody", "wal.fsync", "shm.write",
		"unlock.WRITE", // the WAL capture trigger
		"lock.CKPT.w", "db.write.p2", "db.trunc.same", "wal.trunc0", "unlock.CKPT",
		"lock.WRITE.w", "lock.CKPT.w", "lock.RECOVER.w", "unlock.shm.all",
		"lock.WRITE.w", "wal.write.hdr", "close.shm",
	}
}

var extras = []string{
	"db.write.p2", "db.write.p1", "db.write.unaligned", "db.write.beyond", "db.write.half",
	"db.trunc.same", "db.trunc.smaller", "db.trunc.larger", "db.trunc.unaligned", "db.trunc.zero", "db.unlink",
	"j.create", "j.write.hdr", "j.write.rec", "j.write.zero28", "j.trunc0", "j.unlink",
	"wal.create", "wal.write.hdr", "wal.write.fhdr", "wal.write.fbody", "wal.trunc0", "wal.unlink",
	"shm.write", "shm.trunc3", "shm.unlink",
	"lock.RESERVED.w", "lock.WRITE.w", "unlock.WRITE", "lock.CKPT.w", "unlock.shm.all", "unlock.db.all",
	"db.fsync", "http.import", "P.tx",
}

func run1(t *testing.T, c Case) (res Result) {
	res.Classes = map[string]int{}
	g := &rig{c: c, res: &res, ps: c.PageSize}
	synctest.Test(t, func(t *testing.T) {
		cl := lab.NewCluster(10 * time.Second)
		g.cl = cl
		defer cl.Close()
		defer func() {
			if p := recover(); p != nil {
				st := debug.Stack()
				g.viol(prog.PanicKey(p, st), "panic: %v\n%s", p, st)
			}
			for _, f := range []*lab.File{g.jrn, g.wal, g.shm, g.db} {
				if f != nil {
					func() { defer func() { _ = recover() }(); _ = f.Close() }()
				}
			}
		}()
		cl.AddNode("P", true, nil)
		cl.AddNode("R1", false, nil)
		if err := cl.Start("P"); err != nil || cl.WaitPrimary(5*time.Second) == nil {
			res.Harness = "cluster start failed"
			return
		}
		if err := cl.Start("R1"); err != nil {
			res.Harness = err.Error()
			return
		}
		g.P, g.R = cl.Nodes["P"], cl.Nodes["R1"]
		conn := pager.NewConn(g.P.M, "db", 1, g.ps)
		conn.Det = true
		r := conn.RunRTx(pager.RTx{Create: true, NewSize: 4, Final: "DELETE", Outcome: "commit"}, nil)
		if r.Err == nil && r.Committed {
			lab.Settle(300 * time.Millisecond)
			r = conn.RunRTx(pager.RTx{Mods: []uint32{2}, Final: "DELETE", Outcome: "commit", ToWAL: c.WAL}, r.Intended)
		}
		if r.Err != nil || !r.Committed {
			res.Harness = fmt.Sprintf("setup failed: %v at %s", r.Err, r.ErrStep)
			return
		}
		conn.Close()
		g.img, g.s = r.Intended, r.Intended.N()
		if ok, why := cl.WaitConverged(20*time.Second, nil); !ok {
			res.Harness = "setup did not converge: " + why
			return
		}
		if c.Leftover {
			// A journal left in the data directory from an earlier role of this node.
			j := append(journalHeader(g.ps, 1, g.s), append([]byte{0, 0, 0, 2}, g.img.Pages[1]...)...)
			if err := os.WriteFile(g.R.DB("db").JournalPath(), j, 0o666); err != nil {
				res.Harness = err.Error()
				return
			}
		}
		// File modes: read-only database and root on the replica, writable on the primary.
		if a, err := g.R.M.Attr("db"); err == nil && a.Mode.Perm() != 0o444 {
			g.viol("C07/mode/replica-db", "replica reports database mode %o, want 0444", a.Mode.Perm())
		}
		if a, err := g.P.M.Attr("db"); err == nil && a.Mode.Perm() != 0o666 {
			g.viol("C07/mode/primary-db", "primary reports database mode %o, want 0666", a.Mode.Perm())
		}
		if a := g.R.M.RootAttr(); a.Mode.Perm() != 0o555 {
			g.viol("C07/mode/replica-root", "replica reports root mode %o, want 0555", a.Mode.Perm())
		}
		if a := g.P.M.RootAttr(); a.Mode.Perm() != 0o777 {
			g.viol("C07/mode/primary-root", "primary reports root mode %o, want 0777", a.Mode.Perm())
		}
		if err := g.needDB(); err != nil {
			res.Harness = "open db on replica: " + err.Error()
			return
		}
		ops := g.ops()
		// Build the op sequence: script with extras inserted.
		base := script(c.WAL)
		var seq []string
		for i, st := range base {
			for k, at := range c.At {
				if at == i {
					seq = append(seq, c.Insert[k])
				}
			}
			seq = append(seq, st)
		}
		for k, at := range c.At {
			if at >= len(base) {
				seq = append(seq, c.Insert[k])
			}
		}
		res.Script = seq
		g.expect = g.digest()
		for i, name := range seq {
			o, ok := ops[name]
			if !ok {
				res.Harness = "unknown op " + name
				return
			}
			var err error
			func() {
				defer func() {
					if p := recover(); p != nil {
						st := debug.Stack()
						g.viol(prog.PanicKey(p, st), "step %d (%s): handler panicked: %v\n%s", i, name, p, st)
						err = fmt.Errorf("panic")
					}
				}()
				if g.db == nil {
					_ = g.needDB()
				}
				err = o.run(g)
			}()
			res.Ops++
			if o.kind == "primary" {
				if err != nil {
					res.Harness = "primary tx failed: " + err.Error()
					return
				}
				if ok, why := cl.WaitConverged(20*time.Second, nil); !ok {
					g.viol("C01/no-convergence", "replica did not follow the primary's commit: %s", why)
					return
				}
				g.expect = g.digest()
				if li, e := oracle.ReadLogicalImage(g.R.DB("db").Path(), g.ps); e != nil || !eq(li, g.img) {
					g.viol("C01/replica-image", "after a primary commit the replica's image differs from the primary's")
				}
				continue
			}
			lab.Settle(10 * time.Millisecond)
			cls := "ok"
			if err != nil {
				cls = "err-" + lab.Errno(err).Error()
				if err == errNoHandle {
					cls = "no-handle"
				}
			}
			res.Classes[o.kind+"/"+strings.Split(name, ".")[0]+"="+cls]++
			if now := g.digest(); now != g.expect {
				g.viol("C07/changed-state/"+name, "step %d (%s, result %v) changed the replica's image, position or transaction log\nsequence: %v", i, name, err, seq[:i+1])
				return
			}
			if o.kind == "write" && err != errNoHandle {
				if err == nil {
					g.viol("C07/write-accepted/"+name, "step %d (%s) was accepted on a node without write authority\nsequence: %v", i, name, seq[:i+1])
				} else if lab.Errno(err) != syscall.EACCES {
					g.viol("C07/write-errno/"+strings.Split(name, ".")[0], "step %d (%s) was refused with %v (errno %d), want EACCES\nsequence: %v", i, name, err, lab.Errno(err), seq[:i+1])
				}
			}
			if codes := g.R.ExitCodes(); len(codes) > 0 {
				// Not a clause of this property (image, position and log are unchanged): recorded as an outcome class only.
				res.Classes["note/replica-exit-after/"+name]++
				return
			}
		}
		if len(cl.Net.Panics) > 0 {
			g.viol("C20/handler-panic", "HTTP handler panicked: %s", cl.Net.Panics[0])
		}
	})
	return res
}

// lockFree reports whether the application holds no lock just before script position at.
func lockFree(wal bool, at int) bool {
	sc := script(wal)
	if at == 0 {
		return true
	}
	if at > len(sc) {
		at = len(sc)
	}
	last := sc[at-1]
	return last == "unlock.db.all" || last == "close.shm"
}

func eq(a, b *oracle.Image) bool { ok, _ := a.Equal(b); return ok }

func TestCheck(t *testing.T) {
	if vlib.IsWorker() {
		vlib.Serve(func(in json.RawMessage) any {
			var probe struct {
				Loss string `json:"loss_kind"`
			}
			if json.Unmarshal(in, &probe) == nil && probe.Loss != "" {
				var lc LossCase
				if err := json.Unmarshal(in, &lc); err != nil {
					return LossResult{Harness: "bad case"}
				}
				return runLoss(t, lc)
			}
			var iprobe struct {
				ImportLoss string `json:"import_loss"`
			}
			if json.Unmarshal(in, &iprobe) == nil && iprobe.ImportLoss != "" {
				var ic ImportLossCase
				if err := json.Unmarshal(in, &ic); err != nil {
					return ImportLossResult{Harness: "bad case"}
				}
				return runImportLoss(t, ic)
			}
			var hprobe struct {
				Halt string `json:"halt_kind"`
			}
			if json.Unmarshal(in, &hprobe) == nil && hprobe.Halt != "" {
				var hc HaltCase
				if err := json.Unmarshal(in, &hc); err != nil {
					return HaltResult{Harness: "bad case"}
				}
				return runHalt(t, hc)
			}
			var c Case
			if err := json.Unmarshal(in, &c); err != nil {
				return Result{Harness: "bad case"}
			}
			return run1(t, c)
		})
	}
	run := vlib.Start("C07", "model_checking")
	var cases []Case
	for _, wal := range []bool{false, true} {
		n := len(script(wal))
		for _, left := range []bool{false, true} {
			if wal && left {
				continue
			}
			cases = append(cases, Case{WAL: wal, PageSize: 512, Leftover: left})
			for at := 0; at <= n; at++ {
				for _, ex := range extras {
					if ex == "P.tx" && !lockFree(wal, at) {
						continue // while the application holds locks the replica rightly waits before applying
					}
					cases = append(cases, Case{WAL: wal, PageSize: 512, Leftover: left, Insert: []string{ex}, At: []int{at}})
				}
			}
			if run.Thorough() {
				// two inserted operations: every pair from a reduced set at a reduced set of positions
				red := []string{"db.write.p2", "db.trunc.smaller", "j.create", "j.write.hdr", "j.unlink", "wal.write.hdr", "wal.write.fbody", "unlock.WRITE", "lock.WRITE.w", "db.unlink", "http.import", "P.tx"}
				for a1 := 0; a1 <= n; a1 += 3 {
					for a2 := a1; a2 <= n; a2 += 4 {
						for _, e1 := range red {
							for _, e2 := range red {
								if (e1 == "P.tx" && !lockFree(wal, a1)) || (e2 == "P.tx" && !lockFree(wal, a2)) {
									continue
								}
								if (e2 == "P.tx" && strings.HasPrefix(e1, "lock.")) || (e1 == "P.tx" && strings.HasPrefix(e2, "lock.") && a1 == a2) {
									continue // the inserted lock is still held when the primary commits: the replica rightly waits
								}
								cases = append(cases, Case{WAL: wal, PageSize: 4096, Leftover: left, Insert: []string{e1, e2}, At: []int{a1, a2}})
							}
						}
					}
				}
			}
		}
	}
	pool := vlib.NewPool()
	pool.CaseTimeout = 40 * time.Second
	pool.Abort = func() bool { return run.NViolations() >= 6 }
	defer pool.Close()
	anyCases := make([]any, len(cases))
	for i := range cases {
		anyCases[i] = cases[i]
	}
	ops := 0
	classes := map[string]int{}
	var samples []any
	pool.Run(anyCases, func(i int, out json.RawMessage, crash *vlib.Crash, flaky bool) {
		if flaky {
			run.HarnessError("case crashed once and passed on re-run: %+v", cases[i])
		}
		if crash != nil {
			run.Violation("crash/"+strings.Join(cases[i].Insert, "+"), fmt.Sprintf("worker died twice on %+v (timeout=%v)\n%s", cases[i], crash.Timeout, tail(crash.Output, 2500)), map[string]any{"case": cases[i]})
			return
		}
		var r Result
		if err := json.Unmarshal(out, &r); err != nil {
			run.HarnessError("bad result: %v", err)
			return
		}
		if r.Harness != "" {
			run.HarnessError("%s (case %+v)", r.Harness, cases[i])
		}
		for _, v := range r.V {
			run.Violation(v.Key, v.What, map[string]any{"case": cases[i]})
		}
		ops += r.Ops
		for k, n := range r.Classes {
			classes[k] += n
		}
		if len(samples) < 5 && i%211 == 0 {
			samples = append(samples, map[string]any{"case": cases[i], "sequence": r.Script})
		}
	})
	lossCov := lossPart(run, pool)
	haltCov := haltPart(run, pool)
	// Part D: authority lost while the body of an import is arriving.
	var icases []any
	var icasesT []ImportLossCase
	for _, wal := range []bool{false, true} {
		for _, kind := range []string{"demote", "handoff"} {
			for at := 0; at < 7; at++ {
				ic := ImportLossCase{ImportLoss: kind, WAL: wal, At: at}
				icases = append(icases, ic)
				icasesT = append(icasesT, ic)
			}
		}
	}
	iclasses := map[string]int{}
	pool.Run(icases, func(i int, out json.RawMessage, crash *vlib.Crash, flaky bool) {
		if crash != nil {
			run.Violation("crash/import-loss/"+icasesT[i].ImportLoss, fmt.Sprintf("worker died twice on %+v (timeout=%v)\n%s", icasesT[i], crash.Timeout, tail(crash.Output, 2500)), map[string]any{"import_loss_case": icasesT[i]})
			return
		}
		var r ImportLossResult
		if err := json.Unmarshal(out, &r); err != nil {
			run.HarnessError("bad import-loss result: %v", err)
			return
		}
		if r.Harness != "" {
			run.HarnessError("%s (import-loss case %+v)", r.Harness, icasesT[i])
		}
		for _, v := range r.V {
			run.Violation(v.Key, v.What, map[string]any{"import_loss_case": icasesT[i]})
		}
		iclasses[r.Class]++
	})
	cov := map[string]any{
		"authority_lost_during_import":   map[string]any{"cases": len(icases), "outcome_classes": iclasses, "rule": "demotion or hand-off inside each of the first seven reads of the request body (the three-page image arrives in 300-byte pieces), both journal modes of the target"},
		"authority_lost_mid_transaction": lossCov,
		"former_halt_lock_holder":        haltCov,
		"states":                        ops,
		"transitions":                   ops,
		"traces_validated_against_impl": len(cases),
		"sequences":                     len(cases),
		"operations_executed":           ops,
		"distinct_outcome_classes":      len(classes),
		"outcome_classes":               classes,
		"exhaustive":                    true,
		"samples":                       samples,
		"aborted_early":                 run.NViolations() >= 6,
		"rule":                          "the rollback (28 steps, with and without a left-over journal file) and WAL (23 steps) transaction scripts on a caught-up replica, continuing past refusals, with every one of 35 extra operations inserted at every position (thorough: pairs from a reduced set); the digest is compared after every single operation (states = operations executed)",
	}
	if len(classes) < 8 && run.NViolations() == 0 {
		run.HarnessError("vacuous: %d classes", len(classes))
	}
	run.Finish(cov, []string{
		"FUSE requests are issued by calling the handler methods of package litefs/fuse directly; the kernel's permission check on file modes is not modelled (the handlers must refuse on their own).",
		"Loss of authority in the middle of a local transaction is enumerated at the granularity of the application's file operations (before every operation of five transaction shapes, three kinds of loss); loss landing inside one FUSE operation after its own authority check is by the property's wording ('commit step begins after') not a violation and is not enumerated. Loss of a halt lock mid-transaction is C13's.",
	})
}

func tail(s string, n int) string {
	if len(s) > n {
		return s[len(s)-n:]
	}
	return s
}


// lossPart runs part B: authority lost before every file operation of a local transaction on the primary.
func lossPart(run *vlib.Run, pool *vlib.Pool) map[string]any {
	type key struct {
		wal   bool
		shape string
	}
	var probes []LossCase
	for _, wal := range []bool{false, true} {
		for _, sh := range lossShapes[wal] {
			probes = append(probes, LossCase{Loss: "none", WAL: wal, Shape: sh, K: -1, ImportAt: -1})
		}
	}
	info := map[key]LossResult{}
	anyP := make([]any, len(probes))
	for i := range probes {
		anyP[i] = probes[i]
	}
	pool.Run(anyP, func(i int, out json.RawMessage, crash *vlib.Crash, flaky bool) {
		var r LossResult
		if crash != nil || json.Unmarshal(out, &r) != nil || r.Harness != "" || r.CommitStep < 0 {
			run.HarnessError("loss probe %+v failed: %v %s", probes[i], crash, r.Harness)
			return
		}
		info[key{probes[i].WAL, probes[i].Shape}] = r
	})
	var cases []LossCase
	for _, p := range probes {
		r, ok := info[key{p.WAL, p.Shape}]
		if !ok {
			continue
		}
		for _, loss := range []string{"demote", "revoke", "handoff"} {
			for k := 0; k < r.Steps; k++ {
				cases = append(cases, LossCase{Loss: loss, WAL: p.WAL, Shape: p.Shape, K: k, Commit: r.CommitStep, ImportAt: -1})
			}
			// the same with an import waiting for the write lock held by the transaction: loss between the start of the
			// wait and the commit step
			at := r.LockedFrom
			if at >= 0 && loss == "demote" {
				for k := at + 1; k <= r.CommitStep; k++ {
					cases = append(cases, LossCase{Loss: loss, WAL: p.WAL, Shape: p.Shape, K: k, Commit: r.CommitStep, ImportAt: at + 1})
				}
			}
		}
	}
	anyC := make([]any, len(cases))
	for i := range cases {
		anyC[i] = cases[i]
	}
	classes := map[string]int{}
	pool.Run(anyC, func(i int, out json.RawMessage, crash *vlib.Crash, flaky bool) {
		if flaky {
			run.HarnessError("loss case crashed once and passed on re-run: %+v", cases[i])
		}
		if crash != nil {
			run.Violation("crash/loss/"+cases[i].Loss, fmt.Sprintf("worker died twice on %+v (timeout=%v)\n%s", cases[i], crash.Timeout, tail(crash.Output, 2500)), map[string]any{"loss_case": cases[i]})
			return
		}
		var r LossResult
		if err := json.Unmarshal(out, &r); err != nil {
			run.HarnessError("bad result: %v", err)
			return
		}
		if r.Harness != "" {
			run.HarnessError("%s (case %+v)", r.Harness, cases[i])
		}
		for _, v := range r.V {
			run.Violation(v.Key, v.What, map[string]any{"loss_case": cases[i], "trace": r.Trace})
		}
		mode := "journal"
		if cases[i].WAL {
			mode = "wal"
		}
		classes[mode+" "+cases[i].Loss+": "+r.Class]++
	})
	shapes := map[string]any{}
	for k, r := range info {
		mode := "journal"
		if k.wal {
			mode = "wal"
		}
		shapes[mode+"/"+k.shape] = map[string]any{"operations": r.Steps, "commit_step_at": r.CommitStep}
	}
	if len(cases) < 50 && run.NViolations() == 0 {
		run.HarnessError("vacuous loss part: %d cases", len(cases))
	}
	return map[string]any{
		"cases":           len(cases),
		"shapes":          shapes,
		"loss_kinds":      []string{"demote", "revoke", "handoff"},
		"outcome_classes": classes,
		"rule":            "for every transaction shape and kind of loss, the loss is injected before every file operation of the transaction (all positions) and the run continues to a settled cluster plus one follow-up commit by the next primary",
	}
}

type poolRunner = *vlib.Pool

func runHaltCases(pool *vlib.Pool, cases []any, fn func(i int, r *HaltResult, crash string)) {
	pool.Run(cases, func(i int, out json.RawMessage, crash *vlib.Crash, flaky bool) {
		if crash != nil {
			fn(i, nil, fmt.Sprintf("worker died twice (timeout=%v)\n%s", crash.Timeout, tail(crash.Output, 2500)))
			return
		}
		var r HaltResult
		if err := json.Unmarshal(out, &r); err != nil {
			r.Harness = "bad result: " + err.Error()
		}
		fn(i, &r, "")
	})
}
