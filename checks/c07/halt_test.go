// C07 part C: a replica that held, or tried to get, the halt lock and holds it no more.
//
// Two histories after which the replica is neither primary nor holder, ending with a write through its mount that
// must be refused with EACCES and change nothing:
//   - acquire-timeout: the replica is kept behind (a long-running reader on its mount) for longer than the acquire
//     timeout, so the acquisition fails after the primary granted the lock;
//   - expiry-snapshot: the holder is cut off, the lock expires on the primary, the primary commits and trims its
//     log, the link heals and the former holder catches up through a snapshot;
//   - expiry-frame: the same without the trimming (it catches up through ordinary transaction files);
//   - release-without-primary: the holder gives the lock back while there is no primary to tell (it went away and
//     comes back later);
//   - interrupted-release: the release is interrupted while it waits for a local reader and retried afterwards;
//   - failed-promotion: no halt lock at all - the replica wins the lease when the primary is demoted, but the step
//     right after the acquisition (reading the cluster ID from the lease service) fails every time, so it gives the
//     lease back each time and the former primary takes over again.
package c07

import (
	"strings"
	"context"
	"fmt"
	"os"
	"path/filepath"
	"runtime/debug"
	"syscall"
	"testing"
	"testing/synctest"
	"time"

	"github.com/superfly/litefs"
	"verif/lab"
	"verif/mon"
	"verif/oracle"
	"verif/pager"
	"verif/prog"
)

type HaltCase struct {
	Halt string `json:"halt_kind"` // acquire-timeout | expiry-snapshot | expiry-frame | failed-promotion | release-without-primary
	WAL  bool   `json:"wal"`
}

type HaltResult struct {
	V       []prog.V `json:"v,omitempty"`
	Class   string   `json:"class"`
	Harness string   `json:"harness,omitempty"`
}

func runHalt(t *testing.T, c HaltCase) (res HaltResult) {
	const ps = 512
	viol := func(key, format string, args ...any) {
		for _, v := range res.V {
			if v.Key == key {
				return
			}
		}
		res.V = append(res.V, prog.V{Key: key, What: fmt.Sprintf(format, args...) + fmt.Sprintf("\nhalt case: %+v", c)})
	}
	synctest.Test(t, func(t *testing.T) {
		defer func() {
			if p := recover(); p != nil {
				viol(prog.PanicKey(p, debug.Stack()), "panic: %v\n%s", p, debug.Stack())
			}
		}()
		cl := lab.NewCluster(10 * time.Second)
		defer cl.Close()
		cl.Defaults = func(cfg *lab.NodeConfig) {
			cfg.HaltLockTTL = 2 * time.Second
			cfg.HaltAcquireTimeout = 3 * time.Second
			if c.Halt == "expiry-snapshot" {
				cfg.Retention = time.Second
			}
		}
		cl.AddNode("P", true, func(cfg *lab.NodeConfig) { cfg.DemoteDelay = 3 * time.Second })
		cl.AddNode("R1", c.Halt == "failed-promotion", nil)
		if err := cl.Start("P"); err != nil || cl.WaitPrimary(5*time.Second) == nil {
			res.Harness = "start P"
			return
		}
		if err := cl.Start("R1"); err != nil {
			res.Harness = "start R1"
			return
		}
		P, R := cl.Nodes["P"], cl.Nodes["R1"]
		pc := pager.NewConn(P.M, "db", 1, ps)
		r := pc.RunRTx(pager.RTx{Create: true, NewSize: 4, Final: "DELETE", Outcome: "commit"}, nil)
		if r.Err == nil {
			lab.Settle(300 * time.Millisecond)
			r = pc.RunRTx(pager.RTx{Mods: []uint32{2}, Final: "DELETE", Outcome: "commit", ToWAL: c.WAL}, r.Intended)
		}
		pc.Close()
		if r.Err != nil || !r.Committed {
			res.Harness = fmt.Sprintf("setup: %v at %s", r.Err, r.ErrStep)
			return
		}
		img := r.Intended
		if ok, why := cl.WaitConverged(20*time.Second, nil); !ok {
			res.Harness = "setup converge: " + why
			return
		}
		own := uint64(100)
		txP := func() bool {
			own++
			conn := pager.NewConn(P.M, "db", own, ps)
			tries := 0
			conn.Busy = func() bool { tries++; time.Sleep(500 * time.Microsecond); return tries < 20 }
			defer conn.Close()
			if c.WAL {
				x := conn.RunWTx(pager.WTx{Frames: []uint32{1, 3}, Outcome: "commit"}, img)
				if x.Committed {
					img = x.Intended
				}
				return x.Committed
			}
			x := conn.RunRTx(pager.RTx{Mods: []uint32{3}, Final: "DELETE", Outcome: "commit"}, img)
			if x.Committed {
				img = x.Intended
			}
			return x.Committed
		}
		var lockFile *lab.File
		if c.Halt != "failed-promotion" {
			f, err := R.M.Open("db-lock", 77)
			if err != nil {
				res.Harness = "open lock file: " + err.Error()
				return
			}
			lockFile = f
		}
		acquire := func() error {
			ctx, cancel := context.WithTimeout(context.Background(), 5*time.Second)
			defer cancel()
			return lockFile.LockWait(ctx, uint64(litefs.LockTypeHalt), uint64(litefs.LockTypeHalt), true)
		}
		pos := func(n *lab.Node) string { return n.DB("db").Pos().String() }

		imgR := img // what the replica's database must look like when the write is attempted
		var rd *pager.Conn
		switch c.Halt {
		case "failed-promotion":
			prev, failed := "", false
			cl.Svc.Script = func(node, call string) (lab.Deviation, bool) {
				if node != "R1" {
					return lab.Deviation{}, false
				}
				was := prev
				prev = call
				if call == "ClusterID" && was == "Acquire" && !failed {
					// the cluster-ID step that follows the successful acquisition fails (once)
					failed = true
					return lab.Deviation{Err: fmt.Errorf("injected: lease store unavailable")}, true
				}
				if call == "Acquire" && failed {
					// afterwards somebody else is always faster (LiteFS retries this path without a pause)
					return lab.Deviation{Err: litefs.ErrPrimaryExists}, true
				}
				return lab.Deviation{}, false
			}
			P.Store.Demote()
			// R1 acquires the lease, fails the next step, gives it back; P comes back after its demotion delay
			r1Took := func() bool {
				for _, call := range cl.Svc.Calls() {
					if call.Node == "R1" && call.Call == "Acquire" && strings.HasPrefix(call.Result, "ok") {
						return true
					}
				}
				return false
			}
			if !lab.WaitFor(30*time.Second, r1Took) {
				var cs []string
				for _, call := range cl.Svc.Calls() {
					cs = append(cs, call.Node+"."+call.Call+"="+call.Result)
				}
				res.Harness = fmt.Sprintf("R1 never acquired the lease: %v", cs)
				return
			}
			if !lab.WaitFor(60*time.Second, P.Store.IsPrimary) {
				res.Harness = "P did not become primary again"
				return
			}
			lab.Settle(2 * time.Second)
			if !P.Store.IsPrimary() {
				res.Harness = "P is not the primary at the time of the write"
				return
			}
			res.Class = "R1-acquired-and-gave-back "
		case "acquire-timeout":
			rd = pager.NewConn(R.M, "db", 55, ps)
			if err := rd.HoldRead(c.WAL); err != nil {
				res.Harness = "reader on the replica: " + err.Error()
				return
			}
			if !txP() {
				res.Harness = "primary cannot commit"
				return
			}
			lab.Settle(300 * time.Millisecond)
			if err := acquire(); err == nil {
				res.Harness = "acquire succeeded although the replica cannot catch up"
				return
			}
			lab.Settle(500 * time.Millisecond)
			if !c.WAL {
				rd.DropRead(false) // a rollback-mode writer could not get past the reader's SHARED lock
			}
		case "interrupted-release":
			// The holder gives the lock back while a local connection is reading: the release has to wait for the reader
			// (it checkpoints first) and is interrupted meanwhile (a signal: the unlock returns EINTR and nothing has been
			// released). The application retries the unlock once the reader is gone, or closes the file. After that it
			// holds nothing - and neither does the node.
			if err := acquire(); err != nil {
				viol("C13/acquire-failed", "acquire: %v", err)
				return
			}
			rd = pager.NewConn(R.M, "db", 55, ps)
			if err := rd.HoldRead(c.WAL); err != nil {
				res.Harness = "reader on the replica: " + err.Error()
				return
			}
			ictx, icancel := context.WithCancel(context.Background()) // a FUSE INTERRUPT cancels the request's context
			tm := time.AfterFunc(time.Second, icancel)
			ierr := lockFile.UnlockCtx(ictx, uint64(litefs.LockTypeHalt), uint64(litefs.LockTypeHalt))
			tm.Stop()
			icancel()
			rd.DropRead(c.WAL)
			rd.Close()
			rd = nil
			rerr := lockFile.Unlock(uint64(litefs.LockTypeHalt), uint64(litefs.LockTypeHalt))
			_ = lockFile.Close()
			res.Class = fmt.Sprintf("interrupted=%v retry-error=%v ", lab.IsErrno(ierr, syscall.EINTR), rerr != nil)
			if rerr != nil {
				viol("C13/release-failed", "the retried release failed: %v", rerr)
			}
			lab.Settle(time.Second)
			if id := P.DB("db").VerifHaltLockID(); id != 0 && rerr == nil {
				viol("C13/halt-survives-release", "the primary still holds halt lock %d after a release that reported success", id)
			}
		case "release-without-primary":
			if err := acquire(); err != nil {
				viol("C13/acquire-failed", "acquire: %v", err)
				return
			}
			_ = P.Stop()
			noPrimary := func() bool { _, info := R.Store.PrimaryInfo(); return info == nil }
			if !lab.WaitFor(30*time.Second, noPrimary) {
				res.Harness = "the replica still sees a primary"
				return
			}
			// the application gives the lock back: the primary cannot be told, the call may report an error, but the
			// handle (and with it the application) holds the lock no more
			uerr := lockFile.Unlock(uint64(litefs.LockTypeHalt), uint64(litefs.LockTypeHalt))
			_ = lockFile.Close()
			res.Class = fmt.Sprintf("unlock-error=%v ", uerr != nil)
			if err := P.Start(); err != nil || cl.WaitPrimary(20*time.Second) == nil {
				res.Harness = fmt.Sprintf("restart P: %v", err)
				return
			}
			if ok, why := cl.WaitConverged(30*time.Second, nil); !ok {
				viol("C01/no-convergence/"+c.Halt, "the former holder did not reconnect to the restarted primary: %s", why)
				return
			}
		case "expiry-snapshot", "expiry-frame":
			if err := acquire(); err != nil {
				viol("C13/acquire-failed", "acquire: %v", err)
				return
			}
			cl.Net.Block("P", "R1")
			lab.Settle(8 * time.Second)
			if P.DB("db").VerifHaltLockID() != 0 {
				res.Harness = "the halt lock did not expire on the primary"
				return
			}
			for i := 0; i < 3; i++ {
				if !txP() {
					res.Harness = "primary cannot commit after expiry"
					return
				}
				lab.Settle(1500 * time.Millisecond)
				if c.Halt == "expiry-snapshot" {
					old := time.Now().Add(-time.Hour)
					for _, name := range mon.ListLTX(P.DB("db").LTXDir()) {
						_ = os.Chtimes(filepath.Join(P.DB("db").LTXDir(), name), old, old)
					}
					_ = P.Store.EnforceRetention(context.Background())
				}
			}
			res.Class = fmt.Sprintf("primary-log=%d ", len(mon.ListLTX(P.DB("db").LTXDir())))
			cl.Net.Unblock("P", "R1")
			if ok, why := cl.WaitConverged(30*time.Second, nil); !ok {
				viol("C01/no-convergence/"+c.Halt, "the former holder did not catch up after the partition: %s", why)
				return
			}
			imgR = img
		}

		// The replica holds nothing: a write through its mount must be refused and change nothing.
		before := pos(R)
		w2 := pager.NewConn(R.M, "db", 56, ps)
		var werr error
		var committed bool
		if c.WAL {
			x := w2.RunWTx(pager.WTx{Frames: []uint32{1, 2}, Outcome: "commit"}, imgR)
			werr, committed = x.Err, x.Committed
		} else {
			x := w2.RunRTx(pager.RTx{Mods: []uint32{2}, Final: "DELETE", Outcome: "commit"}, imgR)
			werr, committed = x.Err, x.Committed
		}
		w2.Close()
		if committed {
			viol("C07/write-accepted-without-halt", "%s: the replica holds no halt lock but committed a transaction", c.Halt)
		}
		if werr == nil || !lab.IsErrno(werr, syscall.EACCES) {
			viol("C07/write-not-refused-without-halt", "%s: the replica holds no halt lock but did not refuse a write with EACCES: %v", c.Halt, werr)
		}
		if pos(R) != before {
			viol("C07/position-moved-without-halt", "%s: a write on the replica moved its position %s -> %s", c.Halt, before, pos(R))
		}
		if !c.WAL {
			if got, err := oracle.ReadLogicalImage(R.DB("db").Path(), ps); err != nil {
				viol("C07/image-unreadable-without-halt", "replica image: %v", err)
			} else if ok, d := got.Equal(imgR); !ok {
				viol("C07/image-changed-without-halt", "%s: a write on the replica, which holds no halt lock, changed its database file: %s", c.Halt, d)
			}
		}
		if rd != nil {
			rd.DropRead(c.WAL)
			rd.Close()
		}
		if !txP() {
			viol("C13/writer-after-halt", "%s: the primary cannot commit afterwards", c.Halt)
		}
		if ok, why := cl.WaitConverged(30*time.Second, nil); !ok {
			viol("C01/no-convergence/"+c.Halt+"/end", "the cluster does not converge afterwards: %s", why)
		}
		for _, n := range []*lab.Node{P, R} {
			if codes := n.ExitCodes(); len(codes) > 0 {
				viol("exit/"+c.Halt, "%s called Store.Exit(%v)", n.Cfg.Name, codes)
			}
		}
		res.Class += "refused=" + fmt.Sprint(werr != nil)
	})
	return res
}

// haltPart runs part C.
func haltPart(run interface {
	Violation(key, what string, replay any)
	HarnessError(format string, args ...any)
}, pool poolRunner) map[string]any {
	var cases []HaltCase
	for _, wal := range []bool{false, true} {
		for _, k := range []string{"acquire-timeout", "expiry-snapshot", "expiry-frame", "failed-promotion", "release-without-primary", "interrupted-release"} {
			cases = append(cases, HaltCase{Halt: k, WAL: wal})
		}
	}
	anyCases := make([]any, len(cases))
	for i := range cases {
		anyCases[i] = cases[i]
	}
	classes := map[string]int{}
	runHaltCases(pool, anyCases, func(i int, r *HaltResult, crash string) {
		if crash != "" {
			run.Violation("crash/halt/"+cases[i].Halt, crash, map[string]any{"case": cases[i]})
			return
		}
		if r.Harness != "" {
			run.HarnessError("%s (halt case %+v)", r.Harness, cases[i])
		}
		for _, v := range r.V {
			run.Violation(v.Key, v.What, map[string]any{"case": cases[i]})
		}
		classes[fmt.Sprintf("%s wal=%v: %s", cases[i].Halt, cases[i].WAL, r.Class)]++
	})
	return map[string]any{"cases": len(cases), "outcome_classes": classes,
		"rule": "acquire-timeout, expiry followed by a snapshot, expiry followed by ordinary transaction files, in both journal modes; each ends with a write through the former (or would-be) holder's mount"}
}
