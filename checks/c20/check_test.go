// C20: every API request gets a response; invalid requests change nothing.
//
// Exhaustive request enumeration against the real lfshttp.Server listening on
// loopback TCP (real net/http server, HTTP/1.1 and h2c with prior knowledge)
// on three nodes - a primary, a replica of it and a node that cannot reach a
// primary - in a worker subprocess outside the fake-clock bubble. Every request
// of the product {10 paths x 5 methods x parameter variants x Litefs-Id
// variants x body variants x protocol} must produce an HTTP status line, must
// not produce a panic in the server log, must leave the node answering GET
// /info, and - when it is invalid by the property's own rule - must leave the
// node's digest (databases, positions, images, logs, lock tables, halt locks) unchanged.
package c20

import (
	"bytes"
	"context"
	"crypto/sha256"
	"crypto/tls"
	"encoding/binary"
	"encoding/json"
	"fmt"
	"io"
	"log"
	"net"
	"net/http"
	"os"
	"path/filepath"
	"regexp"
	"sort"
	"strings"
	"sync"
	"testing"
	"time"

	"github.com/superfly/litefs"
	lfshttp "github.com/superfly/litefs/http"
	"github.com/superfly/ltx"
	"golang.org/x/net/http2"
	"verif/lab"
	"verif/oracle"
	"verif/pager"
	"verif/prog"
	"verif/vlib"
)

const ps = 512

type Case struct {
	Role  string `json:"role"`  // primary | replica | orphan
	Proto string `json:"proto"` // h1 | h2c
	Held  bool   `json:"held,omitempty"` // every request meets a node on which another caller holds halt lock 777 on "db"
	Skip  []int  `json:"skip,omitempty"`
}

type Result struct {
	V        []prog.V       `json:"v,omitempty"`
	Requests int            `json:"requests"`
	Classes  map[string]int `json:"classes"`
	Harness  string         `json:"harness,omitempty"`
}

type request struct {
	Method  string
	Path    string
	Query   string
	NodeHdr string // "", own, foreign, malformed
	Body    string // name of body variant
	Invalid bool   // invalid by the property's rule in every role (role-specific rules are added at run time)
	Stream  bool
	Desc    string
}

type logBuf struct {
	mu sync.Mutex
	b  bytes.Buffer
}

func (l *logBuf) Write(p []byte) (int, error) { l.mu.Lock(); defer l.mu.Unlock(); return l.b.Write(p) }
func (l *logBuf) take() string {
	l.mu.Lock()
	defer l.mu.Unlock()
	s := l.b.String()
	l.b.Reset()
	return s
}

func digest(n *lab.Node) string {
	h := sha256.New()
	dbs := n.Store.DBs()
	sort.Slice(dbs, func(i, j int) bool { return dbs[i].Name() < dbs[j].Name() })
	for _, db := range dbs {
		fmt.Fprintf(h, "db %q pos=%s pageN=%d halt=%d remotehalt=%v\n", db.Name(), db.Pos(), db.PageN(), db.VerifHaltLockID(), db.HasRemoteHaltLock())
		if img, err := oracle.ReadLogicalImage(db.Path(), int(db.VerifPageSize())); err == nil {
			fmt.Fprintf(h, "image %d %x\n", img.N(), sha256.Sum256(img.Bytes()))
		} else {
			fmt.Fprintf(h, "image err %v\n", err)
		}
		ents, _ := os.ReadDir(db.LTXDir())
		for _, e := range ents {
			if strings.HasSuffix(e.Name(), ".ltx") {
				b, _ := os.ReadFile(filepath.Join(db.LTXDir(), e.Name()))
				fmt.Fprintf(h, "ltx %s %x\n", e.Name(), sha256.Sum256(b))
			}
		}
		for _, l := range litefs.VerifLockTypes {
			n, ex := db.VerifMutex(l).VerifDump()
			fmt.Fprintf(h, "%s:%d:%v ", l, n, ex != nil)
		}
	}
	return fmt.Sprintf("%x", h.Sum(nil)[:12])
}

func posMapBody(m map[string]ltx.Pos) []byte {
	var buf bytes.Buffer
	_ = lfshttp.WritePosMapTo(&buf, m)
	return buf.Bytes()
}

func bodies(validLTX []byte) map[string][]byte {
	hostile := make([]byte, 4)
	binary.BigEndian.PutUint32(hostile, 0x7fffffff)
	hostileName := append([]byte{0, 0, 0, 1}, 0xff, 0xff, 0xff, 0xff)
	return map[string][]byte{
		"empty":         nil,
		"posmap-empty":  posMapBody(map[string]ltx.Pos{}),
		"posmap-one":    posMapBody(map[string]ltx.Pos{"db": {TXID: 1, PostApplyChecksum: 1 << 63}}),
		"posmap-trunc":  posMapBody(map[string]ltx.Pos{"db": {TXID: 1}})[:7],
		"posmap-count":  hostile,
		"posmap-name":   hostileName,
		"garbage":       bytes.Repeat([]byte{0x5a}, 300),
		"ltx-valid":     validLTX,
		"ltx-trunc-100": validLTX[:100],
		"ltx-trunc-mid": validLTX[:len(validLTX)/2],
		"sqlite-valid":  sqliteImage(),
		"sqlite-trunc":  sqliteImage()[:700],
	}
}

func sqliteImage() []byte {
	im := &oracle.Image{PageSize: ps}
	im.Pages = append(im.Pages, pager.MakePage1(ps, 0x9000, 2, false, 3), pager.MakePage(ps, 2, 0x9000))
	return im.Bytes()
}

func requests() []request {
	var out []request
	add := func(r request) {
		r.Desc = fmt.Sprintf("%s %s?%s id=%s body=%s", r.Method, r.Path, r.Query, r.NodeHdr, r.Body)
		out = append(out, r)
	}
	methods := []string{"GET", "POST", "DELETE", "PUT", "HEAD"}
	names := []string{"", "name=", "name=nosuchdb", "name=db", "nme=db"}
	escaping := []string{"name=..%2F..%2Fescaped", "name=sub%2Fdb", "name=.."} // names that are not file names
	ids := []string{"", "id=abc", "id=99999999999999999999999", "id=-5", "id=0", "id=4242"}
	nodeHdrs := []string{"", "own", "own-lower", "foreign", "malformed"} // own-lower: the node's own ID spelt in lowercase hex (parses to the same number)
	allowed := map[string]string{"/export": "GET", "/halt": "POST,DELETE", "/handoff": "POST", "/import": "POST", "/info": "GET", "/promote": "POST", "/stream": "POST", "/tx": "POST", "/events": "GET"}
	for _, p := range []string{"/stream", "/tx", "/halt", "/handoff", "/promote", "/import", "/export", "/info", "/events", "/unknown"} {
		for _, m := range methods {
			if !strings.Contains(allowed[p], m) {
				// wrong method or unknown path: one representative per Litefs-Id variant
				for _, nh := range []string{"", "foreign"} {
					add(request{Method: m, Path: p, Query: "name=db&id=4242", NodeHdr: nh, Body: "garbage", Invalid: true})
				}
				continue
			}
			switch p {
			case "/info":
				add(request{Method: m, Path: p})
			case "/events":
				add(request{Method: m, Path: p, Stream: true})
			case "/promote":
				for _, nh := range nodeHdrs {
					add(request{Method: m, Path: p, NodeHdr: nh, Invalid: true})
				}
			case "/handoff":
				for _, q := range []string{"", "nodeID=", "nodeID=zz", "nodeID=000000000000BEEF", "nodeID=99999999999999999999999999"} {
					add(request{Method: m, Path: p, Query: q, Invalid: true})
				}
			case "/export":
				for _, q := range append(append([]string{}, names...), "name=ghost") {
					add(request{Method: m, Path: p, Query: q, Invalid: q != "name=db"})
				}
			case "/import":
				for _, q := range escaping {
					add(request{Method: m, Path: p, Query: q, Body: "sqlite-valid", Invalid: true})
					add(request{Method: m, Path: p, Query: q, Body: "garbage", Invalid: true})
				}
				for _, q := range names {
					for _, b := range []string{"empty", "garbage", "sqlite-valid", "sqlite-trunc"} {
						inv := q == "" || q == "name=" || q == "nme=db" || b != "sqlite-valid"
						add(request{Method: m, Path: p, Query: q, Body: b, Invalid: inv})
					}
				}
			case "/halt":
				hnames := names
				if m == "DELETE" {
					hnames = append(append([]string{}, names...), "name=ghost") // a name no earlier request can have created
				}
				if m == "POST" {
					for _, q := range escaping {
						add(request{Method: m, Path: p, Query: q + "&id=4242", NodeHdr: "foreign", Invalid: true})
					}
				}
				if m == "POST" {
					// refused lock id together with a name nothing else creates: the refusal must come before the database is created
					add(request{Method: m, Path: p, Query: "name=fresh0&id=0", NodeHdr: "foreign", Invalid: true})
				}
				for _, q := range hnames {
					for _, id := range ids {
						for _, nh := range nodeHdrs {
							if nh == "malformed" && id != "id=4242" {
								continue
							}
							query := strings.Trim(q+"&"+id, "&")
							// any id that parses as an int64 is well-formed, and POST /halt creates the database by design (a replica may halt to create one)
							valid := m == "POST" && (q == "name=db" || q == "name=nosuchdb") && (id == "id=4242" || id == "id=-5") && nh != "own" && nh != "own-lower" // id 0 means "no lock" and is refused
							if m == "DELETE" {
								valid = false // releasing a lock that is not held changes nothing either way
							}
							add(request{Method: m, Path: p, Query: query, NodeHdr: nh, Invalid: !valid})
						}
					}
				}
			case "/tx":
				for _, q := range append(append([]string{}, names...), "name=ghost") {
					for _, lock := range []string{"", "lockID=abc", "lockID=4242"} {
						for _, b := range []string{"empty", "garbage", "ltx-valid", "ltx-trunc-100", "ltx-trunc-mid"} {
							for _, nh := range []string{"", "own", "foreign"} {
								add(request{Method: m, Path: p, Query: strings.Trim(q+"&"+lock, "&"), NodeHdr: nh, Body: b, Invalid: true})
							}
						}
					}
				}
				// the same endpoint addressed by the holder of lock 777 (held in the "held" configuration) with files
				// that are well encoded but do not extend the position
				for _, b := range []string{"ltx-overlap", "ltx-gap", "ltx-again", "ltx-wrong-pre", "ltx-snapshot", "ltx-other-pagesize", "ltx-trunc-mid", "garbage"} {
					for _, nh := range []string{"", "foreign"} {
						add(request{Method: m, Path: p, Query: "name=db&lockID=777", NodeHdr: nh, Body: b, Invalid: true})
					}
				}
			case "/stream":
				for _, b := range []string{"empty", "posmap-empty", "posmap-one", "posmap-trunc", "posmap-count", "posmap-name", "garbage"} {
					for _, nh := range nodeHdrs {
						for _, q := range []string{"", "filter=db", "filter=,,"} {
							valid := (b == "posmap-empty" || b == "posmap-one") && nh != "own" && nh != "own-lower"
							add(request{Method: m, Path: p, Query: q, NodeHdr: nh, Body: b, Invalid: !valid, Stream: true})
						}
					}
				}
			}
		}
	}
	return out
}

var panicRe = regexp.MustCompile(`(?i)panic|runtime error|fatal error`)

func run1(c Case) (res Result) {
	res.Classes = map[string]int{}
	viol := func(key, format string, args ...any) {
		for _, v := range res.V {
			if v.Key == key {
				return
			}
		}
		res.V = append(res.V, prog.V{Key: key, What: fmt.Sprintf(format, args...) + fmt.Sprintf("\nrole=%s proto=%s", c.Role, c.Proto)})
	}
	lb := &logBuf{}
	log.SetOutput(lb)
	base := lab.ScratchDir("c20")
	defer lab.RemoveAll(base)

	ttl := 150 * time.Millisecond
	if c.Held {
		ttl = 20 * time.Second // released explicitly after every request
	}
	pNode := lab.NewNode(lab.NodeConfig{Name: "P", ID: 0xF00000000000A111 /* node IDs are random 64-bit values: the top bit is set half of the time */, Dir: filepath.Join(base, "P"), Candidate: true, Leaser: litefs.NewStaticLeaser(true, "P", "http://placeholder"),
		HaltLockTTL: ttl, HaltAcquireTimeout: 60 * time.Millisecond, DemoteDelay: 1500 * time.Millisecond,
		Configure: func(s *litefs.Store) { s.HaltLockMonitorInterval = 50 * time.Millisecond; s.Client = lfshttp.NewClient() }})
	if err := pNode.Start(); err != nil {
		res.Harness = "start P: " + err.Error()
		return
	}
	defer pNode.Stop()
	pSrv := lfshttp.NewServer(pNode.Store, "127.0.0.1:0")
	if err := pSrv.Listen(); err != nil {
		res.Harness = err.Error()
		return
	}
	pSrv.Serve()
	defer pSrv.Close()
	pURL := fmt.Sprintf("http://127.0.0.1:%d", pSrv.Port())
	waitFor := func(cond func() bool) bool {
		for i := 0; i < 400; i++ {
			if cond() {
				return true
			}
			time.Sleep(10 * time.Millisecond)
		}
		return false
	}
	if !waitFor(pNode.Store.IsPrimary) {
		res.Harness = "P not primary"
		return
	}
	conn := pager.NewConn(pNode.M, "db", 1, ps)
	r := conn.RunRTx(pager.RTx{Create: true, NewSize: 3, Final: "DELETE", Outcome: "commit"}, nil)
	if r.Err == nil {
		r = conn.RunRTx(pager.RTx{Mods: []uint32{2}, Final: "DELETE", Outcome: "commit"}, r.Intended)
	}
	conn.Close()
	if r.Err != nil || !r.Committed {
		res.Harness = "setup tx failed"
		return
	}
	img := r.Intended

	target := pNode
	targetSrv := pSrv
	targetURL := pURL
	switch c.Role {
	case "replica", "orphan":
		adv := pURL
		if c.Role == "orphan" {
			adv = "http://127.0.0.1:1" // nothing listens there
		}
		rn := lab.NewNode(lab.NodeConfig{Name: "R", ID: 0x2222, Dir: filepath.Join(base, "R"), Candidate: false, Leaser: litefs.NewStaticLeaser(false, "P", adv),
			HaltLockTTL: 150 * time.Millisecond, HaltAcquireTimeout: 60 * time.Millisecond, ReconnectDelay: 100 * time.Millisecond,
			Configure: func(s *litefs.Store) { s.HaltLockMonitorInterval = 50 * time.Millisecond; s.Client = lfshttp.NewClient() }})
		if err := rn.Start(); err != nil {
			res.Harness = "start R: " + err.Error()
			return
		}
		defer rn.Stop()
		rs := lfshttp.NewServer(rn.Store, "127.0.0.1:0")
		if err := rs.Listen(); err != nil {
			res.Harness = err.Error()
			return
		}
		rs.Serve()
		defer rs.Close()
		target, targetSrv, targetURL = rn, rs, fmt.Sprintf("http://127.0.0.1:%d", rs.Port())
		if c.Role == "replica" && !waitFor(func() bool { d := rn.DB("db"); return d != nil && d.Pos() == pNode.DB("db").Pos() }) {
			res.Harness = "replica did not catch up"
			return
		}
	}
	_ = targetSrv

	// a valid LTX extending the primary's position
	cur := pNode.DB("db").Pos()
	next := img.Clone()
	next.Pages[1] = pager.MakePage(ps, 2, 0xC20)
	var lbuf bytes.Buffer
	enc := ltx.NewEncoder(&lbuf)
	_ = enc.EncodeHeader(ltx.Header{Version: 1, PageSize: ps, Commit: next.N(), MinTXID: cur.TXID + 1, MaxTXID: cur.TXID + 1, Timestamp: 5, PreApplyChecksum: cur.PostApplyChecksum, NodeID: 0xBEEF})
	_ = enc.EncodePage(ltx.PageHeader{Pgno: 2}, next.Pages[1])
	enc.SetPostApplyChecksum(ltx.Checksum(next.Checksum()))
	_ = enc.Close()
	bods := bodies(lbuf.Bytes())
	// Well-encoded transaction files that do not extend the primary's position (sent by the holder of the halt lock):
	// a range overlapping what the primary has, a gap, the current transaction again, a wrong pre-apply checksum,
	// and a snapshot (first transaction ID 1) of a database that is not empty.
	mk := func(min, max ltx.TXID, pre ltx.Checksum, pages []uint32) []byte {
		var b bytes.Buffer
		e := ltx.NewEncoder(&b)
		_ = e.EncodeHeader(ltx.Header{Version: 1, PageSize: ps, Commit: next.N(), MinTXID: min, MaxTXID: max, Timestamp: 5, PreApplyChecksum: pre, NodeID: 0xBEEF})
		for _, p := range pages {
			_ = e.EncodePage(ltx.PageHeader{Pgno: p}, next.Pages[p-1])
		}
		e.SetPostApplyChecksum(ltx.Checksum(next.Checksum()))
		if err := e.Close(); err != nil {
			panic(err)
		}
		return b.Bytes()
	}
	all := make([]uint32, 0, next.N())
	for p := uint32(1); p <= next.N(); p++ {
		all = append(all, p)
	}
	bods["ltx-overlap"] = mk(cur.TXID, cur.TXID+1, cur.PostApplyChecksum, []uint32{2})
	bods["ltx-gap"] = mk(cur.TXID+2, cur.TXID+2, cur.PostApplyChecksum, []uint32{2})
	bods["ltx-again"] = mk(cur.TXID, cur.TXID, cur.PostApplyChecksum, []uint32{2})
	bods["ltx-wrong-pre"] = mk(cur.TXID+1, cur.TXID+1, cur.PostApplyChecksum^0x10, []uint32{2})
	bods["ltx-snapshot"] = mk(1, 1, 0, all)
	{
		// in sequence, right pre-apply checksum, but another page size than the database has
		var b bytes.Buffer
		e := ltx.NewEncoder(&b)
		_ = e.EncodeHeader(ltx.Header{Version: 1, PageSize: 2 * ps, Commit: 2, MinTXID: cur.TXID + 1, MaxTXID: cur.TXID + 1, Timestamp: 5, PreApplyChecksum: cur.PostApplyChecksum, NodeID: 0xBEEF})
		pg := make([]byte, 2*ps)
		copy(pg, next.Pages[0])
		_ = e.EncodePage(ltx.PageHeader{Pgno: 1}, pg)
		e.SetPostApplyChecksum(ltx.ChecksumFlag | 0x1234)
		if err := e.Close(); err != nil {
			panic(err)
		}
		bods["ltx-other-pagesize"] = b.Bytes()
	}

	var client *http.Client
	if c.Proto == "h2c" {
		client = &http.Client{Transport: &http2.Transport{AllowHTTP: true, DialTLS: func(network, addr string, cfg *tls.Config) (net.Conn, error) { return net.Dial(network, addr) }}}
	} else {
		client = &http.Client{Transport: &http.Transport{DisableKeepAlives: true}}
	}
	infoOK := func() bool {
		ctx, cancel := context.WithTimeout(context.Background(), 3*time.Second)
		defer cancel()
		req, _ := http.NewRequestWithContext(ctx, "GET", targetURL+"/info", nil)
		resp, err := client.Do(req)
		if err != nil {
			return false
		}
		_, _ = io.Copy(io.Discard, resp.Body)
		resp.Body.Close()
		return resp.StatusCode == 200
	}

	reqs := requests()
	_ = lb.take()
	// releaseAll gives back every halt lock the way its holder would. A lock that cannot be given back within five
	// seconds is one that a handler has left pinned: the node is wedged for every writer of that database.
	releaseAll := func(i int) bool {
		for _, db := range target.Store.DBs() {
			id := db.VerifHaltLockID()
			if id == 0 {
				continue
			}
			ctx, cancel := context.WithTimeout(context.Background(), 5*time.Second)
			db.ReleaseHaltLock(ctx, id)
			cancel()
			if db.VerifHaltLockID() == id {
				viol("C20/wedged/halt-lock-cannot-be-released", "before request %d: halt lock %d on %q cannot be released by its holder within five seconds (an earlier request left it in use)", i, id, db.Name())
				return false
			}
		}
		return true
	}
	noResponse := 0
	for i, rq := range reqs {
		skip := false
		for _, s := range c.Skip {
			if s == i {
				skip = true
			}
		}
		if skip {
			continue
		}
		if c.Held && (rq.Path == "/import" || rq.Path == "/export" || rq.Path == "/stream" || rq.Path == "/events") {
			continue // these wait for the write lock by design, or do not touch locks at all
		}
		fmt.Fprintf(os.Stderr, "REQ %d %s\n", i, rq.Desc)
		res.Requests++
		if c.Held && !releaseAll(i) {
			return
		}
		// let halt locks from earlier valid requests expire so that every request meets the same node
		waitFor(func() bool {
			for _, db := range target.Store.DBs() {
				if db.VerifHaltLockID() != 0 {
					return false
				}
				// the handler of the previous request may still be releasing its locks after the client has read the whole response
				for _, l := range litefs.VerifLockTypes {
					if n, ex := db.VerifMutex(l).VerifDump(); n != 0 || ex != nil {
						return false
					}
				}
			}
			return true
		})
		if c.Held {
			if _, err := target.DB("db").AcquireHaltLock(context.Background(), 777); err != nil {
				res.Harness = "held: cannot take lock 777: " + err.Error()
				return
			}
		}
		before := digest(target)
		u := targetURL + rq.Path
		if rq.Query != "" {
			u += "?" + rq.Query
		}
		ctx, cancel := context.WithTimeout(context.Background(), 4*time.Second)
		var body io.Reader
		if rq.Body != "" {
			body = bytes.NewReader(bods[rq.Body])
		}
		req, err := http.NewRequestWithContext(ctx, rq.Method, u, body)
		if err != nil {
			cancel()
			res.Harness = "bad request: " + err.Error()
			return
		}
		switch rq.NodeHdr {
		case "own":
			req.Header.Set("Litefs-Id", litefs.FormatNodeID(target.Store.ID()))
		case "own-lower":
			req.Header.Set("Litefs-Id", strings.ToLower(litefs.FormatNodeID(target.Store.ID())))
		case "foreign":
			req.Header.Set("Litefs-Id", "000000000000BEEF")
		case "malformed":
			req.Header.Set("Litefs-Id", "not-hex!")
		}
		resp, err := client.Do(req)
		status := 0
		if err == nil {
			status = resp.StatusCode
			if rq.Stream && status == 200 {
				// the header is the response of a streaming endpoint; read a little, then hang up
				buf := make([]byte, 64)
				_, _ = resp.Body.Read(buf)
			} else {
				_, _ = io.Copy(io.Discard, io.LimitReader(resp.Body, 1<<20))
			}
			resp.Body.Close()
		}
		cancel()
		time.Sleep(5 * time.Millisecond)
		logs := lb.take()
		cls := fmt.Sprintf("%s %s -> %d", rq.Method, rq.Path, status)
		res.Classes[cls]++
		if err != nil {
			viol("C20/no-response/"+rq.Method+rq.Path, "request %d (%s) got no HTTP response: %v\nserver log: %s", i, rq.Desc, err, tail(logs, 600))
			if noResponse++; noResponse >= 3 {
				// the node has stopped answering: every further request would only wait for its time-out
				return
			}
		} else {
			noResponse = 0
		}
		if panicRe.MatchString(logs) {
			viol("C20/panic-in-log/"+rq.Method+rq.Path, "request %d (%s) made the server log a panic:\n%s", i, rq.Desc, tail(logs, 900))
		}
		invalid := rq.Invalid
		if c.Role != "primary" {
			switch rq.Path {
			case "/import", "/halt", "/stream", "/tx":
				invalid = true // not allowed in this role
			}
		}
		if c.Held {
			// no request of the alphabet names lock 777: whatever the answer, "db" and its lock are as before
			// (a valid POST /halt for another name may create that database; compare "db" only through the lock id and position)
			db := target.DB("db")
			if id := db.VerifHaltLockID(); id != 777 {
				viol("C20/foreign-lock-disturbed/"+rq.Method+rq.Path, "request %d (%s, status %d) does not name halt lock 777 held by another caller on \"db\", but the lock is now %d", i, rq.Desc, status, id)
			}
			if invalid {
				after := digest(target)
				for k := 0; k < 50 && after != before; k++ {
					time.Sleep(10 * time.Millisecond)
					after = digest(target)
				}
				if after != before {
					viol("C20/invalid-request-changed-state/held/"+rq.Method+rq.Path, "request %d (%s, status %d) is invalid but changed the node's databases, positions, logs or locks while another caller held halt lock 777", i, rq.Desc, status)
				}
			}
			if codes := target.ExitCodes(); len(codes) > 0 {
				viol("C20/exit/"+rq.Method+rq.Path, "request %d (%s): Store.Exit(%v)", i, rq.Desc, codes)
				return
			}
			if !infoOK() {
				viol("C20/wedged/"+rq.Method+rq.Path, "after request %d (%s) the node no longer answers GET /info", i, rq.Desc)
				return
			}
			continue
		}
		if invalid {
			// sampled right after the response: a lock granted now would only expire 150 ms later
			for _, db := range target.Store.DBs() {
				if id := db.VerifHaltLockID(); id != 0 {
					viol("C20/invalid-halt-granted/"+c.Role, "request %d (%s, status %d) is invalid (malformed or not allowed in role %q) but database %q now has halt lock %d", i, rq.Desc, status, c.Role, db.Name(), id)
				}
			}
		}
		if invalid && rq.Path == "/halt" && rq.Method != "DELETE" && status == 200 {
			viol("C20/invalid-halt-granted/"+c.Role, "request %d (%s) is invalid (malformed or not allowed in role %q) but was answered 200: a halt lock was granted", i, rq.Desc, c.Role)
		}
		if invalid {
			// expiry of a halt lock is not instantaneous; wait for it before comparing
			after := digest(target)
			if after != before {
				waitFor(func() bool { after = digest(target); return after == before })
			}
			if after != before {
				viol("C20/invalid-request-changed-state/"+rq.Method+rq.Path+"/"+c.Role, "request %d (%s, status %d) is invalid (malformed, not allowed in role %q, or names a missing database/lock) but changed the node's databases, positions, logs or locks", i, rq.Desc, status, c.Role)
			}
		}
		if codes := target.ExitCodes(); len(codes) > 0 {
			viol("C20/exit/"+rq.Method+rq.Path, "request %d (%s): Store.Exit(%v)", i, rq.Desc, codes)
			return
		}
		if !infoOK() {
			viol("C20/wedged/"+rq.Method+rq.Path, "after request %d (%s) the node no longer answers GET /info", i, rq.Desc)
			return
		}
	}
	// A node that granted a halt lock and then stopped being the primary still has the lock on its books: a forwarded
	// transaction under that lock - well formed and in sequence - is not allowed for its role any more.
	if c.Held && c.Role == "primary" {
		if !releaseAll(len(reqs)) {
			return
		}
		if _, err := target.DB("db").AcquireHaltLock(context.Background(), 777); err != nil {
			res.Harness = "held: cannot take lock 777: " + err.Error()
			return
		}
		target.Store.Demote()
		if !waitFor(func() bool { return !target.Store.IsPrimary() }) {
			res.Harness = "the node did not step down"
			return
		}
		before := digest(target)
		req, _ := http.NewRequest("POST", targetURL+"/tx?name=db&lockID=777", bytes.NewReader(bods["ltx-valid"]))
		req.Header.Set("Litefs-Id", "000000000000BEEF")
		resp, err := client.Do(req)
		status := 0
		if err == nil {
			status = resp.StatusCode
			_, _ = io.Copy(io.Discard, resp.Body)
			resp.Body.Close()
		}
		res.Requests++
		res.Classes[fmt.Sprintf("POST /tx (former primary) -> %d", status)]++
		if err != nil {
			viol("C20/no-response/POST/tx-former-primary", "POST /tx to a node that stopped being primary got no response: %v", err)
		}
		if target.Store.IsPrimary() {
			res.Classes["former-primary request raced the re-election"]++
		} else if after := digest(target); after != before || status == 200 {
			viol("C20/invalid-request-changed-state/POST/tx/former-primary", "POST /tx under a halt lock granted before the node stopped being primary was answered %d and changed the node's databases, positions or logs (not allowed for its role)", status)
		}
		if codes := target.ExitCodes(); len(codes) > 0 {
			viol("C20/exit/POST/tx-former-primary", "Store.Exit(%v)", codes)
		}
		waitFor(target.Store.IsPrimary)
	}
	// A GET /events client that stops reading while the node produces more events than the subscription buffers (1024):
	// the node disconnects the subscriber; the handler must end cleanly (no panic) and the node keep answering.
	if !c.Held {
		ctx, cancel := context.WithTimeout(context.Background(), 20*time.Second)
		req, _ := http.NewRequestWithContext(ctx, "GET", targetURL+"/events", nil)
		resp, err := client.Do(req)
		if err != nil {
			viol("C20/no-response/GET/events-backlog", "GET /events got no response: %v", err)
		} else {
			buf := make([]byte, 16)
			_, _ = resp.Body.Read(buf) // the stream has started
			for i := 0; i < litefs.EventChannelBufferSize+40; i++ {
				target.Store.NotifyEvent(litefs.Event{Type: litefs.EventTypeTx, DB: "db", Data: litefs.TxEventData{}})
			}
			time.Sleep(50 * time.Millisecond)
			_, _ = io.Copy(io.Discard, io.LimitReader(resp.Body, 4<<20)) // now read whatever was sent until the server ends the stream
			resp.Body.Close()
		}
		cancel()
		time.Sleep(50 * time.Millisecond)
		if logs := lb.take(); panicRe.MatchString(logs) {
			viol("C20/panic-in-log/GET/events-backlog", "a GET /events client that fell more than %d events behind made the server log a panic:\n%s", litefs.EventChannelBufferSize, tail(logs, 900))
		}
		if !infoOK() {
			viol("C20/wedged/GET/events-backlog", "after the lagging GET /events client the node no longer answers GET /info")
		}
		res.Requests++
	}
	return res
}

func TestCheck(t *testing.T) {
	if vlib.IsWorker() {
		vlib.Serve(func(in json.RawMessage) any {
			var c Case
			if err := json.Unmarshal(in, &c); err != nil {
				return Result{Harness: "bad case"}
			}
			return run1(c)
		})
	}
	run := vlib.Start("C20", "model_checking")
	var cases []Case
	for _, role := range []string{"primary", "replica", "orphan"} {
		for _, proto := range []string{"h1", "h2c"} {
			cases = append(cases, Case{Role: role, Proto: proto})
		}
	}
	cases = append(cases, Case{Role: "primary", Proto: "h2c", Held: true}, Case{Role: "primary", Proto: "h1", Held: true})
	pool := vlib.NewPool()
	pool.CaseTimeout = 3 * time.Minute // a case takes some ten seconds; one that does not end is run again alone with four times this
	pool.ASLimitGB = 12
	defer pool.Close()
	total := 0
	classes := map[string]int{}
	markerRe := regexp.MustCompile(`(?m)^REQ (\d+) ([^\n]*)$`)
	pending := cases
	for iter := 0; iter < 6 && len(pending) > 0; iter++ {
		anyCases := make([]any, len(pending))
		for i := range pending {
			anyCases[i] = pending[i]
		}
		var again []Case
		cur := pending
		pool.Run(anyCases, func(i int, out json.RawMessage, crash *vlib.Crash, flaky bool) {
			if crash != nil {
				ms := markerRe.FindAllStringSubmatch(crash.Output, -1)
				if len(ms) == 0 {
					run.Violation("C20/crash-unlocated/"+cur[i].Role, fmt.Sprintf("the server process died (timeout=%v) on %+v\n%s", crash.Timeout, cur[i], tail(crash.Output, 2000)), map[string]any{"case": cur[i]})
					return
				}
				m := ms[len(ms)-1]
				var idx int
				fmt.Sscanf(m[1], "%d", &idx)
				kind := "crashed"
				if crash.Timeout {
					kind = "wedged"
				}
				f := strings.Fields(m[2])
				run.Violation("C20/process-"+kind+"/"+f[0]+strings.Split(f[1], "?")[0], fmt.Sprintf("request %d (%s) %s the whole server process (role %s, %s)\n%s", idx, m[2], kind, cur[i].Role, cur[i].Proto, tail(stripReq(crash.Output), 1500)),
					map[string]any{"case": cur[i], "request": m[2]})
				nc := cur[i]
				nc.Skip = append(append([]int{}, nc.Skip...), idx)
				again = append(again, nc)
				return
			}
			var r Result
			if err := json.Unmarshal(out, &r); err != nil {
				run.HarnessError("bad result: %v", err)
				return
			}
			if r.Harness != "" {
				run.HarnessError("%s (case %+v)", r.Harness, cur[i])
			}
			for _, v := range r.V {
				run.Violation(v.Key, v.What, map[string]any{"case": cur[i]})
			}
			total += r.Requests
			for k, n := range r.Classes {
				classes[cur[i].Role+" "+k] += n
			}
		})
		pending = again
	}
	var samples []any
	for k, n := range classes {
		if len(samples) < 12 {
			samples = append(samples, map[string]any{"class": k, "requests": n})
		}
	}
	cov := map[string]any{
		"states":                        total,
		"transitions":                   total,
		"traces_validated_against_impl": total,
		"requests_sent":                 total,
		"requests_per_node_and_protocol": len(requests()),
		"distinct_outcome_classes":      len(classes),
		"outcome_classes":               classes,
		"exhaustive":                    true,
		"samples":                       samples,
		"rule":                          "the full product of paths x methods x parameter variants (missing, empty, unknown name, existing name, misspelt; id non-numeric, overflowing, negative, zero, valid) x Litefs-Id (absent, own, foreign, malformed) x bodies (empty, garbage, valid / truncated / hostile position maps, valid / truncated LTX, valid / truncated SQLite image), sent sequentially over loopback TCP as HTTP/1.1 and as h2c to a primary, a replica and a node without a reachable primary",
	}
	if total < 100 && run.NViolations() == 0 {
		run.HarnessError("vacuous: %d requests", total)
	}
	run.Finish(cov, []string{
		"Real sockets and real time (this is the one check outside the fake clock); each request is a synchronous round trip on an otherwise idle node; halt locks granted by valid requests are left to expire (TTL 150 ms) before the next request.",
		"Bodies up to a few hundred bytes; memory proportional to bytes received is decided on the decoders in C18.",
	})
}

func stripReq(s string) string {
	var keep []string
	for _, l := range strings.Split(s, "\n") {
		if !strings.HasPrefix(l, "REQ ") {
			keep = append(keep, l)
		}
	}
	return strings.Join(keep, "\n")
}

func tail(s string, n int) string {
	if len(s) > n {
		return s[len(s)-n:]
	}
	return s
}
