// C11: LiteFS's internal writers and SQLite connections exclude each other.
//
// Part A (explicit-state, to closure): two lock owners following SQLite's
// rollback-mode or WAL-mode locking protocol (as automata over the byte-range
// requests of the unix VFS, issued through the real FUSE handles) and LiteFS's
// internal owner (TryAcquireWriteLock / release) are explored breadth-first
// over the real lock table of one real DB until no new state appears. Every
// request's outcome is compared with an independent POSIX byte-range lock
// specification strengthened only by the checkpoint-gating rule; WAL writes are
// attempted in every state.
// Part B (schedules): an application transaction against LiteFS's own internal
// writers (recovery / checkpoint, replicated apply) with a monitor inside every
// page write: internal writes only under the full exclusive write set held by a
// non-client owner, client writes never while the internal owner holds it.
package c11

import (
	"bytes"
	"context"
	"io"
	"net/http"
	"encoding/json"
	"fmt"
	"os"
	"sort"
	"strings"
	"testing"
	"testing/synctest"
	"time"

	"github.com/superfly/litefs"
	lfshttp "github.com/superfly/litefs/http"
	"github.com/superfly/ltx"
	"verif/lab"
	"verif/oracle"
	"verif/pager"
	"verif/sched"
	"verif/vlib"
)

// ---- specification: POSIX byte-range locks between distinct owners, one byte per lock ----

type lk = litefs.LockType

var dbLocks = []lk{litefs.LockTypePending, litefs.LockTypeReserved, litefs.LockTypeShared}
var shmLocks = []lk{litefs.LockTypeWrite, litefs.LockTypeCkpt, litefs.LockTypeRecover, litefs.LockTypeRead0, litefs.LockTypeRead1, litefs.LockTypeRead2, litefs.LockTypeRead3, litefs.LockTypeRead4, litefs.LockTypeDMS}
var allLocks = append(append([]lk{}, dbLocks...), shmLocks...)

const (
	U = 0
	S = 1
	X = 2
)

const nOwners = 3 // A, B, I(nternal)

type table map[lk][nOwners]int

func (t table) clone() table {
	n := table{}
	for k, v := range t {
		n[k] = v
	}
	return n
}

func (t table) othersHold(l lk, o int, mode int) bool {
	for i := 0; i < nOwners; i++ {
		if i != o && t[l][i] >= mode && t[l][i] != U {
			if mode == S || t[l][i] == X {
				return true
			}
		}
	}
	return false
}

// canRead: no other owner holds it exclusively. canWrite: no other owner holds it at all.
func (t table) canRead(l lk, o int) bool {
	for i := 0; i < nOwners; i++ {
		if i != o && t[l][i] == X {
			return false
		}
	}
	return true
}
func (t table) canWrite(l lk, o int) bool {
	for i := 0; i < nOwners; i++ {
		if i != o && t[l][i] != U {
			return false
		}
	}
	return true
}

// lockRange applies a multi-byte request in LiteFS's byte order; a refused byte stops the request and the
// bytes before it stay granted (the property speaks of single locks; only the final table and the overall
// result are asserted).
func (t table) lockRange(o int, locks []lk, write bool) bool {
	for _, l := range locks {
		if write {
			// checkpoint gating: CKPT is refused while a different owner holds WRITE
			if l == litefs.LockTypeCkpt {
				v := t[litefs.LockTypeWrite]
				gated := false
				for i := 0; i < nOwners; i++ {
					if i != o && v[i] != U {
						gated = true
					}
				}
				if gated {
					return false
				}
			}
			if !t.canWrite(l, o) {
				return false
			}
			v := t[l]
			v[o] = X
			t[l] = v
		} else {
			if !t.canRead(l, o) {
				return false
			}
			v := t[l]
			v[o] = S
			t[l] = v
		}
	}
	return true
}

func (t table) unlockRange(o int, locks []lk) {
	for _, l := range locks {
		v := t[l]
		v[o] = U
		t[l] = v
	}
}

// internalTry is the specification of TryAcquireWriteLock for owner I (index 2).
func (t table) internalTry(wal bool) bool {
	const I = 2
	n := t.clone()
	ok := n.lockRange(I, []lk{litefs.LockTypePending}, false) && n.lockRange(I, []lk{litefs.LockTypeShared}, false)
	if ok {
		n.unlockRange(I, []lk{litefs.LockTypePending})
		if !wal {
			ok = n.lockRange(I, []lk{litefs.LockTypeReserved}, true) && n.lockRange(I, []lk{litefs.LockTypePending}, true) && n.lockRange(I, []lk{litefs.LockTypeShared}, true)
		} else {
			ok = n.lockRange(I, []lk{litefs.LockTypeDMS}, false)
			for _, l := range []lk{litefs.LockTypeWrite, litefs.LockTypeCkpt, litefs.LockTypeRecover, litefs.LockTypeRead0, litefs.LockTypeRead1, litefs.LockTypeRead2, litefs.LockTypeRead3, litefs.LockTypeRead4} {
				if ok {
					// the internal owner is not subject to client gating other than plain exclusion
					ok = n.canWrite(l, I)
					if ok {
						v := n[l]
						v[I] = X
						n[l] = v
					}
				}
			}
		}
	}
	if !ok {
		return false // all-or-nothing: table unchanged
	}
	for k, v := range n {
		t[k] = v
	}
	return true
}

func (t table) key() string {
	var sb strings.Builder
	for _, l := range allLocks {
		v := t[l]
		fmt.Fprintf(&sb, "%d%d%d.", v[0], v[1], v[2])
	}
	return sb.String()
}

// ---- alphabet ----

type op struct {
	name  string
	owner int    // 0 A, 1 B, 2 I
	kind  string // lock | unlock | query | itry | irelease | walwrite
	file  string // db | shm
	locks []lk
	write bool
	// enabled decides from the specification table whether the protocol automaton would issue the request.
	enabled func(t table, o int) bool
}

func rng(a ...lk) []lk { return a }

func holds(t table, l lk, o int) int { return t[l][o] }

func alphabet(wal bool) []op {
	var ops []op
	for o := 0; o < 2; o++ {
		o := o
		add := func(name, kind, file string, locks []lk, write bool, en func(t table, o int) bool) {
			ops = append(ops, op{name: fmt.Sprintf("%c.%s", 'A'+o, name), owner: o, kind: kind, file: file, locks: locks, write: write, enabled: en})
		}
		P, R, Sh := litefs.LockTypePending, litefs.LockTypeReserved, litefs.LockTypeShared
		// rollback-mode protocol (also used in WAL mode for the database file's SHARED lock)
		add("pending.r", "lock", "db", rng(P), false, func(t table, o int) bool { return holds(t, P, o) == U && holds(t, Sh, o) == U })
		add("shared.r", "lock", "db", rng(Sh), false, func(t table, o int) bool {
			return (holds(t, P, o) != U && holds(t, Sh, o) == U) || holds(t, Sh, o) == X
		})
		add("pending.u", "unlock", "db", rng(P), false, func(t table, o int) bool { return holds(t, P, o) == S })
		add("all.u", "unlock", "db", rng(P, R, Sh), false, func(t table, o int) bool {
			return holds(t, P, o) != U || holds(t, R, o) != U || holds(t, Sh, o) != U
		})
		add("reserved.q", "query", "db", rng(R), true, func(t table, o int) bool { return holds(t, Sh, o) == S })
		if !wal {
			add("reserved.w", "lock", "db", rng(R), true, func(t table, o int) bool { return holds(t, Sh, o) == S && holds(t, R, o) == U && holds(t, P, o) == U })
			add("pending.w", "lock", "db", rng(P), true, func(t table, o int) bool { return holds(t, Sh, o) == S && holds(t, P, o) == U })
			add("shared.w", "lock", "db", rng(Sh), true, func(t table, o int) bool { return holds(t, P, o) == X && holds(t, Sh, o) == S })
			add("pr.u", "unlock", "db", rng(P, R), false, func(t table, o int) bool {
				return holds(t, Sh, o) == S && (holds(t, P, o) == X || holds(t, R, o) == X)
			})
		} else {
			W, C, Rc, R0, R1, D := litefs.LockTypeWrite, litefs.LockTypeCkpt, litefs.LockTypeRecover, litefs.LockTypeRead0, litefs.LockTypeRead1, litefs.LockTypeDMS
			R2, R3, R4 := litefs.LockTypeRead2, litefs.LockTypeRead3, litefs.LockTypeRead4
			hasD := func(t table, o int) bool { return holds(t, D, o) != U }
			noRead := func(t table, o int) bool { return holds(t, R0, o) == U && holds(t, R1, o) == U }
			add("dms.q", "query", "shm", rng(D), true, func(t table, o int) bool { return !hasD(t, o) })
			add("dms.w", "lock", "shm", rng(D), true, func(t table, o int) bool { return !hasD(t, o) })
			add("dms.r", "lock", "shm", rng(D), false, func(t table, o int) bool { return holds(t, D, o) != S })
			add("read0.r", "lock", "shm", rng(R0), false, func(t table, o int) bool { return hasD(t, o) && noRead(t, o) })
			add("read1.r", "lock", "shm", rng(R1), false, func(t table, o int) bool { return hasD(t, o) && noRead(t, o) })
			add("read1.w", "lock", "shm", rng(R1), true, func(t table, o int) bool { return hasD(t, o) && noRead(t, o) })
			add("read0.u", "unlock", "shm", rng(R0), false, func(t table, o int) bool { return holds(t, R0, o) != U })
			add("read1.u", "unlock", "shm", rng(R1), false, func(t table, o int) bool { return holds(t, R1, o) != U })
			add("write.w", "lock", "shm", rng(W), true, func(t table, o int) bool { return hasD(t, o) && holds(t, W, o) == U && !noRead(t, o) })
			add("write.w.ckptmode", "lock", "shm", rng(W), true, func(t table, o int) bool { return holds(t, C, o) == X && holds(t, W, o) == U })
			add("write.u", "unlock", "shm", rng(W), false, func(t table, o int) bool { return holds(t, W, o) == X })
			add("ckpt.w", "lock", "shm", rng(C), true, func(t table, o int) bool { return hasD(t, o) && holds(t, C, o) == U })
			add("ckpt.u", "unlock", "shm", rng(C), false, func(t table, o int) bool { return holds(t, C, o) == X })
			add("recover.w", "lock", "shm", rng(C, Rc), true, func(t table, o int) bool { return holds(t, W, o) == X && holds(t, C, o) == U && holds(t, Rc, o) == U })
			add("recover.u", "unlock", "shm", rng(C, Rc), false, func(t table, o int) bool { return holds(t, Rc, o) == X })
			add("read0.w", "lock", "shm", rng(R0), true, func(t table, o int) bool { return holds(t, C, o) == X && holds(t, R0, o) == U })
			add("read14.w", "lock", "shm", rng(R1, R2, R3, R4), true, func(t table, o int) bool {
				return (holds(t, W, o) == X || holds(t, C, o) == X) && holds(t, R1, o) != X && holds(t, R4, o) == U
			})
			add("read14.u", "unlock", "shm", rng(R1, R2, R3, R4), false, func(t table, o int) bool { return holds(t, R4, o) == X || holds(t, R2, o) == X })
			add("shmall.u", "unlock", "shm", rng(W, C, Rc, R0, R1, R2, R3, R4, D), false, func(t table, o int) bool {
				for _, l := range shmLocks {
					if holds(t, l, o) != U {
						return true
					}
				}
				return false
			})
			// close(2) of a -shm descriptor: the kernel's FLUSH drops this owner's locks on that file, and only those
			add("shm.flush", "shmflush", "shm", nil, false, func(t table, o int) bool {
				for _, l := range shmLocks {
					if holds(t, l, o) != U {
						return true
					}
				}
				return holds(t, P, o) != U || holds(t, R, o) != U || holds(t, Sh, o) != U
			})
			add("walwrite.hdr", "walwrite", "wal", nil, false, func(t table, o int) bool { return o == 0 })
			add("walwrite.frame", "walwrite", "wal", nil, false, func(t table, o int) bool { return o == 0 })
			add("walwrite.data", "walwrite", "wal", nil, false, func(t table, o int) bool { return o == 0 })
		}
	}
	ops = append(ops, op{name: "I.try", owner: 2, kind: "itry", enabled: func(t table, o int) bool { return holds(t, litefs.LockTypeShared, 2) == U }})
	ops = append(ops, op{name: "I.release", owner: 2, kind: "irelease", enabled: func(t table, o int) bool { return holds(t, litefs.LockTypeShared, 2) != U }})
	return ops
}

func lockRangeBytes(file string, locks []lk) (uint64, uint64) {
	min, max := uint64(locks[0]), uint64(locks[0])
	for _, l := range locks {
		if uint64(l) < min {
			min = uint64(l)
		}
		if uint64(l) > max {
			max = uint64(l)
		}
	}
	if len(locks) == 1 && locks[0] == litefs.LockTypeShared {
		max = min + 509
	}
	if len(locks) == 3 && file == "db" {
		return 0, 1 << 62
	}
	return min, max
}

// ---- implementation rig ----

type rig struct {
	n      *lab.Node
	db     *litefs.DB
	wal    bool
	dbf    [2]*lab.File
	shmf   [2]*lab.File
	walf   *lab.File
	igs    *litefs.GuardSet
	ps     int
}

var owners = [2]uint64{11, 12}

func newRig(wal bool) (*rig, error) {
	dir := lab.ScratchDir("c11")
	n, err := lab.StartPrimary(dir, lab.NodeConfig{})
	if err != nil {
		return nil, err
	}
	g := &rig{n: n, wal: wal, ps: 512}
	c := pager.NewConn(n.M, "db", 1, 512)
	r := c.RunRTx(pager.RTx{Create: true, NewSize: 3, Final: "DELETE", Outcome: "commit", ToWAL: false}, nil)
	if r.Err == nil && wal {
		r = c.RunRTx(pager.RTx{ToWAL: true, Final: "DELETE", Outcome: "commit"}, r.Intended)
		if r.Err == nil {
			c.Close()
			w := c.RunWTx(pager.WTx{Frames: []uint32{1, 2}, Outcome: "commit"}, r.Intended)
			if w.Err != nil {
				return nil, fmt.Errorf("wal setup: %v", w.Err)
			}
		}
	}
	c.Close()
	if r.Err != nil {
		return nil, fmt.Errorf("setup: %v at %s", r.Err, r.ErrStep)
	}
	g.db = n.DB("db")
	for i := range owners {
		if g.dbf[i], err = n.M.Open("db", owners[i]); err != nil {
			return nil, err
		}
		if wal {
			if g.shmf[i], _, err = n.M.OpenOrCreate("db-shm", owners[i]); err != nil {
				return nil, err
			}
		}
	}
	if wal {
		if g.walf, _, err = n.M.OpenOrCreate("db-wal", owners[0]); err != nil {
			return nil, err
		}
	}
	return g, nil
}

func (g *rig) close() {
	dir := g.n.Cfg.Dir
	_ = g.n.Stop()
	lab.RemoveAll(dir)
}

func (g *rig) implKey() string {
	var sb strings.Builder
	for _, l := range allLocks {
		m := g.db.VerifMutex(l)
		n, ex := m.VerifDump()
		fmt.Fprintf(&sb, "%d%v", n, ex != nil)
		for _, o := range owners {
			st := 0
			if gs := g.db.GuardSet(o); gs != nil {
				st = int(gs.Guard(l).State())
			}
			fmt.Fprintf(&sb, "%d", st)
		}
		ist := 0
		if g.igs != nil {
			ist = int(g.igs.Guard(l).State())
		}
		fmt.Fprintf(&sb, "%d.", ist)
	}
	return sb.String()
}

// implTable reads the lock table the implementation believes in, in the specification's shape.
func (g *rig) implTable() table {
	t := table{}
	for _, l := range allLocks {
		var v [nOwners]int
		for i, o := range owners {
			if gs := g.db.GuardSet(o); gs != nil {
				v[i] = int(gs.Guard(l).State())
			}
		}
		if g.igs != nil {
			v[2] = int(g.igs.Guard(l).State())
		}
		t[l] = v
	}
	return t
}

func (g *rig) reset() {
	if g.igs != nil {
		g.igs.Unlock()
		g.igs = nil
	}
	for i := range owners {
		_ = g.dbf[i].Unlock(0, 1<<62)
		if g.shmf[i] != nil {
			_ = g.shmf[i].Unlock(0, 1<<62)
		}
	}
}

func walHdr(ps int) []byte {
	c := pager.NewConn(nil, "", 0, ps)
	_ = c
	hdr := make([]byte, 32)
	be := func(off int, v uint32) { hdr[off], hdr[off+1], hdr[off+2], hdr[off+3] = byte(v>>24), byte(v>>16), byte(v>>8), byte(v) }
	be(0, 0x377f0682)
	be(4, 3007000)
	be(8, uint32(ps))
	be(16, 0xAAAA)
	be(20, 0xBBBB)
	return hdr
}

// do executes the op on the implementation and returns the observable result.
func (g *rig) do(o op) (res string) {
	defer func() {
		if p := recover(); p != nil {
			res = fmt.Sprintf("PANIC %v", p)
		}
	}()
	switch o.kind {
	case "lock", "unlock", "query":
		f := g.dbf[o.owner]
		if o.file == "shm" {
			f = g.shmf[o.owner]
		}
		a, b := lockRangeBytes(o.file, o.locks)
		switch o.kind {
		case "lock":
			if err := f.Lock(a, b, o.write); err != nil {
				return "busy"
			}
			return "ok"
		case "unlock":
			_ = f.Unlock(a, b)
			return "ok"
		default:
			ty, _ := f.Query(a, b, o.write)
			if int(ty) == 2 { // F_UNLCK: the request would succeed
				return "free"
			}
			return "blocked"
		}
	case "shmflush":
		_ = g.shmf[o.owner].Flush()
		return "ok"
	case "itry":
		g.igs = g.db.TryAcquireWriteLock()
		if g.igs == nil {
			return "busy"
		}
		return "ok"
	case "irelease":
		g.igs.Unlock()
		g.igs = nil
		return "ok"
	case "walwrite":
		var err error
		if strings.HasSuffix(o.name, "hdr") {
			err = g.walf.Pwrite(0, walHdr(g.ps))
		} else if strings.HasSuffix(o.name, "frame") {
			err = g.walf.Pwrite(32+1000*int64(24+g.ps), make([]byte, 24)) // a frame header far beyond the captured offset
		} else {
			err = g.walf.Pwrite(32+1000*int64(24+g.ps)+24, make([]byte, g.ps)) // frame data
		}
		if err != nil {
			return "refused"
		}
		return "ok"
	}
	return "?"
}

// spec executes the op on the specification table.
func spec(t table, o op, wal bool) string {
	switch o.kind {
	case "lock":
		if t.lockRange(o.owner, o.locks, o.write) {
			return "ok"
		}
		return "busy"
	case "unlock":
		t.unlockRange(o.owner, o.locks)
		return "ok"
	case "query":
		n := t.clone()
		if n.lockRange(o.owner, o.locks, o.write) {
			return "free"
		}
		return "blocked"
	case "shmflush":
		t.unlockRange(o.owner, shmLocks)
		return "ok"
	case "itry":
		if t.internalTry(wal) {
			return "ok"
		}
		return "busy"
	case "irelease":
		t.unlockRange(2, allLocks)
		return "ok"
	case "walwrite":
		for i := 0; i < nOwners; i++ {
			if t[litefs.LockTypeWrite][i] == X {
				return "ok"
			}
		}
		return "refused"
	}
	return "?"
}

func closure(run *vlib.Run, wal bool) (states, transitions, maxDepth int, samples []any, outcomes map[string]int) {
	outcomes = map[string]int{}
	var g *rig
	var err error
	ops := alphabet(wal)
	mode := map[bool]string{false: "journal", true: "wal"}[wal]
	g, err = newRig(wal)
	if err != nil {
		run.HarnessError("rig: %v", err)
		return
	}
	defer g.close()
	initKey := g.implKey()
	type node struct {
		hist []int
		tab  table
	}
	emptyTab := func() table {
		t := table{}
		for _, l := range allLocks {
			t[l] = [nOwners]int{}
		}
		return t
	}
	seen := map[string]bool{initKey: true}
	frontier := []node{{nil, emptyTab()}}
	states = 1
	names := func(h []int) []string {
		out := make([]string, len(h))
		for i, k := range h {
			out[i] = ops[k].name
		}
		return out
	}
	for len(frontier) > 0 {
		cur := frontier[0]
		frontier = frontier[1:]
		if len(cur.hist) > maxDepth {
			maxDepth = len(cur.hist)
		}
		for oi, o := range ops {
			if !o.enabled(cur.tab, o.owner) {
				continue
			}
			// replay from the reset state
			g.reset()
			if k := g.implKey(); k != initKey {
				run.Violation("C11/reset-leaks/"+mode, fmt.Sprintf("after unlocking everything the lock table is not the initial one: %s vs %s\nhistory: %v", k, initKey, names(cur.hist)), map[string]any{"mode": mode, "history": names(cur.hist)})
				return
			}
			for _, k := range cur.hist {
				g.do(ops[k])
			}
			before := g.implKey()
			got := g.do(o)
			tab := cur.tab.clone()
			want := spec(tab, o, wal)
			transitions++
			outcomes[o.name[2:]+"="+got]++
			hist := append(append([]int{}, cur.hist...), oi)
			fail := func(key, what string) {
				run.Violation(key, fmt.Sprintf("%s\nmode=%s history=%v\nimplementation answered %q, specification %q\nimpl table %s\nspec table %s", what, mode, names(hist), got, want, g.implTable().key(), tab.key()),
					map[string]any{"mode": mode, "history": names(hist)})
			}
			if strings.HasPrefix(got, "PANIC") {
				fail("C11/panic/"+o.name[2:], "lock operation panicked")
				return
			}
			after := g.implKey()
			if got != want {
				if o.kind == "walwrite" {
					fail("C11/wal-write-guard/"+mode, "a WAL write was "+got+" in a state where the write lock is "+map[string]string{"ok": "held exclusively", "refused": "not held exclusively by anyone"}[want])
				} else if o.kind == "lock" && len(o.locks) == 1 && o.locks[0] == litefs.LockTypeCkpt {
					fail("C11/ckpt-gating/"+mode, "checkpoint lock request answered differently from POSIX rules + gating")
				} else if o.kind == "itry" {
					fail("C11/internal-try/"+mode, "TryAcquireWriteLock succeeded/failed differently from the specification")
				} else {
					fail("C11/lock-result/"+o.name[2:]+"/"+mode, "request outcome differs from POSIX byte-range rules between distinct owners")
				}
				continue
			}
			if it := g.implTable(); it.key() != tab.key() {
				fail("C11/table/"+o.name[2:]+"/"+mode, "lock table after the request differs from the specification")
				continue
			}
			if (o.kind == "itry" && got == "busy") || o.kind == "query" || o.kind == "walwrite" {
				if after != before {
					fail("C11/failed-attempt-mutates/"+o.name[2:]+"/"+mode, "a failed internal attempt / query / write changed the lock table")
				}
			}
			// exclusion invariant: while I holds its set no client holds a conflicting byte
			if tab[litefs.LockTypeShared][2] != U {
				conflict := dbLocks
				if wal {
					conflict = []lk{litefs.LockTypeWrite, litefs.LockTypeCkpt, litefs.LockTypeRecover, litefs.LockTypeRead0, litefs.LockTypeRead1, litefs.LockTypeRead2, litefs.LockTypeRead3, litefs.LockTypeRead4}
				}
				it := g.implTable()
				for _, l := range conflict {
					if it[l][0] != U || it[l][1] != U {
						fail("C11/overlap/"+mode, fmt.Sprintf("a client holds %s while LiteFS's internal owner holds the write lock set", l))
					}
				}
			}
			if !seen[after] {
				seen[after] = true
				states++
				frontier = append(frontier, node{hist, tab})
				if len(samples) < 6 && states%97 == 0 {
					samples = append(samples, map[string]any{"mode": mode, "history": names(hist), "spec_table": tab.key()})
				}
			}
		}
	}
	return
}

// ---------------------------------------------------------------------------
// Part B: schedules with the write-section monitor.

type BCfg struct {
	WAL   bool   `json:"wal"`
	Inner string `json:"inner"` // recover | apply | unhalt (the replica gives its remote halt lock back, which checkpoints its WAL) | export-hot | recover-recreate | expired-forward | import-leave-wal (the application leaves WAL mode while an import asks for the internal write lock)
}

func harnessB(cfgJSON json.RawMessage) sched.Harness {
	var cfg BCfg
	_ = json.Unmarshal(cfgJSON, &cfg)
	return func(t *testing.T, e *sched.Exec, prefix []int) (obs string, viol []sched.Violation) {
		v := func(key, format string, args ...any) {
			for _, x := range viol {
				if x.Key == key {
					return
				}
			}
			viol = append(viol, sched.Violation{Key: key, What: fmt.Sprintf(format, args...)})
		}
		const ps = 512
		cl := lab.NewCluster(10 * time.Second)
		defer cl.Close()
		cl.Net.Spawn = e.Spawner()
		cl.AddNode("P", true, func(nc *lab.NodeConfig) {
			if cfg.Inner == "expired-forward" {
				nc.HaltLockTTL = 2 * time.Second
			}
		})
		cl.AddNode("R1", false, nil)
		if err := cl.Start("P"); err != nil || cl.WaitPrimary(5*time.Second) == nil {
			return "harness-error:start", nil
		}
		if err := cl.Start("R1"); err != nil {
			return "harness-error:startR", nil
		}
		P, R := cl.Nodes["P"], cl.Nodes["R1"]
		c := pager.NewConn(P.M, "db", 9, ps)
		r := c.RunRTx(pager.RTx{Create: true, NewSize: 4, Final: "DELETE", Outcome: "commit"}, nil)
		if r.Err == nil {
			lab.Settle(200 * time.Millisecond)
			r = c.RunRTx(pager.RTx{Mods: []uint32{2}, Final: "DELETE", Outcome: "commit", ToWAL: cfg.WAL}, r.Intended)
		}
		c.Close()
		if r.Err != nil || !r.Committed {
			return "harness-error:setup", nil
		}
		img := r.Intended
		if cfg.WAL {
			w := c.RunWTx(pager.WTx{Frames: []uint32{1, 3}, Outcome: "commit"}, img)
			c.Close()
			if w.Err != nil {
				return "harness-error:setupwal", nil
			}
			img = w.Intended
		}
		if ok, _ := cl.WaitConverged(20*time.Second, nil); !ok {
			return "harness-error:converge", nil
		}
		// The node under test: the primary for "recover", the replica for "apply".
		N := P
		if cfg.Inner == "apply" || cfg.Inner == "unhalt" {
			N = R
		}
		db := N.DB("db")
		var haltFile *lab.File
		if cfg.Inner == "unhalt" {
			// The replica takes the halt lock and commits one forwarded transaction: its WAL now holds frames that the
			// release of the lock will checkpoint into the database file.
			f, err := R.M.Open("db-lock", 77)
			if err != nil {
				return "harness-error:lockfile", nil
			}
			haltFile = f
			defer haltFile.Close()
			ctx, cancel := context.WithTimeout(context.Background(), 5*time.Second)
			err = haltFile.LockWait(ctx, uint64(litefs.LockTypeHalt), uint64(litefs.LockTypeHalt), true)
			cancel()
			if err != nil {
				return "harness-error:halt", nil
			}
			hc := pager.NewConn(R.M, "db", 41, ps)
			w := hc.RunWTx(pager.WTx{Frames: []uint32{1, 2}, Outcome: "commit"}, img)
			hc.Close()
			if w.Err != nil || !w.Committed {
				return "harness-error:halt-commit", nil
			}
			img = w.Intended
		}
		var fwdClient *lfshttp.Client
		var fwdData []byte
		if cfg.Inner == "expired-forward" {
			// A foreign node took the halt lock on the primary and then stalled for longer than the lock lives: the
			// primary's monitor expired it. Its forwarded transaction arrives now, while a local connection reads.
			fwdClient = lfshttp.NewClient()
			fwdClient.HTTPClient = &http.Client{Transport: cl.Net.Transport("X")}
			ctx, cancel := context.WithTimeout(context.Background(), 5*time.Second)
			_, err := fwdClient.AcquireHaltLock(ctx, "http://P", 0xF00D, "db", 4711)
			cancel()
			if err != nil {
				return "harness-error:foreign-halt:" + err.Error(), nil
			}
			lab.Settle(8 * time.Second)
			if P.DB("db").VerifHaltLockID() != 0 {
				// (a primary that keeps an expired lock on its books is what this configuration is about: carry on)
				_ = 0
			}
			pos := P.DB("db").Pos()
			next := img.Clone()
			next.Pages[1] = pager.MakePage(ps, 2, 0xF0F0)
			fwdData = lab.EncodeLTX(ltx.Header{Version: 1, PageSize: ps, Commit: next.N(), MinTXID: pos.TXID + 1, MaxTXID: pos.TXID + 1, Timestamp: 7, PreApplyChecksum: pos.PostApplyChecksum, NodeID: 0xF00D},
				map[uint32][]byte{2: next.Pages[1]}, next.Checksum())
		}
		if cfg.Inner == "recover-recreate" {
			// The (WAL-mode) database is deleted; the application then creates it again under the same name - with a
			// rollback journal, as every new database starts - while LiteFS recovers (a role change).
			if err := P.M.Remove("db"); err != nil {
				return "harness-error:drop:" + err.Error(), nil
			}
			lab.Settle(200 * time.Millisecond)
			img = nil
		}
		if cfg.Inner == "export-hot" {
			// An application died in the middle of a rollback-journal transaction on the primary: pages already
			// overwritten in the file, a valid journal next to it. The export must roll that journal back first.
			hc := pager.NewConn(P.M, "db", 42, ps)
			func() {
				defer func() {
					if p := recover(); p != nil {
						if _, ok := p.(pager.Abort); !ok {
							panic(p)
						}
					}
				}()
				wrote := false
				hc.Before = func(step int, desc string) {
					if wrote {
						panic(pager.Abort{Step: step})
					}
					if strings.HasPrefix(desc, "db write page") {
						wrote = true
					}
				}
				hc.RunRTx(pager.RTx{Mods: []uint32{2, 3}, SpillAfter: []int{1}, Final: "DELETE", Outcome: "commit"}, img)
			}()
			hc.Before = nil
			hc.Close()
			if !P.M.Exists("db-journal") {
				return "harness-error:no-hot-journal", nil
			}
		}
		clientOwner := uint64(21)
		// Monitor inside every page write of N.
		e.Observer = func(site string, obj any, a int64, internal bool) {
			d, ok := obj.(*litefs.DB)
			if !ok || d != db || (site != "db.writepage" && !(site == "db.truncate" && cfg.Inner == "recover-recreate")) {
				return
			}
			if site == "db.truncate" {
				internal = true // the application's creating transaction never truncates: every truncate here is LiteFS's own
			}
			need := []lk{litefs.LockTypePending, litefs.LockTypeShared, litefs.LockTypeReserved}
			if d.Mode() == litefs.DBModeWAL {
				need = []lk{litefs.LockTypeWrite, litefs.LockTypeCkpt, litefs.LockTypeRecover, litefs.LockTypeRead0, litefs.LockTypeRead1, litefs.LockTypeRead2, litefs.LockTypeRead3, litefs.LockTypeRead4}
			}
			cgs := d.GuardSet(clientOwner)
			if internal {
				for _, l := range need {
					_, ex := d.VerifMutex(l).VerifDump()
					if ex == nil {
						v("C11/internal-write-without-lock/"+l.String(), "LiteFS wrote page %d on its own while %s is not held exclusively", a, l)
					} else if cgs != nil && ex == cgs.Guard(l) {
						v("C11/internal-write-under-client-lock/"+l.String(), "LiteFS wrote page %d on its own while the exclusive holder of %s is the application connection", a, l)
					}
				}
				if cgs != nil {
					for _, l := range allLocks {
						if l == litefs.LockTypeDMS {
							continue
						}
						st := cgs.Guard(l).State()
						conflict := st == litefs.RWMutexStateExclusive || (st == litefs.RWMutexStateShared && l != litefs.LockTypeDMS && (d.Mode() != litefs.DBModeWAL || (l != litefs.LockTypeShared && l != litefs.LockTypePending)))
						if d.Mode() == litefs.DBModeWAL && cfg.Inner == "import-leave-wal" && (l == litefs.LockTypePending || l == litefs.LockTypeReserved) {
							// a connection that is about to leave WAL mode queues for EXCLUSIVE on the database file with
							// RESERVED and PENDING; a WAL-mode writer - SQLite's or LiteFS's - conflicts with neither (it is
							// the writer's SHARED that keeps that connection waiting). Only the configuration whose connection does
							// leave WAL mode gets this allowance: anywhere else a RESERVED holder follows the rollback protocol, and
							// a LiteFS that writes next to it believes in a WAL mode the database is not in.
							conflict = false
						}
						if conflict {
							v("C11/internal-write-while-client-holds/"+l.String(), "LiteFS wrote page %d on its own while the application connection holds %s (%s) in %v", a, l, st, d.Mode())
						}
					}
				}
			}
		}
		var aErr string
		e.Go("A", func(th *sched.Thread) {
			if cfg.Inner == "apply" || cfg.Inner == "unhalt" || cfg.Inner == "export-hot" || cfg.Inner == "expired-forward" {
				// a reader on the replica (export-hot, expired-forward: on the primary)
				rc := pager.NewConn(N.M, "db", clientOwner, ps)
				rc.Busy = func() bool { time.Sleep(200 * time.Microsecond); return false }
				defer rc.Close()
				var got *oracle.Image
				var err error
				if cfg.WAL {
					got, err = rc.ReadImageWAL()
				} else {
					got, err = rc.ReadImage()
				}
				if err != nil {
					aErr = "busy"
					return
				}
				_ = got
				return
			}
			wc := pager.NewConn(N.M, "db", clientOwner, ps)
			tries := 0
			wc.Busy = func() bool { tries++; time.Sleep(300 * time.Microsecond); return tries < 30 }
			defer wc.Close()
			if cfg.Inner == "import-leave-wal" {
				// PRAGMA journal_mode=DELETE on the WAL database (checkpoint, unlink the log, rewrite page 1 through a
				// rollback journal), then a read under SHARED - the rollback protocol from here on
				if err := wc.LeaveWAL(); err != nil {
					aErr = "busy"
					return
				}
				if w := wc.RunRTx(pager.RTx{FromWAL: true, Final: "DELETE", Outcome: "commit"}, img); w.Err != nil || !w.Committed {
					aErr = "busy"
					return
				}
				wc.Before = func(step int, desc string) {
					if strings.HasPrefix(desc, "read db page") {
						th.Point(desc) // holds SHARED across scheduling points
					}
				}
				if _, err := wc.ReadImage(); err != nil {
					aErr = "busy-read"
				}
				return
			}
			if cfg.Inner == "recover-recreate" {
				w := wc.RunRTx(pager.RTx{Create: true, NewSize: 3, Final: "DELETE", Outcome: "commit"}, nil)
				if w.Err != nil {
					aErr = "busy"
				}
				return
			}
			if cfg.WAL {
				w := wc.RunWTx(pager.WTx{Frames: []uint32{1, 2}, Outcome: "commit"}, img)
				if w.Err != nil {
					aErr = "busy"
				}
			} else {
				w := wc.RunRTx(pager.RTx{Mods: []uint32{2, 3}, SpillAfter: []int{1}, Final: "DELETE", Outcome: "commit"}, img)
				if w.Err != nil {
					aErr = "busy"
				}
			}
		})
		e.Go("I", func(th *sched.Thread) {
			ctx, cancel := context.WithTimeout(context.Background(), 3*time.Second)
			defer cancel()
			if cfg.Inner == "recover" || cfg.Inner == "recover-recreate" {
				_ = N.Store.Recover(ctx)
				return
			}
			if cfg.Inner == "export-hot" {
				_, _ = db.Export(ctx, io.Discard)
				return
			}
			if cfg.Inner == "unhalt" {
				_ = haltFile.Unlock(uint64(litefs.LockTypeHalt), uint64(litefs.LockTypeHalt))
				return
			}
			if cfg.Inner == "expired-forward" {
				_ = fwdClient.Commit(ctx, "http://P", 0xF00D, "db", 4711, bytes.NewReader(fwdData))
				return
			}
			if cfg.Inner == "import-leave-wal" {
				// LiteFS's own writer: an import, which takes the internal write lock and rewrites every page
				im := &oracle.Image{PageSize: ps}
				im.Pages = append(im.Pages, pager.MakePage1(ps, 0x9300, 2, false, 5), pager.MakePage(ps, 2, 0x9300))
				_ = db.Import(ctx, bytes.NewReader(im.Bytes()))
				return
			}
			// a commit on the primary makes the replica apply (the apply runs on the replica's stream goroutine,
			// which is adopted by this thread through the transport's spawner only for handlers; the replica
			// loop itself is a background goroutine, so drive the apply directly here):
			pc := pager.NewConn(P.M, "db", 31, ps)
			defer pc.Close()
			if cfg.WAL {
				pc.RunWTx(pager.WTx{Frames: []uint32{1, 2}, Outcome: "commit"}, img)
			} else {
				pc.RunRTx(pager.RTx{Mods: []uint32{2}, Final: "DELETE", Outcome: "commit"}, img)
			}
		})
		e.Run(prefix)
		if e.Aborted() {
			return "aborted", viol
		}
		lab.Settle(2 * time.Second)
		if codes := N.ExitCodes(); len(codes) > 0 {
			v("C11/exit", "Store.Exit(%v)", codes)
		}
		return "A=" + aErr, viol
	}
}

func TestCheck(t *testing.T) {
	reg := sched.Registry{"c11b": harnessB}
	sched.ServeIfWorker(t, reg)
	run := vlib.Start("C11", "model_checking")
	if f := os.Getenv("VERIF_REPLAY"); f != "" {
		fmt.Println("replay of C11 closure histories: re-run the check; schedules: use the c10-style replay (not wired)")
		os.Exit(2)
	}

	states, transitions, maxDepth := 0, 0, 0
	var samples []any
	allOutcomes := map[string]int{}
	for _, wal := range []bool{false, true} {
		var st, tr, md int
		var sm []any
		var oc map[string]int
		synctest.Test(t, func(t *testing.T) {
			st, tr, md, sm, oc = closure(run, wal)
		})
		states += st
		transitions += tr
		if md > maxDepth {
			maxDepth = md
		}
		samples = append(samples, sm...)
		samples = append(samples, map[string]any{"mode": map[bool]string{false: "journal", true: "wal"}[wal], "states": st, "transitions": tr, "max_depth": md})
		for k, v := range oc {
			allOutcomes[k] += v
		}
	}
	// Part B
	pool := vlib.NewPool()
	pool.CaseTimeout = 10 * time.Minute
	if !run.Thorough() {
		pool.CaseTimeout = time.Minute // a quick case takes seconds; one that hangs is run again alone with four times this
	}
	defer pool.Close()
	bound := 2
	if run.Thorough() {
		bound = 3
	}
	var bInfo []any
	bExec := 0
	for _, cfg := range []BCfg{{WAL: false, Inner: "recover"}, {WAL: true, Inner: "recover"}, {WAL: false, Inner: "apply"}, {WAL: true, Inner: "apply"}, {WAL: true, Inner: "unhalt"}, {WAL: false, Inner: "export-hot"}, {WAL: true, Inner: "recover-recreate"}, {WAL: false, Inner: "expired-forward"}, {WAL: true, Inner: "expired-forward"}, {WAL: true, Inner: "import-leave-wal"}} {
		var tot sched.Totals
		sched.Distributed(t, run, pool, reg, "c11b", cfg, bound, 3, 5*time.Minute, &tot)
		bExec += tot.Executions
		bInfo = append(bInfo, map[string]any{"config": cfg, "schedules": tot.Executions, "outcomes": tot.Outcomes, "max_points": tot.MaxPoints, "capped": tot.Capped})
		for k := range tot.Outcomes {
			if strings.HasPrefix(k, "harness-error") {
				run.HarnessError("%+v: %s", cfg, k)
			}
		}
	}
	keys := make([]string, 0, len(allOutcomes))
	for k := range allOutcomes {
		keys = append(keys, k)
	}
	sort.Strings(keys)
	cov := map[string]any{
		"states":                        states,
		"transitions":                   transitions,
		"traces_validated_against_impl": transitions,
		"max_depth":                     maxDepth,
		"exhaustive":                    true,
		"distinct_request_outcomes":     len(allOutcomes),
		"schedule_part":                 bInfo,
		"schedules_executed":            bExec,
		"preemption_bound":              bound,
		"samples":                       samples,
		"rule":                          "Part A: BFS to closure (frontier exhausted) over the implementation's lock-table key (12 mutexes x holders incl. LiteFS's internal owner) with two protocol-following owners and the internal owner; each transition is replayed from a reset table on the real DB. Part B: all schedules up to the preemption bound of an application transaction / reader against Store.Recover, a replicated apply, or the release of the replica's remote halt lock (which checkpoints its WAL), with a monitor in every page write.",
	}
	if len(allOutcomes) < 10 && run.NViolations() == 0 {
		run.HarnessError("vacuous: %d outcomes", len(allOutcomes))
	}
	run.Finish(cov, []string{
		"Owners are distinct POSIX lock owners; each SQLite lock byte is one LiteFS lock (the SHARED range is one lock).",
		"A multi-byte request that is refused part-way keeps the bytes granted before the refusal (LiteFS's order); only the final table and the overall result are asserted for such requests.",
		"A FUSE write does not reliably carry its lock owner: 'WAL writes without the write lock are refused' is checked as 'while no owner holds WRITE exclusively'.",
	})
}
