// C13: write forwarding under a halt lock is exclusive, ordered and acknowledged.
//
// Part A (sequences): on a real 3-node cluster (P primary, R1 halt requester,
// R2 observer; real /halt, /tx and /stream handlers, real LockHandle on R1's
// <db>-lock node) every scenario of {acquire, forwarded commits, release or
// expiry, local writer on P before/during/after, repeated acquire with the
// same ID, lost replies} in both journal modes is run and every clause of the
// property is evaluated; plus the caller matrix of POST /tx (lock ID x node ID).
// Part B (schedules): the application on R1, a local writer on P and the
// expiry of the halt lock as threads under the schedule explorer.
package c13

import (
	"path/filepath"
	"bytes"
	"context"
	"encoding/json"
	"fmt"
	"net/http"
	"os"
	"runtime/debug"
	"strings"
	"syscall"
	"testing"
	"testing/synctest"
	"time"

	"github.com/superfly/litefs"
	lfshttp "github.com/superfly/litefs/http"
	"github.com/superfly/ltx"
	"verif/lab"
	"verif/mon"
	"verif/oracle"
	"verif/pager"
	"verif/prog"
	"verif/sched"
	"verif/vlib"
)

const ps = 512

type Case struct {
	Scenario string `json:"scenario"`
	WAL      bool   `json:"wal"`
	Variant  int    `json:"variant"`
}

type Result struct {
	V       []prog.V `json:"v,omitempty"`
	Class   string   `json:"class"`
	Harness string   `json:"harness,omitempty"`
}

type world struct {
	cl        *lab.Cluster
	P, R, R2  *lab.Node
	img       *oracle.Image
	wal       bool
	lockFile  *lab.File
	viol      func(key, format string, args ...any)
	own       uint64
	before    func(step int, desc string) // installed on the connections txOn opens
}

// r1OSHook, when set, sees every file-system mutation LiteFS performs on R1 (op is the call site's label).
var r1OSHook func(op, call, name string)

// pOSHook is r1OSHook for the primary.
var pOSHook func(op, call, name string)

// r1Candidate makes the halt-lock holder itself a candidate for the lease (holder-promoted).
var r1Candidate bool

// shortRetention makes every node keep its transaction files for one second only (expiry-snapshot).
var shortRetention bool

// r2Candidate makes R2 a candidate for the lease (the primary-change scenarios).
var r2Candidate bool

func newWorld(wal bool, viol func(string, string, ...any), spawn func(func()), ttl time.Duration) (*world, string) {
	w := &world{wal: wal, viol: viol}
	cl := lab.NewCluster(10 * time.Second)
	w.cl = cl
	if spawn != nil {
		cl.Net.Spawn = spawn
	}
	cl.Defaults = func(cfg *lab.NodeConfig) {
		if ttl > 0 {
			cfg.HaltLockTTL = ttl
		}
		cfg.HaltAcquireTimeout = 3 * time.Second
		if shortRetention {
			cfg.Retention = time.Second
		}
	}
	cl.AddNode("P", true, func(cfg *lab.NodeConfig) {
		cfg.WrapOS = func(inner litefs.OS) litefs.OS {
			return &lab.HookOS{Inner: inner, Before: func(op, call, name string) error {
				if pOSHook != nil {
					pOSHook(op, call, name)
				}
				return nil
			}}
		}
	})
	cl.AddNode("R1", r1Candidate, func(cfg *lab.NodeConfig) {
		cfg.ExitImage = true
		cfg.WrapOS = func(inner litefs.OS) litefs.OS {
			return &lab.HookOS{Inner: inner, Before: func(op, call, name string) error {
				if r1OSHook != nil {
					r1OSHook(op, call, name)
				}
				return nil
			}}
		}
	})
	cl.AddNode("R2", r2Candidate, nil)
	if err := cl.Start("P"); err != nil || cl.WaitPrimary(5*time.Second) == nil {
		return w, "start P"
	}
	for _, n := range []string{"R1", "R2"} {
		if err := cl.Start(n); err != nil {
			return w, "start " + n
		}
	}
	w.P, w.R, w.R2 = cl.Nodes["P"], cl.Nodes["R1"], cl.Nodes["R2"]
	c := pager.NewConn(w.P.M, "db", 1, ps)
	r := c.RunRTx(pager.RTx{Create: true, NewSize: 4, Final: "DELETE", Outcome: "commit"}, nil)
	if r.Err == nil {
		lab.Settle(300 * time.Millisecond)
		r = c.RunRTx(pager.RTx{Mods: []uint32{2}, Final: "DELETE", Outcome: "commit", ToWAL: wal}, r.Intended)
	}
	c.Close()
	if r.Err != nil || !r.Committed {
		return w, fmt.Sprintf("setup: %v at %s", r.Err, r.ErrStep)
	}
	w.img = r.Intended
	if ok, why := cl.WaitConverged(20*time.Second, nil); !ok {
		return w, "setup converge: " + why
	}
	return w, ""
}

func (w *world) close() { w.cl.Close() }

func posOf(n *lab.Node) ltx.Pos {
	if db := n.DB("db"); db != nil {
		return db.Pos()
	}
	return ltx.Pos{}
}

// acquire takes the HALT lock through R1's lock file, as an application would (fcntl F_SETLKW on byte 72).
func (w *world) acquire() error {
	if w.lockFile == nil {
		f, err := w.R.M.Open("db-lock", 77)
		if err != nil {
			return err
		}
		w.lockFile = f
	}
	ctx, cancel := context.WithTimeout(context.Background(), 5*time.Second)
	defer cancel()
	return w.lockFile.LockWait(ctx, uint64(litefs.LockTypeHalt), uint64(litefs.LockTypeHalt), true)
}

func (w *world) release() error {
	return w.lockFile.Unlock(uint64(litefs.LockTypeHalt), uint64(litefs.LockTypeHalt))
}

// txOn runs one transaction on node n's mount; returns whether it committed and the error.
func (w *world) txOn(n *lab.Node, busyTries int, mods []uint32) (bool, error, string) {
	w.own++
	c := pager.NewConn(n.M, "db", 100+w.own, ps)
	tries := 0
	c.Busy = func() bool { tries++; time.Sleep(500 * time.Microsecond); return tries < busyTries }
	defer c.Close()
	c.Before = w.before
	if w.wal {
		fr := append([]uint32{1}, mods...)
		r := c.RunWTx(pager.WTx{Frames: fr, Outcome: "commit"}, w.img)
		if r.Committed {
			w.img = r.Intended
		}
		return r.Committed, r.Err, r.ErrStep
	}
	r := c.RunRTx(pager.RTx{Mods: mods, Final: "DELETE", Outcome: "commit"}, w.img)
	if r.Committed {
		w.img = r.Intended
	}
	return r.Committed, r.Err, r.ErrStep
}

func (w *world) checkAll(tag string) {
	if ok, why := w.cl.WaitConverged(30*time.Second, nil); !ok {
		w.viol("C13/no-convergence/"+tag, "%s: replicas did not reach the primary's position: %s", tag, why)
		return
	}
	for _, n := range []*lab.Node{w.P, w.R, w.R2} {
		_, fs := mon.CheckDB(n, "db", w.img)
		for _, f := range fs {
			w.viol("C13/"+f.Prop+"-"+f.Key+"/"+tag, "%s: %s", tag, f.What)
		}
		if codes := n.ExitCodes(); len(codes) > 0 {
			w.viol("C13/exit/"+tag, "%s: %s called Store.Exit(%v)", tag, n.Cfg.Name, codes)
		}
	}
	if len(w.cl.Net.Panics) > 0 {
		w.viol("C20/handler-panic/"+tag, "%s: handler panicked: %s", tag, w.cl.Net.Panics[0])
	}
}

func run1(t *testing.T, c Case) (res Result) {
	viol := func(key, format string, args ...any) {
		for _, v := range res.V {
			if v.Key == key {
				return
			}
		}
		b, _ := json.Marshal(c)
		res.V = append(res.V, prog.V{Key: key, What: fmt.Sprintf(format, args...) + "\ncase: " + string(b)})
	}
	synctest.Test(t, func(t *testing.T) {
		defer func() {
			if p := recover(); p != nil {
				viol(prog.PanicKey(p, debug.Stack()), "panic: %v\n%s", p, debug.Stack())
			}
		}()
		ttl := time.Duration(0)
		if c.Scenario == "expiry" || c.Scenario == "expiry-then-commit" || c.Scenario == "expiry-snapshot" || c.Scenario == "expiry-after-holder-commit" || (c.Scenario == "release-during-forwarded-apply" && c.Variant == 2) {
			ttl = 2 * time.Second
		}
		shortRetention = c.Scenario == "expiry-snapshot"
		r1Candidate = c.Scenario == "holder-promoted"
		if r1Candidate {
			ttl = 8 * time.Second
		}
		r2Candidate = c.Scenario == "primary-change" || c.Scenario == "stale-forward"
		if r2Candidate {
			ttl = 8 * time.Second
		}
		w, herr := newWorld(c.WAL, viol, nil, ttl)
		defer w.close()
		if herr != "" {
			res.Harness = herr
			return
		}
		P, R := w.P, w.R
		switch c.Scenario {
		case "basic":
			// local writer works before the halt
			if ok, err, step := w.txOn(P, 3, []uint32{3}); !ok {
				viol("C13/writer-before-halt", "local writer on the primary failed before any halt: %v at %s", err, step)
				return
			}
			lab.Settle(300 * time.Millisecond)
			if err := w.acquire(); err != nil {
				viol("C13/acquire-failed", "acquiring the halt lock through the lock file failed: %v", err)
				return
			}
			grant := posOf(P)
			if P.DB("db").VerifHaltLockID() == 0 {
				viol("C13/no-halt-on-primary", "LockWait returned success but the primary holds no halt lock")
			}
			if got := posOf(R); got != grant {
				viol("C13/start-position", "the replica starts writing at %s but the primary granted the lock at %s", got, grant)
			}
			// (1) the primary commits nothing locally while halted
			before := posOf(P)
			if ok, _, _ := w.txOn(P, 4, []uint32{3}); ok {
				viol("C13/local-commit-while-halted", "a local transaction committed on the primary while a replica holds the halt lock")
			}
			if posOf(P) != before {
				viol("C13/primary-moved-while-halted", "the primary's position moved %s -> %s while halted without a forwarded commit", before, posOf(P))
			}
			if c.Variant == 1 {
				// deleting the database file on the primary is a local transaction too
				rmErr := P.M.Remove("db")
				if posOf(P) != before {
					viol("C13/local-drop-while-halted", "unlink of the database on the primary while a replica holds the halt lock committed a deletion: position %s -> %s (unlink returned %v)", before, posOf(P), rmErr)
					return
				}
				if rmErr == nil {
					viol("C13/local-drop-accepted-while-halted", "unlink of the database on the primary while a replica holds the halt lock returned success")
				}
			}
			// (3) forwarded commits are applied on the primary before the replica's commit returns
			for i := 0; i < 2; i++ {
				ok, err, step := w.txOn(R, 3, []uint32{2, 3})
				if !ok {
					viol("C13/forwarded-commit-failed", "commit #%d on the halt holder failed at %q: %v", i+1, step, err)
					return
				}
				if pp, rp := posOf(P), posOf(R); pp != rp {
					viol("C13/ack-before-apply", "the replica's commit returned with R=%s while the primary is at %s", rp, pp)
				}
				if _, fs := mon.CheckDB(P, "db", w.img); len(fs) > 0 {
					viol("C13/primary-image-after-forward", "after forwarded commit #%d: %s", i+1, fs[0].What)
				}
				w.checkAll(fmt.Sprintf("forwarded-%d", i+1))
			}
			// (4) repeated acquire with the same ID
			if c.Variant == 1 {
				cl := lfshttp.NewClient()
				cl.HTTPClient = &http.Client{Transport: w.cl.Net.Transport("R1")}
				id := P.DB("db").VerifHaltLockID()
				ctx, cancel := context.WithTimeout(context.Background(), 5*time.Second)
				hl, err := cl.AcquireHaltLock(ctx, "http://P", R.Store.ID(), "db", id)
				cancel()
				if err != nil {
					viol("C13/repeat-acquire-failed", "repeating POST /halt with the held lock ID failed: %v", err)
				} else if hl.ID != id {
					viol("C13/repeat-acquire-different", "repeating POST /halt returned lock %d, held lock is %d", hl.ID, id)
				}
				if P.DB("db").VerifHaltLockID() != id {
					viol("C13/repeat-acquire-replaced", "repeating POST /halt replaced the held lock")
				}
			}
			// a release request naming another lock ID must not release the held lock
			{
				cl := lfshttp.NewClient()
				cl.HTTPClient = &http.Client{Transport: w.cl.Net.Transport("R2")}
				id := P.DB("db").VerifHaltLockID()
				_ = cl.ReleaseHaltLock(context.Background(), "http://P", w.R2.Store.ID(), "db", id+1)
				if P.DB("db").VerifHaltLockID() != id {
					viol("C13/released-by-wrong-id", "DELETE /halt with a different lock ID released the held halt lock")
				}
			}
			// (5) release: the primary can write again, the former holder cannot publish
			if err := w.release(); err != nil {
				viol("C13/release-failed", "releasing the halt lock failed: %v", err)
			}
			if P.DB("db").VerifHaltLockID() != 0 {
				viol("C13/halt-survives-release", "the primary still holds the halt lock after release")
			}
			if ok, err, step := w.txOn(P, 20, []uint32{3}); !ok {
				viol("C13/writer-after-release", "after release a local transaction on the primary failed at %q: %v", step, err)
			}
			w.checkAll("after-release")
			before = posOf(P)
			ok, err, _ := w.txOn(R, 3, []uint32{2})
			if ok {
				viol("C13/former-holder-commits", "after release the former holder committed a transaction on its mount")
			} else if !lab.IsErrno(err, syscall.EACCES) {
				res.Class = "former-holder-refused-" + lab.Errno(err).Error()
			}
			lab.Settle(500 * time.Millisecond)
			if posOf(P) != before {
				viol("C13/former-holder-published", "after release the former holder's transaction reached the primary (%s -> %s)", before, posOf(P))
			}
			res.Class += "|basic-ok"
		case "expiry", "expiry-then-commit":
			if err := w.acquire(); err != nil {
				viol("C13/acquire-failed", "acquire: %v", err)
				return
			}
			lab.Settle(8 * time.Second) // TTL 2 s, monitor interval 5 s
			if P.DB("db").VerifHaltLockID() != 0 {
				viol("C13/halt-not-expired", "the halt lock did not expire on the primary (TTL 2 s, 8 s elapsed)")
				return
			}
			if c.Scenario == "expiry" {
				// (5) expiry: the primary writes again; the stale holder's next commit is refused and not published
				if ok, err, step := w.txOn(P, 20, []uint32{3}); !ok {
					viol("C13/writer-after-expiry", "after expiry a local transaction on the primary failed at %q: %v", step, err)
				}
				w.checkAll("after-expiry-write")
			}
			before := posOf(P)
			imgBefore := w.img
			ok, _, _ := w.txOn(R, 3, []uint32{2})
			lab.Settle(500 * time.Millisecond)
			w.img = imgBefore
			// In WAL mode SQLite cannot be told that the commit failed (the capture happens at the write-lock
			// release); LiteFS stops the node instead. What the property demands is that nothing is published.
			if (ok && !c.WAL) || posOf(P) != before {
				viol("C13/expired-holder-published", "after the halt lock expired on the primary the former holder's commit was accepted (returned ok=%v, primary %s -> %s)", ok, before, posOf(P))
				return
			}
			if c.WAL && ok {
				if len(R.ExitCodes()) == 0 {
					viol("C13/refused-wal-commit-not-fatal", "the refused WAL commit neither failed visibly nor stopped the node")
				}
				R.ClearExits()
				_ = R.Stop()
				if err := R.Start(); err != nil {
					viol("C13/restart-after-refused-commit", "the former holder does not restart: %v", err)
					return
				}
			}
			// The refused transaction is rolled back on the former holder when the next transaction arrives.
			if ok2, err, step := w.txOn(P, 30, []uint32{3}); !ok2 {
				viol("C13/writer-after-expiry", "after expiry a local transaction on the primary failed at %q: %v", step, err)
			}
			w.checkAll("after-expired-commit")
			res.Class = "expiry-ok"
		case "holder-leaves-wal":
			// The holder switches the database back to a rollback journal (PRAGMA journal_mode=DELETE): the forwarded
			// transaction rewrites page 1 and the primary's database is in rollback mode from then on. The primary is
			// still halted: a local connection - which follows the rollback protocol now - commits nothing.
			if !w.wal {
				res.Class = "n/a"
				return
			}
			if err := w.acquire(); err != nil {
				viol("C13/acquire-failed", "acquire: %v", err)
				return
			}
			{
				hc := pager.NewConn(R.M, "db", 405, ps)
				err := hc.LeaveWAL()
				var x pager.RTxResult
				if err == nil {
					x = hc.RunRTx(pager.RTx{FromWAL: true, Final: "DELETE", Outcome: "commit"}, w.img)
					err = x.Err
				}
				hc.Close()
				if err != nil || !x.Committed {
					viol("C13/forwarded-commit-failed", "the holder could not leave WAL mode: %v at %s", err, x.ErrStep)
					return
				}
				w.img = x.Intended
			}
			if pp, rp := posOf(P), posOf(R); pp != rp {
				viol("C13/ack-before-apply", "the holder's commit returned with R=%s while the primary is at %s", rp, pp)
			}
			before := posOf(P)
			{
				lc := pager.NewConn(P.M, "db", 406, ps)
				tries := 0
				lc.Busy = func() bool { tries++; time.Sleep(500 * time.Microsecond); return tries < 4 }
				x := lc.RunRTx(pager.RTx{Mods: []uint32{3}, Final: "DELETE", Outcome: "commit"}, w.img)
				lc.Close()
				if !x.Committed && posOf(P) == before {
					// the same writer with synchronous=OFF: its journal header is valid from the first write, it gets as far
					// as RESERVED, is refused EXCLUSIVE and rolls back - which publishes nothing either
					lc2 := pager.NewConn(P.M, "db", 407, ps)
					tries2 := 0
					lc2.Busy = func() bool { tries2++; time.Sleep(500 * time.Microsecond); return tries2 < 4 }
					x = lc2.RunRTx(pager.RTx{Mods: []uint32{3}, SyncMode: 2, Final: "DELETE", Outcome: "commit"}, w.img)
					lc2.Close()
				}
				if x.Committed || posOf(P) != before {
					viol("C13/local-commit-while-halted", "after the holder switched the database to a rollback journal a local transaction committed on the primary while the halt lock is held (primary %s -> %s)", before, posOf(P))
					return
				}
			}
			w.wal = false
			if ok, err, step := w.txOn(R, 3, []uint32{2}); !ok {
				viol("C13/forwarded-commit-failed", "the holder's next commit failed at %q: %v", step, err)
			}
			if err := w.release(); err != nil {
				viol("C13/release-failed", "releasing the halt lock failed: %v", err)
			}
			if ok, err, step := w.txOn(P, 20, []uint32{3}); !ok {
				viol("C13/writer-after-release", "after release a local transaction on the primary failed at %q: %v", step, err)
			}
			w.checkAll("holder-leaves-wal")
			res.Class = "holder-leaves-wal-ok"
		case "expiry-after-holder-commit":
			// The holder commits under the lock (in WAL mode its pages stay in its own log), then the lock expires on the
			// primary without the holder being told. The next transaction comes from the primary and touches other pages:
			// the holder, which applies it as the replica it is again, must first fold its own log into the database -
			// an application on the holder reads every page as the primary has it.
			if err := w.acquire(); err != nil {
				viol("C13/acquire-failed", "acquire: %v", err)
				return
			}
			if ok, err, step := w.txOn(R, 3, []uint32{2}); !ok {
				viol("C13/forwarded-commit-failed", "the holder's commit failed at %q: %v", step, err)
				return
			}
			// a second application connection on the holder that stays open: it does not rebuild the wal-index from the
			// log as a first opener does, it trusts the index it finds - also the one LiteFS publishes after an apply
			keep := pager.NewConn(R.M, "db", 404, ps)
			defer keep.Close()
			keepTries := 0
			keep.Busy = func() bool { keepTries++; time.Sleep(time.Millisecond); return keepTries < 500 }
			if w.wal {
				if _, err := keep.ReadImageWAL(); err != nil {
					res.Harness = "long-lived reader: " + err.Error()
					return
				}
			}
			// TTL 2 s; both nodes look at their clocks every 5 s, each from its own start: here the primary's round comes
			// first and its writer is quick (the holder's own expiry round has not come yet)
			lab.Settle(2100 * time.Millisecond)
			P.DB("db").EnforceHaltLockExpiration(context.Background())
			if P.DB("db").VerifHaltLockID() != 0 {
				viol("C13/halt-not-expired", "the halt lock did not expire on the primary (TTL 2 s, 2.1 s elapsed)")
				return
			}
			{
				cn := pager.NewConn(P.M, "db", 402, ps)
				var committed bool
				if w.wal {
					x := cn.RunWTx(pager.WTx{Frames: []uint32{3}, Outcome: "commit"}, w.img) // page 1 is not rewritten
					committed = x.Committed
					if committed {
						w.img = x.Intended
					}
				} else {
					x := cn.RunRTx(pager.RTx{Mods: []uint32{3}, Final: "DELETE", Outcome: "commit"}, w.img)
					committed = x.Committed
					if committed {
						w.img = x.Intended
					}
				}
				cn.Close()
				if !committed {
					viol("C13/writer-after-expiry", "after expiry a local transaction on the primary failed")
					return
				}
			}
			w.checkAll("expiry-after-holder-commit")
			for _, n := range []*lab.Node{P, R, w.R2} {
				rc := pager.NewConn(n.M, "db", 403, ps)
				if n == R {
					rc = keep
				}
				var got *oracle.Image
				var err error
				if w.wal {
					got, err = rc.ReadImageWAL()
				} else {
					got, err = rc.ReadImage()
				}
				if n != R {
					rc.Close()
				}
				if err != nil {
					viol("C13/reader-error/expiry-after-holder-commit", "%s: reading through the mount failed: %v", n.Cfg.Name, err)
				} else if ok, d := got.Equal(w.img); !ok {
					viol("C13/reader-image/expiry-after-holder-commit", "%s at %s: an application reads an image that differs from the primary's: %s", n.Cfg.Name, posOf(n), d)
				}
			}
			res.Class = "expiry-after-holder-commit-ok"
		case "lagging-acquire":
			// The replica is one transaction behind when it asks for the lock (a long-running reader on its mount keeps
			// the stream's frame waiting; Variant 1: two transactions). The grant names the primary's position: the
			// acquisition must wait for the stream, then the replica writes from exactly that position.
			rd := pager.NewConn(R.M, "db", 55, ps)
			if err := rd.HoldRead(c.WAL); err != nil {
				res.Harness = "reader on the replica: " + err.Error()
				return
			}
			for i := 0; i <= c.Variant; i++ {
				if ok, err, step := w.txOn(P, 3, []uint32{3}); !ok {
					viol("C13/writer-before-halt", "local writer on the primary failed before any halt: %v at %s", err, step)
					return
				}
			}
			lab.Settle(300 * time.Millisecond)
			if posOf(R) == posOf(P) {
				res.Harness = "the replica did not lag"
				rd.Close()
				return
			}
			acq := make(chan error, 1)
			go func() { acq <- w.acquire() }()
			lab.Settle(500 * time.Millisecond)
			rd.DropRead(c.WAL)
			rd.Close()
			if err := <-acq; err != nil {
				viol("C13/acquire-failed/lagging", "acquiring the halt lock on a replica that was behind failed: %v", err)
				return
			}
			if got, want := posOf(R), posOf(P); got != want {
				viol("C13/start-position", "the replica starts writing at %s but the primary granted the lock at %s", got, want)
			}
			if P.DB("db").VerifHaltLockID() == 0 {
				viol("C13/no-halt-on-primary", "LockWait returned success but the primary holds no halt lock")
			}
			ok, err, step := w.txOn(R, 3, []uint32{2, 3})
			if !ok {
				viol("C13/forwarded-commit-failed/lagging", "the replica holds the halt lock (acquired while it was behind) but its commit failed at %q: %v", step, err)
				_ = w.release()
				return
			}
			if pp, rp := posOf(P), posOf(R); pp != rp {
				viol("C13/ack-before-apply", "the replica's commit returned with R=%s while the primary is at %s", rp, pp)
			}
			if err := w.release(); err != nil {
				viol("C13/release-failed", "releasing the halt lock failed: %v", err)
			}
			if ok, err, step := w.txOn(P, 20, []uint32{3}); !ok {
				viol("C13/writer-after-release", "after release a local transaction on the primary failed at %q: %v", step, err)
			}
			w.checkAll("lagging-acquire")
			res.Class = "lagging-ok"
		case "acquire-timeout":
			// The replica stays behind for longer than the acquire timeout (3 s here): the acquisition fails, the
			// primary's lock is given back, and the replica - which holds nothing - must refuse writes.
			rd := pager.NewConn(R.M, "db", 55, ps)
			if err := rd.HoldRead(c.WAL); err != nil {
				res.Harness = "reader on the replica: " + err.Error()
				return
			}
			imgR := w.img
			if ok, err, step := w.txOn(P, 3, []uint32{3}); !ok {
				viol("C13/writer-before-halt", "local writer on the primary failed before any halt: %v at %s", err, step)
				return
			}
			lab.Settle(300 * time.Millisecond)
			imgP := w.img
			if err := w.acquire(); err == nil {
				res.Harness = "acquire succeeded although the replica cannot catch up"
				return
			}
			lab.Settle(500 * time.Millisecond)
			if id := P.DB("db").VerifHaltLockID(); id != 0 {
				viol("C13/halt-survives-failed-acquire", "the acquisition failed on the replica but the primary still holds halt lock %d", id)
			}
			// the replica is behind and holds no lock: a write on its mount must be refused and change nothing
			posBefore := posOf(R)
			w2 := pager.NewConn(R.M, "db", 56, ps)
			var werr error
			if c.WAL {
				r := w2.RunWTx(pager.WTx{Frames: []uint32{1, 2}, Outcome: "commit"}, imgR)
				werr = r.Err
				if r.Committed {
					viol("C07/write-accepted-without-halt", "after a failed halt acquisition the replica committed a WAL transaction")
				}
			} else {
				// the reader still holds SHARED; a writer gets as far as writing pages only if the node thinks it may write
				rd.DropRead(c.WAL)
				r := w2.RunRTx(pager.RTx{Mods: []uint32{2}, Final: "DELETE", Outcome: "commit"}, imgR)
				werr = r.Err
				if r.Committed {
					viol("C07/write-accepted-without-halt", "after a failed halt acquisition the replica committed a transaction")
				}
			}
			w2.Close()
			if werr == nil || !lab.IsErrno(werr, syscall.EACCES) {
				viol("C07/write-not-refused-without-halt", "after a failed halt acquisition a write on the replica was not refused with EACCES: %v", werr)
			}
			if posOf(R) != posBefore {
				viol("C07/position-moved-without-halt", "after a failed halt acquisition a write on the replica moved its position %s -> %s", posBefore, posOf(R))
			}
			if !c.WAL {
				if got, err := oracle.ReadLogicalImage(R.DB("db").Path(), ps); err != nil {
					viol("C07/image-unreadable-without-halt", "replica image: %v", err)
				} else if ok, d := got.Equal(imgR); !ok {
					viol("C07/image-changed-without-halt", "after a failed halt acquisition a write on the replica changed its database file: %s", d)
				}
			}
			rd.DropRead(c.WAL)
			rd.Close()
			w.img = imgP
			if ok, err, step := w.txOn(P, 20, []uint32{3}); !ok {
				viol("C13/writer-after-failed-acquire", "after the failed acquisition a local transaction on the primary failed at %q: %v", step, err)
			}
			w.checkAll("acquire-timeout")
			res.Class = "acquire-timeout-ok"
		case "expiry-snapshot":
			// The holder is cut off from the primary, the lock expires there, the primary commits and trims its log
			// (retention), the link heals: the first thing the former holder receives is a snapshot, not the next
			// transaction. Whatever arrives, it holds nothing any more and must refuse writes.
			if err := w.acquire(); err != nil {
				viol("C13/acquire-failed", "acquire: %v", err)
				return
			}
			w.cl.Net.Block("P", "R1")
			lab.Settle(8 * time.Second)
			if P.DB("db").VerifHaltLockID() != 0 {
				viol("C13/halt-not-expired", "the halt lock did not expire on the primary (TTL 2 s, 8 s elapsed)")
				return
			}
			for i := 0; i < 3; i++ {
				if ok, err, step := w.txOn(P, 20, []uint32{3}); !ok {
					viol("C13/writer-after-expiry", "after expiry a local transaction on the primary failed at %q: %v", step, err)
					return
				}
				lab.Settle(1500 * time.Millisecond)
				// the files are older than the retention period (their mtimes are real time, the store's clock is the bubble's)
				old := time.Now().Add(-time.Hour)
				for _, name := range mon.ListLTX(P.DB("db").LTXDir()) {
					_ = os.Chtimes(filepath.Join(P.DB("db").LTXDir(), name), old, old)
				}
				_ = P.Store.EnforceRetention(context.Background())
			}
			names := mon.ListLTX(P.DB("db").LTXDir())
			w.cl.Net.Unblock("P", "R1")
			if ok, why := w.cl.WaitConverged(30*time.Second, nil); !ok {
				viol("C13/no-convergence/expiry-snapshot", "the former holder did not catch up after the partition: %s (primary log %v)", why, names)
				return
			}
			res.Class = fmt.Sprintf("expiry-snapshot-log=%d", len(names))
			imgP := w.img
			posBefore := posOf(R)
			w2 := pager.NewConn(R.M, "db", 56, ps)
			var werr error
			var committed bool
			if c.WAL {
				r := w2.RunWTx(pager.WTx{Frames: []uint32{1, 2}, Outcome: "commit"}, imgP)
				werr, committed = r.Err, r.Committed
			} else {
				r := w2.RunRTx(pager.RTx{Mods: []uint32{2}, Final: "DELETE", Outcome: "commit"}, imgP)
				werr, committed = r.Err, r.Committed
			}
			w2.Close()
			if committed {
				viol("C07/write-accepted-without-halt", "the former holder (lock expired, caught up through a snapshot) committed a transaction")
			}
			if werr == nil || !lab.IsErrno(werr, syscall.EACCES) {
				viol("C07/write-not-refused-without-halt", "the former holder (lock expired, caught up through a snapshot) did not refuse a write with EACCES: %v", werr)
			}
			if posOf(R) != posBefore {
				viol("C07/position-moved-without-halt", "a write on the former holder moved its position %s -> %s", posBefore, posOf(R))
			}
			if !c.WAL {
				if got, err := oracle.ReadLogicalImage(R.DB("db").Path(), ps); err != nil {
					viol("C07/image-unreadable-without-halt", "replica image: %v", err)
				} else if ok, d := got.Equal(imgP); !ok {
					viol("C07/image-changed-without-halt", "a write on the former holder changed its database file: %s", d)
				}
			}
			w.img = imgP
			w.checkAll("expiry-snapshot")
		case "lost-replies":
			// replies to POST /halt, POST /tx or DELETE /halt are lost once; the client-side operation is retried by the caller
			drop := []string{"POST /halt", "POST /tx", "DELETE /halt"}[c.Variant%3]
			dropped := 0
			w.cl.Net.DropResponse = func(from, to string, r *http.Request) bool {
				if from == "R1" && r.Method+" "+r.URL.Path == drop && dropped == 0 {
					dropped++
					return true
				}
				return false
			}
			err := w.acquire()
			if err != nil && drop == "POST /halt" {
				err = w.acquire() // the FUSE call is retried (same lock ID on the same handle)
			}
			if err != nil {
				viol("C13/acquire-after-lost-reply", "acquire failed (reply of %s lost once): %v", drop, err)
				return
			}
			if got, want := posOf(R), posOf(P); got != want {
				viol("C13/start-position", "replica starts writing at %s, primary at %s", got, want)
			}
			ok, terr, step := w.txOn(R, 3, []uint32{2, 3})
			if drop == "POST /tx" {
				// The reply was lost: the commit may fail on the replica although the primary applied it. The
				// system must converge to one history either way.
				res.Class = fmt.Sprintf("lost-tx-reply-commit=%v", ok)
				if !ok {
					// the replica does not have the transaction locally; whatever the primary did must reach it
					if pi, e := oracle.ReadLogicalImage(P.DB("db").Path(), ps); e == nil {
						w.img = pi
					}
				}
				_ = w.release()
				lab.Settle(2 * time.Second)
				if c.WAL && len(R.ExitCodes()) > 0 {
					// A WAL commit that fails in its final phase cannot be reported to SQLite: LiteFS stops the node by
					// design and recovers at the next start.
					if err := R.RestartFromExitImage(); err != nil {
						viol("C13/restart-after-lost-reply", "the halt holder does not restart after the lost /tx reply: %v", err)
						return
					}
				}
				w.checkAll("lost-tx-reply")
				return
			}
			if !ok {
				viol("C13/forwarded-commit-failed", "commit on the halt holder failed at %q: %v", step, terr)
				return
			}
			if posOf(P) != posOf(R) {
				viol("C13/ack-before-apply", "commit returned with R=%s P=%s", posOf(R), posOf(P))
			}
			rerr := w.release()
			if rerr != nil && drop == "DELETE /halt" {
				rerr = w.release()
			}
			lab.Settle(500 * time.Millisecond)
			if ok, err, step := w.txOn(P, 30, []uint32{3}); !ok {
				viol("C13/writer-after-release", "after release (reply of %s lost once, release err=%v) the primary cannot write: %v at %s", drop, rerr, err, step)
			}
			w.checkAll("lost-" + strings.ReplaceAll(drop, " ", ""))
			res.Class = "lost-ok"
		case "holder-promoted":
			// The holder of the halt lock becomes the primary itself (the granting primary is demoted and the holder is the
			// only other candidate). It has write authority of its own now: its next commit must succeed - not be forwarded
			// to a primary that does not exist - and reach the others.
			if err := w.acquire(); err != nil {
				viol("C13/acquire-failed", "acquiring the halt lock failed: %v", err)
				return
			}
			P.Store.Demote()
			if !lab.WaitFor(40*time.Second, R.Store.IsPrimary) {
				res.Harness = "R1 did not become primary"
				return
			}
			lab.Settle(2 * time.Second)
			ok, terr, step := w.txOn(R, 10, []uint32{2, 3})
			if len(R.ExitCodes()) > 0 {
				viol("C13/exit/holder-promoted", "the former halt-lock holder, now primary, called Store.Exit(%v) on its first commit (%v at %q)", R.ExitCodes(), terr, step)
				return
			}
			if !ok {
				viol("C13/primary-cannot-commit/holder-promoted", "the former halt-lock holder is primary but its commit failed at %q: %v", step, terr)
				return
			}
			_ = w.release()
			lab.Settle(12 * time.Second) // the lock on the former primary's books expires (TTL 8 s)
			w.checkAll("holder-promoted")
			res.Class = "holder-promoted-ok"
		case "release-during-forwarded-apply":
			// The lock is released (its owner's other connection sends DELETE /halt) or expires while the primary's
			// handler is in the middle of a forwarded transaction: after it found the lock held, before the file enters
			// the log. Variant 1: a local writer on the primary is waiting for its turn too. Variant 2: the lock's life runs
			// out in that window and the primary's own monitor expires it. Variant 3: the release lands inside the
			// handler's lock check itself, right before its attempt to pin the lock. The former holder can no
			// longer publish: either the release takes effect first and the forwarded transaction is refused, or the
			// transaction is published whole and the release (and the writer) come after it; the primary's log,
			// position and files are consistent either way and nothing that was acknowledged is lost.
			if err := w.acquire(); err != nil {
				viol("C13/acquire-failed", "acquiring the halt lock failed: %v", err)
				return
			}
			fired, wCommitted, releasedBeforeRename := false, false, false
			var imgW *oracle.Image
			done := make(chan struct{})
			pOSHook = func(op, call, name string) {
				if fired || op != "WRITELTX" || call != "rename" {
					return
				}
				fired = true
				if c.Variant == 2 {
					// the holder's file takes its time: the lock's life (2 s) runs out and the primary's own expiry
					// monitor comes round while the request is in this window
					time.Sleep(9 * time.Second)
				}
				go func() {
					defer close(done)
					if id := P.DB("db").VerifHaltLockID(); id != 0 && c.Variant < 2 {
						P.DB("db").ReleaseHaltLock(context.Background(), id)
					}
					if c.Variant == 1 {
						cn := pager.NewConn(P.M, "db", 401, ps)
						tries := 0
						cn.Busy = func() bool { tries++; time.Sleep(time.Millisecond); return tries < 2000 }
						defer cn.Close()
						if w.wal {
							if cur, err := cn.ReadImageWAL(); err == nil {
								x := cn.RunWTx(pager.WTx{Frames: []uint32{1, 3}, Outcome: "commit"}, cur)
								wCommitted, imgW = x.Committed, x.Intended
							}
						} else if cur, err := cn.ReadImage(); err == nil {
							x := cn.RunRTx(pager.RTx{Mods: []uint32{3}, Final: "DELETE", Outcome: "commit"}, cur)
							wCommitted, imgW = x.Committed, x.Intended
						}
					}
				}()
				synctest.Wait() // release and writer run until they finish or have to wait
				releasedBeforeRename = P.DB("db").VerifHaltLockID() == 0
			}
			defer func() { pOSHook = nil }()
			if c.Variant == 3 && w.wal {
				// (a WAL commit that the primary refuses stops the holder by design: only the rollback-journal mode tells the
				// application, which is what the oracle below reads)
				_ = w.release()
				res.Class = "n/a"
				return
			}
			if c.Variant == 3 {
				// the release lands inside the handler's own lock check: right before the attempt to pin the lock
				pOSHook = nil
				fired = true
				close(done)
				twelve := map[*litefs.RWMutex]bool{} // the SQLite locks of every node's database: the pin's mutex is none of them
				for _, n := range []*lab.Node{P, R, w.R2} {
					for _, l := range litefs.VerifLockTypes {
						twelve[n.DB("db").VerifMutex(l)] = true
					}
				}
				hit := false
				litefs.VerifSetHook(func(site string, obj any, a int64, b bool) {
					g, ok := obj.(*litefs.RWMutexGuard)
					if hit || site != "rw.tryrlock" || !ok || twelve[g.VerifMutex()] || P.DB("db").VerifHaltLockID() == 0 {
						return
					}
					hit = true
					P.DB("db").ReleaseHaltLock(context.Background(), P.DB("db").VerifHaltLockID())
					releasedBeforeRename = true
				})
				defer litefs.VerifSetHook(nil)
			}
			before := posOf(P)
			ok, terr, step := w.txOn(R, 3, []uint32{2})
			pOSHook = nil
			litefs.VerifSetHook(nil)
			if !fired {
				res.Harness = "the forwarded file never reached the primary's log directory"
				return
			}
			select {
			case <-done:
			case <-time.After(60 * time.Second):
				viol("C13/release-hangs", "a release issued while a forwarded transaction was in flight did not return within 60 s after that transaction ended")
				return
			}
			_ = w.release()
			lab.Settle(2 * time.Second)
			// one finding, one key: what went wrong is listed in the text
			var wrong []string
			if ok && releasedBeforeRename {
				wrong = append(wrong, fmt.Sprintf("the holder's commit was acknowledged although the lock had been released before its file entered the primary's log (primary %s -> %s)", before, posOf(P)))
			}
			if codes := P.ExitCodes(); len(codes) > 0 {
				wrong = append(wrong, fmt.Sprintf("the primary called Store.Exit(%v)", codes))
			}
			if ok && wCommitted && uint64(posOf(P).TXID) != uint64(before.TXID)+2 {
				wrong = append(wrong, fmt.Sprintf("the holder's commit and a local commit were both acknowledged but the primary moved from %s to %s", before, posOf(P)))
			}
			want := w.img
			if wCommitted {
				want = imgW
			}
			if len(wrong) == 0 {
				if _, fs := mon.CheckDB(P, "db", want); len(fs) > 0 {
					for _, f := range fs {
						wrong = append(wrong, "primary: "+f.What)
					}
				}
			}
			if len(wrong) > 0 {
				viol(fmt.Sprintf("C13/forwarded-tx-after-release/v%d", c.Variant), "the halt lock was released while POST /tx was between its lock check and the rename of the forwarded file (released before the rename: %v; local writer committed: %v; holder's commit: ok=%v err=%v at %q):\n  %s", releasedBeforeRename, wCommitted, ok, terr, step, strings.Join(wrong, "\n  "))
				res.Class = "release-during-forwarded-apply-broken"
				return
			}
			w.img = want
			if okP, err, st := w.txOn(P, 20, []uint32{3}); !okP {
				viol("C13/writer-after-release", "after the release a local transaction on the primary failed at %q: %v", st, err)
			}
			w.checkAll("release-during-forwarded-apply")
			res.Class = fmt.Sprintf("release-during-forwarded-apply holder-ok=%v writer=%v released-first=%v", ok, wCommitted, releasedBeforeRename)
		case "halt-over-hot-journal":
			// An application on the primary died in the middle of a rollback-journal transaction: its locks are gone, its
			// journal and the pages it had already overwritten are still there. Then a replica asks for the halt lock. The
			// grant includes a recovery: the holder starts from the committed image, and nothing of the dead transaction
			// can come back later over what the holder commits.
			if w.wal {
				res.Class = "n/a"
				return
			}
			{
				dead := pager.NewConn(P.M, "db", 91, ps)
				func() {
					defer func() {
						if p := recover(); p != nil {
							if _, ok := p.(pager.Abort); !ok {
								panic(p)
							}
						}
					}()
					wrote := false
					dead.Before = func(step int, desc string) {
						if wrote {
							panic(pager.Abort{Step: step})
						}
						if strings.HasPrefix(desc, "db write page") {
							wrote = true
						}
					}
					dead.RunRTx(pager.RTx{Mods: []uint32{2, 3}, SpillAfter: []int{1}, Final: "DELETE", Outcome: "commit"}, w.img)
				}()
				dead.Before = nil
				dead.Close()
				if !P.M.Exists("db-journal") {
					res.Harness = "no hot journal"
					return
				}
			}
			if err := w.acquire(); err != nil {
				viol("C13/acquire-failed", "acquiring the halt lock failed: %v", err)
				return
			}
			if _, err := os.Stat(P.DB("db").JournalPath()); err == nil {
				viol("C13/hot-journal-survives-grant", "the halt lock was granted while a dead application's rollback journal still lies next to the primary's database")
			}
			if _, fs := mon.CheckDB(P, "db", w.img); len(fs) > 0 {
				viol("C13/primary-image-at-grant", "at the grant the primary's database is not the image of the granted position: %s", fs[0].What)
			}
			if ok, err, step := w.txOn(R, 3, []uint32{2, 3}); !ok {
				viol("C13/forwarded-commit-failed", "the holder's commit failed at %q: %v", step, err)
				return
			}
			if pp, rp := posOf(P), posOf(R); pp != rp {
				viol("C13/ack-before-apply", "the holder's commit returned with R=%s while the primary is at %s", rp, pp)
			}
			if err := w.release(); err != nil {
				viol("C13/release-failed", "releasing the halt lock failed: %v", err)
			}
			// whatever recovers next on the primary (a reader, an export, a role change) must find nothing to roll back
			if err := P.Store.Recover(context.Background()); err != nil {
				viol("C13/recover-after-release", "Store.Recover on the primary after the release: %v", err)
			}
			w.checkAll("halt-over-hot-journal")
			res.Class = "halt-over-hot-journal-ok"
		case "release-during-commit":
			// The application that owns the halt lock gives it back (another file handle, or the "litefs run
			// -with-halt-lock-on" child exiting) while a second connection on the same node is in the middle of a
			// transaction. Whatever that connection gets acknowledged was forwarded to the primary first; what the
			// primary does not have, the replica does not have either.
			// Variant 0: the release arrives at the transaction's first write; 1: right before its commit step; 2: in the
			// middle of LiteFS's handling of the commit step (its first file-system mutation there).
			if err := w.acquire(); err != nil {
				viol("C13/acquire-failed", "acquiring the halt lock failed: %v", err)
				return
			}
			done := make(chan error, 1)
			fired, wrote := false, false
			w.before = func(step int, desc string) {
				if fired {
					return
				}
				isWrite := strings.HasPrefix(desc, "db write page") || strings.HasPrefix(desc, "wal write")
				hit := false
				if c.Variant == 0 {
					hit = isWrite
				} else {
					hit = wrote && (desc == "unlink journal" || strings.HasPrefix(desc, "unlock shm"))
				}
				wrote = wrote || isWrite
				if !hit {
					return
				}
				fired = true
				go func() { done <- w.release() }()
				synctest.Wait() // the release runs until it has to wait for the transaction's locks
			}
			if c.Variant == 2 {
				// inside LiteFS's own commit: after it decided that the node may write, before the transaction file exists
				w.before = nil
				r1OSHook = func(op, call, name string) {
					if fired || !(strings.HasPrefix(op, "COMMITJOURNAL:") || strings.HasPrefix(op, "COMMITWAL:")) {
						return
					}
					fired = true
					go func() { done <- w.release() }()
					synctest.Wait()
				}
				defer func() { r1OSHook = nil }()
			}
			ok, terr, step := w.txOn(R, 3, []uint32{2, 3})
			w.before = nil
			r1OSHook = nil
			if !fired {
				res.Harness = "the release was never injected"
				return
			}
			var relErr error
			select {
			case relErr = <-done:
			case <-time.After(30 * time.Second):
				viol("C13/release-hangs", "the release issued during a transaction did not return within 30 s after the transaction ended")
				return
			}
			lab.Settle(500 * time.Millisecond)
			if pp, rp := posOf(P), posOf(R); ok && pp != rp {
				viol("C13/ack-before-apply", "a commit on the halt holder was acknowledged while the lock was being released: R=%s but the primary is at %s (release returned %v)", rp, pp, relErr)
			} else if !ok && pp != rp {
				viol("C13/holder-diverged", "a commit on the halt holder failed at %q (%v) while the lock was being released, yet R=%s and the primary is at %s", step, terr, rp, pp)
			}
			if P.DB("db").VerifHaltLockID() != 0 && relErr == nil {
				viol("C13/halt-survives-release", "the primary still holds the halt lock after a release that reported success")
			}
			lab.Settle(10 * time.Second)
			if okP, err, st := w.txOn(P, 20, []uint32{3}); !okP {
				viol("C13/writer-after-release", "after the release a local transaction on the primary failed at %q: %v", st, err)
			}
			w.checkAll("release-during-commit")
			res.Class = fmt.Sprintf("release-during-commit committed=%v release-error=%v", ok, relErr != nil)
		case "primary-change":
			// The primary changes while R1 holds the halt lock (Variant%2: 0 = Demote, 1 = hand-off to R2), and R1 commits
			// Variant/2: 0 = at once, 1 = after the new primary is up. Whatever happens to that commit, if the application
			// was told it succeeded the transaction must be in the one history every node ends with.
			R2 := w.R2
			if err := w.acquire(); err != nil {
				viol("C13/acquire-failed", "acquiring the halt lock failed: %v", err)
				return
			}
			if c.Variant%2 == 0 {
				P.Store.Demote()
			} else if err := P.Store.Handoff(context.Background(), R2.Store.ID()); err != nil {
				res.Harness = "handoff refused: " + err.Error()
				return
			}
			if c.Variant/2 == 1 {
				if !lab.WaitFor(40*time.Second, R2.Store.IsPrimary) {
					viol("C13/no-new-primary", "R2 did not become primary within 40 fake seconds of the %s", []string{"demotion", "hand-off"}[c.Variant%2])
					return
				}
				lab.Settle(2 * time.Second)
			}
			imgBefore := w.img
			// If the granting node is still the primary when the commit starts, it applies the transaction as the primary;
			// losing it in the fail-over that follows is LiteFS's asynchronous replication, not this property's business.
			grantorStillPrimary := P.Store.IsPrimary()
			ok, terr, step := w.txOn(R, 3, []uint32{2, 3})
			imgAfter := w.img
			_ = step
			_ = w.release()
			exited := false
			if len(R.ExitCodes()) > 0 {
				exited = true
				// a WAL commit refused in its final phase ends the process by design (it cannot be reported to SQLite): the
				// application does not get to use that "success"
				if err := R.RestartFromExitImage(); err != nil {
					viol("C13/restart-after-refused-commit", "the halt holder does not restart after its refused commit: %v", err)
					return
				}
			}
			if w.cl.WaitPrimary(60*time.Second) == nil {
				viol("C13/no-single-primary/primary-change", "primaries after the change: %v", w.cl.Primaries())
				return
			}
			// the old primary's halt lock runs out (8 s here), demotion delay, reconnects
			lab.Settle(20 * time.Second)
			if okc, why := w.cl.WaitConverged(40*time.Second, nil); !okc {
				viol("C13/no-convergence/primary-change", "after the primary change: %s", why)
				return
			}
			res.Class = fmt.Sprintf("primary-change commit=%v err=%v", ok, terr != nil)
			if exited {
				res.Class += " holder-exited"
			}
			final := imgBefore
			if li, e := oracle.ReadLogicalImage(w.cl.Primary().DB("db").Path(), ps); e == nil {
				if eq, _ := li.Equal(imgAfter); eq {
					final = imgAfter
				}
			}
			res.Class += fmt.Sprintf(" grantor-primary-at-commit=%v in-final-history=%v", grantorStillPrimary, final == imgAfter)
			if ok && !exited && !grantorStillPrimary && final != imgAfter {
				viol("C13/acknowledged-commit-lost/primary-change", "the halt holder's commit returned success to the application, but the history every node converged to does not contain it (primary now %s at %s)", w.cl.Primary().Cfg.Name, posOf(w.cl.Primary()))
			}
			w.img = final
			w.checkAll("primary-change")
			// the new primary writes; everybody follows
			if okw, err, st := w.txOn(w.cl.Primary(), 30, []uint32{3}); !okw {
				viol("C13/writer-after-primary-change", "the new primary cannot write: %v at %s", err, st)
			}
			w.checkAll("primary-change-follow-up")
		case "stale-forward":
			// The holder has not noticed the primary change: it forwards its transaction to the node that granted the
			// lock, which is no longer the primary (Variant%2: 0 = demoted, 1 = handed the lease to R2) but still has
			// the lock on its books. That node must refuse; accepting would acknowledge a transaction that no primary has.
			R2 := w.R2
			cli := lfshttp.NewClient()
			cli.HTTPClient = &http.Client{Transport: w.cl.Net.Transport("R1")}
			ctx := context.Background()
			if _, err := cli.AcquireHaltLock(ctx, "http://P", R.Store.ID(), "db", 4242); err != nil {
				res.Harness = "halt: " + err.Error()
				return
			}
			if c.Variant%2 == 0 {
				P.Store.Demote()
			} else if err := P.Store.Handoff(ctx, R2.Store.ID()); err != nil {
				res.Harness = "handoff refused: " + err.Error()
				return
			}
			if !lab.WaitFor(40*time.Second, func() bool { return R2.Store.IsPrimary() && !P.Store.IsPrimary() }) {
				viol("C13/no-new-primary", "R2 did not become primary within 40 fake seconds")
				return
			}
			held := P.DB("db").VerifHaltLockID()
			cur := posOf(P)
			next := w.img.Clone()
			next.Pages[1] = pager.MakePage(ps, 2, 0xF00)
			var buf bytes.Buffer
			enc := ltx.NewEncoder(&buf)
			_ = enc.EncodeHeader(ltx.Header{Version: 1, PageSize: ps, Commit: next.N(), MinTXID: cur.TXID + 1, MaxTXID: cur.TXID + 1, Timestamp: 5, PreApplyChecksum: cur.PostApplyChecksum, NodeID: R.Store.ID()})
			_ = enc.EncodePage(ltx.PageHeader{Pgno: 2}, next.Pages[1])
			enc.SetPostApplyChecksum(ltx.Checksum(next.Checksum()))
			_ = enc.Close()
			err := cli.Commit(ctx, "http://P", R.Store.ID(), "db", 4242, bytes.NewReader(buf.Bytes()))
			res.Class = fmt.Sprintf("stale-forward lock-still-on-books=%v accepted=%v", held == 4242, err == nil)
			_ = cli.ReleaseHaltLock(ctx, "http://P", R.Store.ID(), "db", 4242)
			lab.Settle(20 * time.Second)
			if okc, why := w.cl.WaitConverged(40*time.Second, nil); !okc {
				viol("C13/no-convergence/stale-forward", "after the stale forward: %s", why)
				return
			}
			if err == nil {
				if li, e := oracle.ReadLogicalImage(w.cl.Primary().DB("db").Path(), ps); e != nil || !func() bool { eq, _ := li.Equal(next); return eq }() {
					viol("C13/forward-accepted-by-non-primary", "POST /tx with the lock id was answered with success by %s after it stopped being the primary (lock still on its books: %v); the transaction is not in the history the cluster converged to (primary %s at %s)", P.Cfg.Name, held == 4242, w.cl.Primary().Cfg.Name, posOf(w.cl.Primary()))
				} else {
					w.img = next
				}
			}
			w.checkAll("stale-forward")
		case "dup-acquire":
			// Two acquire requests with the same lock ID are in flight at once (an interrupted FUSE call is retried
			// while the first request is still waiting), with a local writer on the primary holding its write locks
			// for Variant%3 = 0: before both arrive, 1: between them, 2: not at all. Both must get the same lock.
			hold := make(chan struct{})
			parked := make(chan struct{})
			writerDone := make(chan struct{})
			go func() {
				defer close(writerDone)
				if c.Variant%3 == 2 {
					close(parked)
					return
				}
				w.own++
				wc := pager.NewConn(P.M, "db", 100+w.own, ps)
				defer wc.Close()
				once := false
				wc.Before = func(step int, desc string) {
					// park once the write transaction holds its locks and is about to publish
					if !once && (desc == "unlink journal" || strings.HasPrefix(desc, "wal write frame")) {
						once = true
						close(parked)
						<-hold
					}
				}
				if w.wal {
					r := wc.RunWTx(pager.WTx{Frames: []uint32{1, 2}, Outcome: "commit"}, w.img)
					if r.Committed {
						w.img = r.Intended
					}
				} else {
					r := wc.RunRTx(pager.RTx{Mods: []uint32{2}, Final: "DELETE", Outcome: "commit"}, w.img)
					if r.Committed {
						w.img = r.Intended
					}
				}
			}()
			<-parked
			cli := lfshttp.NewClient()
			cli.HTTPClient = &http.Client{Transport: w.cl.Net.Transport("R1")}
			type ans struct {
				l   *litefs.HaltLock
				err error
			}
			results := make(chan ans, 2)
			ask := func() {
				l, err := cli.AcquireHaltLock(context.Background(), "http://P", R.Store.ID(), "db", 4242)
				results <- ans{l, err}
			}
			go ask()
			lab.Settle(300 * time.Millisecond)
			if c.Variant%3 == 1 {
				close(hold)
				lab.Settle(1 * time.Millisecond)
			}
			go ask()
			lab.Settle(300 * time.Millisecond)
			if c.Variant%3 != 1 {
				close(hold)
			}
			<-writerDone
			var got []ans
			lab.WaitFor(10*time.Second, func() bool {
				for len(results) > 0 {
					got = append(got, <-results)
				}
				return len(got) == 2
			})
			if len(got) != 2 {
				viol("C13/dup-acquire-no-answer", "only %d of two acquire requests with the same lock ID were answered within 10 fake seconds (acquire timeout 3 s)", len(got))
				return
			}
			for i, a := range got {
				if a.err != nil {
					viol("C13/dup-acquire-refused", "acquire request %d for lock ID 4242 failed although the lock was granted for that ID: %v (other answer: %+v)", i, a.err, got[1-i])
					return
				}
			}
			if got[0].l.ID != got[1].l.ID || got[0].l.Pos != got[1].l.Pos {
				viol("C13/dup-acquire-different-locks", "two acquire requests with the same ID returned different locks: %+v vs %+v", got[0].l, got[1].l)
			}
			if id := P.DB("db").VerifHaltLockID(); id != 4242 {
				viol("C13/dup-acquire-not-held", "after both answers the primary's halt lock is %d", id)
			}
			if ok, _, _ := w.txOn(P, 3, []uint32{3}); ok {
				viol("C13/local-commit-while-halted", "a local transaction committed on the primary while the halt lock is held")
			}
			if err := cli.ReleaseHaltLock(context.Background(), "http://P", R.Store.ID(), "db", 4242); err != nil {
				viol("C13/release-failed", "release: %v", err)
			}
			lab.Settle(500 * time.Millisecond)
			if ok, err, step := w.txOn(P, 30, []uint32{3}); !ok {
				viol("C13/writer-after-release", "after release the primary cannot write: %v at %s", err, step)
			}
			w.checkAll("dup-acquire")
			res.Class = fmt.Sprintf("dup-ok-variant-%d", c.Variant%3)
		case "tx-matrix":
			// (7) POST /tx is accepted only from the current holder of the halt lock.
			lockState := []string{"none-held", "held", "released"}[c.Variant%3]
			idKind := []string{"current", "wrong", "zero"}[(c.Variant/3)%3]
			nodeKind := []string{"holder", "other"}[(c.Variant/9)%2]
			cl := lfshttp.NewClient()
			cl.HTTPClient = &http.Client{Transport: w.cl.Net.Transport("client")}
			ctx := context.Background()
			const heldID = 4242
			if lockState != "none-held" {
				if _, err := cl.AcquireHaltLock(ctx, "http://P", R.Store.ID(), "db", heldID); err != nil {
					res.Harness = "halt: " + err.Error()
					return
				}
				if lockState == "released" {
					_ = cl.ReleaseHaltLock(ctx, "http://P", R.Store.ID(), "db", heldID)
				}
			}
			id := int64(heldID)
			switch idKind {
			case "wrong":
				id = 999
			case "zero":
				id = 0
			}
			node := R.Store.ID()
			if nodeKind == "other" {
				node = w.R2.Store.ID()
			}
			// a well-formed file that extends the primary's position exactly
			cur := posOf(P)
			next := w.img.Clone()
			next.Pages[1] = pager.MakePage(ps, 2, 0xF00)
			var buf bytes.Buffer
			enc := ltx.NewEncoder(&buf)
			_ = enc.EncodeHeader(ltx.Header{Version: 1, PageSize: ps, Commit: next.N(), MinTXID: cur.TXID + 1, MaxTXID: cur.TXID + 1, Timestamp: 5, PreApplyChecksum: cur.PostApplyChecksum, NodeID: node})
			_ = enc.EncodePage(ltx.PageHeader{Pgno: 2}, next.Pages[1])
			enc.SetPostApplyChecksum(ltx.Checksum(next.Checksum()))
			_ = enc.Close()
			err := cl.Commit(ctx, "http://P", node, "db", id, bytes.NewReader(buf.Bytes()))
			lab.Settle(300 * time.Millisecond)
			mustAccept := lockState == "held" && idKind == "current"
			moved := posOf(P) != cur
			res.Class = fmt.Sprintf("%s/%s/%s accepted=%v", lockState, idKind, nodeKind, err == nil)
			if mustAccept && (err != nil || !moved) {
				viol("C13/tx-holder-rejected", "POST /tx from the current holder with the current lock ID was rejected: %v", err)
			}
			if !mustAccept && (err == nil || moved) {
				viol("C13/tx-accepted-without-lock/"+lockState+"/"+idKind, "POST /tx was accepted (err=%v, primary %s -> %s) although the caller does not hold the halt lock: lock state %q, lock ID in the request %q, caller node %q", err, cur, posOf(P), lockState, idKind, nodeKind)
			}
		}
	})
	return res
}

// ---------------------------------------------------------------------------
// Part B: schedules.

type BCfg struct {
	WAL    bool `json:"wal"`
	Expiry bool `json:"expiry"`
	Reader bool `json:"reader"` // a reading connection on the replica delays the replica's applies
}

func harnessB(cfgJSON json.RawMessage) sched.Harness {
	var cfg BCfg
	_ = json.Unmarshal(cfgJSON, &cfg)
	return func(t *testing.T, e *sched.Exec, prefix []int) (obs string, viols []sched.Violation) {
		viol := func(key, format string, args ...any) {
			for _, x := range viols {
				if x.Key == key {
					return
				}
			}
			viols = append(viols, sched.Violation{Key: key, What: fmt.Sprintf(format, args...)})
		}
		ttl := time.Duration(0)
		if cfg.Expiry {
			ttl = time.Millisecond
		}
		w, herr := newWorld(cfg.WAL, viol, e.Spawner(), ttl)
		defer w.close()
		if herr != "" {
			return "harness-error:" + herr, nil
		}
		P, R := w.P, w.R
		var aRes, wRes string
		imgA := w.img
		e.Go("A", func(th *sched.Thread) {
			if err := w.acquire(); err != nil {
				aRes = "acquire-failed"
				return
			}
			if posOf(R) != posOf(P) && P.DB("db").VerifHaltLockID() != 0 {
				viol("C13/start-position", "the replica starts writing at %s but the primary is at %s", posOf(R), posOf(P))
			}
			c := pager.NewConn(R.M, "db", 301, ps)
			defer c.Close()
			// The application works on whatever is committed at the position it was granted the lock at.
			var rerr error
			if cfg.WAL {
				imgA, rerr = c.ReadImageWAL()
			} else {
				imgA, rerr = c.ReadImage()
			}
			if rerr != nil {
				aRes = "read-failed"
				_ = w.release()
				return
			}
			var ok bool
			var next *oracle.Image
			if cfg.WAL {
				r := c.RunWTx(pager.WTx{Frames: []uint32{1, 2}, Outcome: "commit"}, imgA)
				ok, next = r.Committed, r.Intended
			} else {
				r := c.RunRTx(pager.RTx{Mods: []uint32{2}, Final: "DELETE", Outcome: "commit"}, imgA)
				ok, next = r.Committed, r.Intended
			}
			if ok {
				if posOf(P) != posOf(R) {
					viol("C13/ack-before-apply", "the replica's commit returned with R=%s while the primary is at %s", posOf(R), posOf(P))
				}
				imgA = next
				aRes = "committed"
			} else {
				aRes = "refused"
			}
			_ = w.release()
		})
		e.Go("W", func(th *sched.Thread) {
			c := pager.NewConn(P.M, "db", 302, ps)
			tries := 0
			c.Busy = func() bool { tries++; time.Sleep(400 * time.Microsecond); return tries < 6 }
			defer c.Close()
			base, e1 := oracle.ReadLogicalImage(P.DB("db").Path(), ps)
			if e1 != nil {
				wRes = "unreadable"
				return
			}
			_ = base
			// The writer works on whatever is committed when it gets the lock: the simulator needs the image, which
			// it reads back through the mount under its SHARED lock.
			cur, err := c.ReadImage()
			if cfg.WAL {
				cur, err = c.ReadImageWAL()
			}
			if err != nil {
				wRes = "busy"
				return
			}
			halted := P.DB("db").VerifHaltLockID() != 0
			var ok bool
			if cfg.WAL {
				r := c.RunWTx(pager.WTx{Frames: []uint32{3}, Outcome: "commit"}, cur)
				ok = r.Committed
			} else {
				r := c.RunRTx(pager.RTx{Mods: []uint32{3}, Final: "DELETE", Outcome: "commit"}, cur)
				ok = r.Committed
			}
			if ok {
				wRes = "committed"
				if halted && P.DB("db").VerifHaltLockID() != 0 && !cfg.Expiry {
					viol("C13/local-commit-while-halted", "a local transaction committed on the primary between grant and release of the halt lock")
				}
			} else {
				wRes = "busy"
			}
		})
		if cfg.Reader {
			e.Go("Rd", func(th *sched.Thread) {
				c := pager.NewConn(R.M, "db", 303, ps)
				defer c.Close()
				c.Before = func(step int, desc string) {
					if strings.HasPrefix(desc, "read db page") {
						th.Point(desc) // holds its SHARED lock across scheduling points
					}
				}
				if cfg.WAL {
					_, _ = c.ReadImageWAL()
				} else {
					_, _ = c.ReadImage()
				}
			})
		}
		if cfg.Expiry {
			e.Go("X", func(th *sched.Thread) {
				th.Point("before-expiry")
				// Expiry clears the lock and unlocks its guards exactly as a release by ID does; the fake clock does not
				// move while threads are runnable, so the expiry is injected as that state change.
				if id := P.DB("db").VerifHaltLockID(); id != 0 {
					P.DB("db").ReleaseHaltLock(context.Background(), id)
				}
			})
		}
		// Monitor inside every page write LiteFS performs on the primary on its own (the apply of a forwarded
		// transaction): the write set must be held exclusively at that moment - by the halt lock's guard set.
		pdb := P.DB("db")
		e.Observer = func(site string, obj any, a int64, internal bool) {
			d, ok := obj.(*litefs.DB)
			if !ok || d != pdb || site != "db.writepage" || !internal {
				return
			}
			need := []litefs.LockType{litefs.LockTypePending, litefs.LockTypeShared, litefs.LockTypeReserved}
			if d.Mode() == litefs.DBModeWAL {
				need = []litefs.LockType{litefs.LockTypeWrite, litefs.LockTypeCkpt, litefs.LockTypeRecover}
			}
			for _, l := range need {
				if _, ex := d.VerifMutex(l).VerifDump(); ex == nil {
					viol("C13/forwarded-apply-without-lock/"+l.String(), "the primary writes page %d of a forwarded transaction while nobody holds %s exclusively (the halt lock was released or expired between the handler's check and its apply)", a, l)
				}
			}
		}
		e.Run(prefix)
		if e.Aborted() {
			return "aborted", viols
		}
		// Everything must converge to one history and every node must hold exactly the primary's image.
		if ok, why := w.cl.WaitConverged(40*time.Second, nil); !ok {
			viol("C13/no-convergence", "after A=%s W=%s the cluster did not converge: %s (exits P=%v R1=%v)", aRes, wRes, why, P.ExitCodes(), R.ExitCodes())
			return aRes + "/" + wRes, viols
		}
		pi, err := oracle.ReadLogicalImage(P.DB("db").Path(), ps)
		if err == nil {
			for _, n := range []*lab.Node{P, R, w.R2} {
				_, fs := mon.CheckDB(n, "db", pi)
				for _, f := range fs {
					viol("C13/"+f.Prop+"-"+f.Key, "after A=%s W=%s: %s", aRes, wRes, f.What)
				}
				if codes := n.ExitCodes(); len(codes) > 0 {
					viol("C13/exit", "%s called Store.Exit(%v) (A=%s W=%s)", n.Cfg.Name, codes, aRes, wRes)
				}
			}
		}
		if len(w.cl.Net.Panics) > 0 {
			viol("C20/handler-panic", "handler panicked: %s", w.cl.Net.Panics[0])
		}
		return aRes + "/" + wRes, viols
	}
}

func TestCheck(t *testing.T) {
	reg := sched.Registry{"c13b": harnessB}
	if vlib.IsWorker() {
		vlib.Serve(func(in json.RawMessage) any {
			var probe struct {
				Scenario string `json:"scenario"`
			}
			if json.Unmarshal(in, &probe) == nil && probe.Scenario != "" {
				var c Case
				_ = json.Unmarshal(in, &c)
				return run1(t, c)
			}
			var j sched.Job
			if err := json.Unmarshal(in, &j); err != nil {
				return sched.JobResult{Harness: "bad job"}
			}
			var st sched.Stats
			sched.Explore(t, reg[j.Harness](j.Config), j.Prefix, j.Bound, time.Duration(j.Budget)*time.Second, j.MaxExec, &st)
			return sched.ToResult(&st)
		})
	}
	run := vlib.Start("C13", "exploration")
	_ = os.Getenv
	var cases []Case
	for _, wal := range []bool{false, true} {
		cases = append(cases, Case{Scenario: "basic", WAL: wal, Variant: 0}, Case{Scenario: "basic", WAL: wal, Variant: 1},
			Case{Scenario: "expiry", WAL: wal}, Case{Scenario: "expiry-then-commit", WAL: wal},
			Case{Scenario: "primary-change", WAL: wal, Variant: 0}, Case{Scenario: "primary-change", WAL: wal, Variant: 1}, Case{Scenario: "primary-change", WAL: wal, Variant: 2}, Case{Scenario: "primary-change", WAL: wal, Variant: 3},
			Case{Scenario: "stale-forward", WAL: wal, Variant: 0}, Case{Scenario: "stale-forward", WAL: wal, Variant: 1},
			Case{Scenario: "dup-acquire", WAL: wal, Variant: 0}, Case{Scenario: "dup-acquire", WAL: wal, Variant: 1}, Case{Scenario: "dup-acquire", WAL: wal, Variant: 2})
		for v := 0; v < 3; v++ {
			cases = append(cases, Case{Scenario: "lost-replies", WAL: wal, Variant: v})
		}
		cases = append(cases, Case{Scenario: "lagging-acquire", WAL: wal, Variant: 0}, Case{Scenario: "lagging-acquire", WAL: wal, Variant: 1},
			Case{Scenario: "acquire-timeout", WAL: wal}, Case{Scenario: "expiry-snapshot", WAL: wal}, Case{Scenario: "holder-promoted", WAL: wal},
			Case{Scenario: "halt-over-hot-journal", WAL: wal}, Case{Scenario: "expiry-after-holder-commit", WAL: wal}, Case{Scenario: "holder-leaves-wal", WAL: wal},
			Case{Scenario: "release-during-forwarded-apply", WAL: wal, Variant: 0}, Case{Scenario: "release-during-forwarded-apply", WAL: wal, Variant: 1},
			Case{Scenario: "release-during-forwarded-apply", WAL: wal, Variant: 2}, Case{Scenario: "release-during-forwarded-apply", WAL: wal, Variant: 3},
			Case{Scenario: "release-during-commit", WAL: wal, Variant: 0}, Case{Scenario: "release-during-commit", WAL: wal, Variant: 1}, Case{Scenario: "release-during-commit", WAL: wal, Variant: 2})
		for v := 0; v < 18; v++ {
			cases = append(cases, Case{Scenario: "tx-matrix", WAL: wal, Variant: v})
		}
	}
	pool := vlib.NewPool()
	pool.CaseTimeout = 5 * time.Minute
	if !run.Thorough() {
		pool.CaseTimeout = time.Minute // a quick case takes seconds; one that hangs is run again alone with four times this
	}
	defer pool.Close()
	anyCases := make([]any, len(cases))
	for i := range cases {
		anyCases[i] = cases[i]
	}
	classes := map[string]bool{}
	pool.Run(anyCases, func(i int, out json.RawMessage, crash *vlib.Crash, flaky bool) {
		if flaky {
			run.HarnessError("case crashed once and passed on re-run: %+v", cases[i])
		}
		if crash != nil {
			run.Violation("crash/"+cases[i].Scenario, fmt.Sprintf("worker died twice on %+v (timeout=%v)\n%s", cases[i], crash.Timeout, tail(crash.Output, 2500)), map[string]any{"case": cases[i]})
			return
		}
		var r Result
		if err := json.Unmarshal(out, &r); err != nil {
			run.HarnessError("bad result: %v", err)
			return
		}
		if r.Harness != "" {
			run.HarnessError("%s (case %+v)", r.Harness, cases[i])
		}
		for _, v := range r.V {
			run.Violation(v.Key, v.What, map[string]any{"case": cases[i]})
		}
		classes[cases[i].Scenario+":"+r.Class] = true
	})
	bound := 2
	if run.Thorough() {
		bound = 3
	}
	evals := len(cases)
	var bInfo []any
	for _, cfg := range []BCfg{{WAL: false}, {WAL: true}, {WAL: false, Expiry: true}, {WAL: false, Reader: true}} {
		var tot sched.Totals
		sched.Distributed(t, run, pool, reg, "c13b", cfg, bound, 2, 10*time.Minute, &tot)
		evals += tot.Executions
		for k := range tot.Outcomes {
			classes[fmt.Sprintf("sched/%v/%v:%s", cfg.WAL, cfg.Expiry, k)] = true
			if strings.HasPrefix(k, "harness-error") {
				run.HarnessError("%+v: %s", cfg, k)
			}
		}
		bInfo = append(bInfo, map[string]any{"config": cfg, "schedules": tot.Executions, "outcomes": tot.Outcomes, "max_points": tot.MaxPoints, "capped": tot.Capped, "deadlocks": tot.Deadlocks})
	}
	var cl []string
	for k := range classes {
		cl = append(cl, k)
	}
	cov := map[string]any{
		"evaluations":         evals,
		"distinct_nontrivial": len(classes),
		"sequence_scenarios":  len(cases),
		"preemption_bound":    bound,
		"schedule_part":       bInfo,
		"outcome_classes":     cl,
		"exhaustive":          true,
		"samples":             []any{cases[0], cases[len(cases)-1], bInfo},
		"rule":                "Part A: every scenario of the list {basic x repeat-acquire, two concurrent acquires with one ID x position of a local writer, expiry, expiry-then-commit, lost reply of /halt | /tx | DELETE /halt, POST /tx caller matrix lock state x lock ID x node ID} x journal mode, each on a fresh 3-node cluster. Part B: every schedule up to the preemption bound of the application on the replica, a local writer on the primary and (optionally) the lock's expiry. distinct_nontrivial = distinct (scenario or harness, outcome) classes.",
	}
	run.Finish(cov, []string{
		"The halt lock is taken through the real LockHandle of package litefs/fuse; SQLite and the kernel are simulated as in C01.",
		"Primary change while a halt is held is not enumerated.",
		"Expiry racing a WAL-mode forwarded commit at lock granularity is not explored: a refused WAL commit stops the node by design (Store.Exit) and a process death in the middle of a schedule is not emulated; the sequential WAL expiry scenarios (with an explicit restart) are in Part A.",
	})
}

func tail(s string, n int) string {
	if len(s) > n {
		return s[len(s)-n:]
	}
	return s
}
