// C15 part B: the deletion racing a write transaction on the primary.
//
// Two threads on the primary's mount - an application transaction (A) and unlink(2) of the database (D) - under
// every schedule up to the preemption bound; a replica is connected. Whatever the order, afterwards the log of the
// primary is one chain that ends at its position, the position's checksum is the checksum of the files, the
// deletion (if it was accepted) is the newest transaction and advanced the position current at that moment by one,
// and the replica reaches the same position with the same content.
package c15

import (
	"encoding/json"
	"fmt"
	"strings"
	"testing"
	"time"

	"github.com/superfly/litefs"
	"verif/lab"
	"verif/mon"
	"verif/oracle"
	"verif/pager"
	"verif/sched"
)

type RaceCfg struct {
	WAL bool `json:"wal"`
}

func raceHarness(cfgJSON json.RawMessage) sched.Harness {
	var cfg RaceCfg
	_ = json.Unmarshal(cfgJSON, &cfg)
	return func(t *testing.T, e *sched.Exec, prefix []int) (obs string, viol []sched.Violation) {
		v := func(key, format string, args ...any) {
			for _, x := range viol {
				if x.Key == key {
					return
				}
			}
			viol = append(viol, sched.Violation{Key: key, What: fmt.Sprintf(format, args...)})
		}
		const ps = 512
		cl := lab.NewCluster(10 * time.Second)
		defer cl.Close()
		cl.Net.Spawn = e.Spawner()
		// stale: the deletion took effect while the application had the files open without being inside a transaction; what
		// the connection does afterwards goes through handles of files that no longer exist (SQLite gives no guarantee
		// for a database deleted under an open connection): not claimed.
		var aStarted, aFinished, stale, dropBegan bool
		var P *lab.Node
		cl.AddNode("P", true, func(nc *lab.NodeConfig) {
			nc.WrapOS = func(inner litefs.OS) litefs.OS {
				return &lab.HookOS{Inner: inner, Before: func(op, call, name string) error {
					if dropBegan || !strings.HasPrefix(op, "DROP:") {
						return nil
					}
					// the deletion holds its locks and is about to write the tombstone
					dropBegan = true
					if gs := P.DB("db").GuardSet(21); gs != nil {
						for _, l := range []litefs.LockType{litefs.LockTypePending, litefs.LockTypeShared, litefs.LockTypeReserved, litefs.LockTypeWrite, litefs.LockTypeCkpt, litefs.LockTypeRecover,
							litefs.LockTypeRead0, litefs.LockTypeRead1, litefs.LockTypeRead2, litefs.LockTypeRead3, litefs.LockTypeRead4} {
							if st := gs.Guard(l).State(); st != litefs.RWMutexStateUnlocked {
								v("C15/race/dropped-under-transaction", "the deletion proceeds while the application connection holds %s (%s)", l, st)
							}
						}
					}
					stale = aStarted && !aFinished
					return nil
				}}
			}
		})
		cl.AddNode("R1", false, nil)
		if err := cl.Start("P"); err != nil || cl.WaitPrimary(5*time.Second) == nil {
			return "harness-error:start", nil
		}
		if err := cl.Start("R1"); err != nil {
			return "harness-error:startR", nil
		}
		R := cl.Nodes["R1"]
		P = cl.Nodes["P"]
		c := pager.NewConn(P.M, "db", 9, ps)
		r := c.RunRTx(pager.RTx{Create: true, NewSize: 4, Final: "DELETE", Outcome: "commit"}, nil)
		if r.Err == nil {
			lab.Settle(200 * time.Millisecond)
			r = c.RunRTx(pager.RTx{Mods: []uint32{2}, Final: "DELETE", Outcome: "commit", ToWAL: cfg.WAL}, r.Intended)
		}
		c.Close()
		if r.Err != nil || !r.Committed {
			return "harness-error:setup", nil
		}
		img0 := r.Intended
		if ok, _ := cl.WaitConverged(20*time.Second, nil); !ok {
			return "harness-error:converge", nil
		}
		pos0 := P.DB("db").Pos()

		var aCommitted bool
		var aErr, dErr error
		var imgA *oracle.Image
		e.Go("A", func(th *sched.Thread) {
			wc := pager.NewConn(P.M, "db", 21, ps)
			tries := 0
			wc.Busy = func() bool { tries++; time.Sleep(300 * time.Microsecond); return tries < 30 }
			defer wc.Close()
			wc.Before = func(step int, desc string) { aStarted = true }
			defer func() { aFinished = true }()
			if cfg.WAL {
				w := wc.RunWTx(pager.WTx{Frames: []uint32{1, 2}, Outcome: "commit"}, img0)
				aCommitted, aErr, imgA = w.Committed, w.Err, w.Intended
			} else {
				w := wc.RunRTx(pager.RTx{Mods: []uint32{2, 3}, Final: "DELETE", Outcome: "commit"}, img0)
				aCommitted, aErr, imgA = w.Committed, w.Err, w.Intended
			}
		})
		e.Go("D", func(th *sched.Thread) {
			dErr = P.M.Remove("db")
		})
		e.Run(prefix)
		if e.Aborted() {
			return "aborted", viol
		}
		lab.Settle(2 * time.Second)
		if stale && dErr == nil && len(viol) == 0 {
			return "deleted-under-an-open-idle-connection", nil
		}
		for _, n := range []*lab.Node{P, R} {
			if codes := n.ExitCodes(); len(codes) > 0 {
				v("C15/race/exit", "%s called Store.Exit(%v)", n.Cfg.Name, codes)
			}
		}
		db := P.DB("db")
		pos := db.Pos()
		steps := uint64(pos.TXID) - uint64(pos0.TXID)
		obs = fmt.Sprintf("A=%v(%s) D=%s steps=%d pages=%d", aCommitted, errClass(aErr), errClass(dErr), steps, db.PageN())
		// how many transactions each side accounts for
		want := uint64(0)
		if aCommitted {
			want++
		}
		if dErr == nil {
			want++
		}
		if steps != want {
			v("C15/race/position-steps", "write committed=%v, unlink returned %v, but the primary moved from %s to %s (%d transactions, %d expected)", aCommitted, dErr, pos0, pos, steps, want)
		}
		// the image the position stands for
		var ref *oracle.Image
		switch {
		case dErr == nil && db.PageN() == 0:
			ref = &oracle.Image{PageSize: ps}
		case dErr == nil:
			// deleted first, then the application's transaction ran on a file that was no longer there: not claimed
			ref = nil
		case aCommitted:
			ref = imgA
		default:
			ref = img0
		}
		if dErr == nil && !aCommitted && db.PageN() != 0 {
			v("C15/race/not-deleted", "unlink returned success and no transaction followed, but the database has %d pages at %s", db.PageN(), pos)
		}
		if ref != nil {
			_, fs := mon.CheckDB(P, "db", ref)
			for _, f := range fs {
				v("C15/race/"+f.Prop+"-"+f.Key, "primary after the race (%s): %s", obs, f.What)
			}
			if ok, why := cl.WaitConverged(30*time.Second, nil); !ok {
				v("C15/race/no-convergence", "after the race (%s) the replica does not reach the primary's position: %s", obs, why)
			} else {
				_, fs := mon.CheckDB(R, "db", ref)
				for _, f := range fs {
					v("C15/race/replica-"+f.Prop+"-"+f.Key, "replica after the race (%s): %s", obs, f.What)
				}
			}
		}
		return obs, viol
	}
}

func errClass(err error) string {
	if err == nil {
		return "ok"
	}
	if no := lab.Errno(err); no != 0 {
		return no.Error()
	}
	return "error"
}
