// C15: dropping a database is a replicated transaction; recreation continues the log.
//
// Breadth-first search over histories of create / write / switch-to-WAL / drop
// / re-create with replicas connected, lagging (partitioned), restarting or
// joining afterwards. After every event: drop => TXID+1 with the empty
// checksum, all four files gone on the primary and (after quiescence) on every
// connected replica, the name hidden from directory listings; re-creation
// continues the TXID sequence and replicates; chain monitor across the tombstone.
package c15

import (
	"encoding/json"
	"os"
	"strings"
	"testing"
	"time"

	"verif/crashh"
	"verif/hist"
	"verif/sched"
	"verif/vlib"
)

func TestCheck(t *testing.T) {
	reg := sched.Registry{"c15race": raceHarness}
	crashCase, schedJob := crashh.ServeCase(t), sched.ServeJob(t, reg)
	hist.ServeIfWorker2(t, func(in json.RawMessage) (any, bool) {
		if out, ok := schedJob(in); ok {
			return out, true
		}
		return crashCase(in)
	})
	if f := os.Getenv("VERIF_REPLAY"); f != "" {
		hist.Replay(t, f)
	}
	run := vlib.Start("C15", "model_checking")
	alpha := []string{"tx:t1", "tx:g1", "towal", "drop", "create", "heal", "part", "restart", "restartP", "start"}
	jobs := []hist.Job{
		{Name: "journal", Cfg: hist.Config{PageSize: 512, Start: 3, R2Starts: "partitioned", Alphabet: alpha}, Depth: 4, Budget: 60 * time.Second},
		{Name: "wal-2db", Cfg: hist.Config{PageSize: 4096, Start: 2, WAL: true, SecondDB: true, R2Starts: "absent", Alphabet: alpha}, Depth: 3, Budget: 60 * time.Second},
	}
	// re-creation with another page size than the dropped database had
	jobs = append(jobs, hist.Job{Name: "journal-recreate-other-page-size", Cfg: hist.Config{PageSize: 512, Start: 3, R2Starts: "absent", Alphabet: []string{"tx:t1", "drop", "createps", "restart", "restartP", "part", "heal"}, Prelude: []string{"drop:a"}}, Depth: 3, Budget: 60 * time.Second})
	// a re-creation whose first transaction is rolled back, then a replica joins
	jobs = append(jobs, hist.Job{Name: "journal-recreate-rolled-back", Cfg: hist.Config{PageSize: 512, Start: 3, R2Starts: "absent", Alphabet: []string{"createrb", "createrb0", "create", "start", "restart", "restartP", "tx:t1"}, Prelude: []string{"drop:a"}}, Depth: 3, Budget: 60 * time.Second})
	if run.Thorough() {
		jobs[0].Depth, jobs[0].Budget = 7, 20*time.Minute
		jobs[1].Depth, jobs[1].Budget = 6, 20*time.Minute
	}
	cov := hist.RunJobs(run, jobs)
	// Crash points inside the drop: on the primary (nothing, a kept journal, an emptied or checkpointed log next to the
	// database file, both journal modes) and on a replica applying the deletion.
	cov["crash_points_inside_the_drop"] = crashh.RunAll(run, func(h string) bool { return h == "H12-drop" || h == "H13-replica-tombstone" })
	// Part B: the deletion racing a write transaction, every schedule up to the preemption bound.
	{
		pool := vlib.NewPool()
		pool.CaseTimeout = 10 * time.Minute
		bound := 2
		if run.Thorough() {
			bound = 3
		}
		var info []any
		for _, cfg := range []RaceCfg{{WAL: false}, {WAL: true}} {
			var tot sched.Totals
			sched.Distributed(t, run, pool, reg, "c15race", cfg, bound, 3, 5*time.Minute, &tot)
			info = append(info, map[string]any{"config": cfg, "schedules": tot.Executions, "outcomes": tot.Outcomes, "max_points": tot.MaxPoints, "capped": tot.Capped})
			for k := range tot.Outcomes {
				if strings.HasPrefix(k, "harness-error") {
					run.HarnessError("%+v: %s", cfg, k)
				}
			}
		}
		pool.Close()
		cov["deletion_racing_a_transaction"] = map[string]any{"preemption_bound": bound, "configs": info}
	}
	run.Finish(cov, append(append(hist.CommonAssumptions, crashh.Assumptions...),
		"Crash points inside the drop are the histories H12 and H13 of the crash enumeration shared with the C05 check."))
}
