package vlib

import (
	"encoding/json"
	"os"
	"syscall"
	"testing"
	"time"
)

// A worker that the kernel kills (SIGKILL, no Go panic) is retried alone at the end and, when it dies again, reported
// as a case that was not run - never handed to the check as a crash.
func TestPoolKernelKill(t *testing.T) {
	if IsWorker() {
		Serve(func(in json.RawMessage) any {
			var s string
			_ = json.Unmarshal(in, &s)
			switch s {
			case "kill":
				_ = syscall.Kill(os.Getpid(), syscall.SIGKILL)
				select {}
			case "panic":
				panic("boom")
			case "slow":
				time.Sleep(1500 * time.Millisecond)
			case "hang":
				select {}
			}
			return s
		})
	}
	p := &Pool{N: 3, CaseTimeout: time.Second}
	defer p.Close()
	got := map[string]string{}
	p.Run([]any{"a", "kill", "b", "panic", "c", "slow", "hang"}, func(i int, out json.RawMessage, crash *Crash, flaky bool) {
		switch {
		case crash != nil && crash.Killed:
			got[string(rune('0'+i))] = "killed"
		case crash != nil:
			got[string(rune('0'+i))] = "crash"
		default:
			got[string(rune('0'+i))] = string(out)
		}
	})
	want := map[string]string{"0": `"a"`, "2": `"b"`, "3": "crash", "4": `"c"`, "5": `"slow"`, "6": "crash"}
	for k, v := range want {
		if got[k] != v {
			t.Errorf("case %s: got %q want %q", k, got[k], v)
		}
	}
	if _, ok := got["1"]; ok {
		t.Errorf("the killed case reached the check: %q", got["1"])
	}
	if sk := ResourceSkips(); len(sk) != 1 || sk[0] != `"kill"` {
		t.Errorf("resource skips: %v", sk)
	}
}
