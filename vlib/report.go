// Package vlib holds the pieces every check shares: run bookkeeping, evidence
// files, VIOLATION / KNOWN-FINDING reporting and the worker pool.
package vlib

import (
	"bufio"
	"io"
	"log"
	"encoding/json"
	"fmt"
	"os"
	"path/filepath"
	"sort"
	"strconv"
	"strings"
	"sync"
	"time"
)

// Root is the /verif directory (overridable for tests of the machinery).
func Root() string {
	if v := os.Getenv("VERIF_ROOT"); v != "" {
		return v
	}
	return "/verif"
}

// Violation is one property violation found by a check.
type Violation struct {
	Key    string `json:"key"`    // stable shape key, matched against known_findings.txt
	What   string `json:"what"`   // human description
	Replay any    `json:"replay"` // minimal history / schedule / input
}

// Run is the bookkeeping of one check invocation.
type Run struct {
	ID    string
	Tier  string
	Seed  int64
	Level string

	start time.Time
	mu    sync.Mutex
	viols []Violation
	seenV map[string]bool
	known map[string]string // key -> description (for this property)
	fixed []string
	knownHit map[string]bool

	HarnessErrors []string
}

// Start begins a run for property id at the given evidence level.
func Start(id, level string) *Run {
	r := &Run{ID: id, Level: level, start: time.Now(), seenV: map[string]bool{}, known: map[string]string{}, knownHit: map[string]bool{}}
	r.Tier = os.Getenv("VERIF_TIER")
	if r.Tier != "thorough" {
		r.Tier = "quick"
	}
	if v := os.Getenv("VERIF_SEED"); v != "" {
		r.Seed, _ = strconv.ParseInt(v, 10, 64)
	}
	r.loadKnown()
	if f := os.Getenv("VERIF_REPLAY"); f != "" {
		genericReplay(id, f) // does not return
	}
	// LiteFS logs through the standard logger; keep the check's output to verdict lines.
	if os.Getenv("VERIF_LOG") == "" && os.Getenv("VERIF_REPLAY") == "" {
		log.SetOutput(io.Discard)
	}
	return r
}

// Thorough reports whether the thorough tier was requested.
func (r *Run) Thorough() bool { return r.Tier == "thorough" }

func (r *Run) loadKnown() {
	f, err := os.Open(filepath.Join(Root(), "known_findings.txt"))
	if err != nil {
		return
	}
	defer f.Close()
	sc := bufio.NewScanner(f)
	for sc.Scan() {
		line := strings.TrimSpace(sc.Text())
		if line == "" || strings.HasPrefix(line, "#") {
			continue
		}
		// known: property=C13 key=<key> <what fails>
		if strings.HasPrefix(line, "known:") {
			rest := strings.TrimSpace(strings.TrimPrefix(line, "known:"))
			fields := strings.SplitN(rest, " ", 3)
			if len(fields) < 2 || fields[0] != "property="+r.ID || !strings.HasPrefix(fields[1], "key=") {
				continue
			}
			what := ""
			if len(fields) == 3 {
				what = fields[2]
			}
			r.known[strings.TrimPrefix(fields[1], "key=")] = what
		} else if strings.HasPrefix(line, "fixed:") {
			if strings.Contains(line, "property="+r.ID+" ") {
				r.fixed = append(r.fixed, line)
			}
		}
	}
}

// Violation records a violation. Violations with the same key are reported once.
// A key listed in known_findings.txt is printed as KNOWN-FINDING and does not fail the run.
func (r *Run) Violation(key, what string, replay any) {
	r.mu.Lock()
	defer r.mu.Unlock()
	if desc, ok := r.known[key]; ok {
		if !r.knownHit[key] {
			r.knownHit[key] = true
			fmt.Printf("KNOWN-FINDING: property=%s key=%s %s\n", r.ID, key, desc)
		}
		return
	}
	if r.seenV[key] {
		return
	}
	r.seenV[key] = true
	r.viols = append(r.viols, Violation{Key: key, What: what, Replay: replay})
}

// HarnessError records a problem in the machinery itself (exit 2, never a VIOLATION).
func (r *Run) HarnessError(format string, args ...any) {
	r.mu.Lock()
	defer r.mu.Unlock()
	msg := fmt.Sprintf(format, args...)
	if len(r.HarnessErrors) < 20 {
		r.HarnessErrors = append(r.HarnessErrors, msg)
	}
}

// NViolations returns the number of distinct unlisted violations so far.
func (r *Run) NViolations() int {
	r.mu.Lock()
	defer r.mu.Unlock()
	return len(r.viols)
}

// Finish writes the evidence file, prints the verdict lines and exits.
func (r *Run) Finish(coverage map[string]any, assumptions []string) {
	r.mu.Lock()
	defer r.mu.Unlock()

	sort.Slice(r.viols, func(i, j int) bool { return r.viols[i].Key < r.viols[j].Key })

	_ = os.MkdirAll(outDir("replay"), 0o777)
	_ = os.MkdirAll(outDir("evidence"), 0o777)

	for i, v := range r.viols {
		path := filepath.Join(outDir("replay"), fmt.Sprintf("%s-%d.json", r.ID, i+1))
		b, _ := json.MarshalIndent(map[string]any{"property": r.ID, "tier": r.Tier, "key": v.Key, "what": v.What, "replay": v.Replay}, "", " ")
		_ = os.WriteFile(path, b, 0o666)
		fmt.Printf("VIOLATION property=%s replay=%s\n", r.ID, path)
		fmt.Printf("  key=%s\n  %s\n", v.Key, firstLines(v.What, 12))
	}

	// Known findings that are listed but did not reproduce are reported (informational).
	for k := range r.known {
		if !r.knownHit[k] {
			fmt.Printf("NOTE: listed known finding did not occur in this run: property=%s key=%s\n", r.ID, k)
		}
	}

	if coverage == nil {
		coverage = map[string]any{}
	}
	knownKeys := make([]string, 0, len(r.knownHit))
	for k := range r.knownHit {
		knownKeys = append(knownKeys, k)
	}
	sort.Strings(knownKeys)
	coverage["known_findings_hit"] = knownKeys
	if len(r.HarnessErrors) > 0 {
		coverage["harness_errors"] = r.HarnessErrors
	}
	if sk := ResourceSkips(); len(sk) > 0 {
		coverage["exhaustive"] = false
		coverage["cases_not_run_for_lack_of_memory"] = sk
	}
	ev := map[string]any{
		"property_id": r.ID,
		"tier":        r.Tier,
		"seed":        r.Seed,
		"level":       r.Level,
		"coverage":    coverage,
		"assumptions": assumptions,
		"wall_s":      time.Since(r.start).Seconds(),
		"violations":  len(r.viols),
	}
	b, _ := json.MarshalIndent(ev, "", " ")
	if err := os.WriteFile(filepath.Join(outDir("evidence"), r.ID+".json"), append(b, '\n'), 0o666); err != nil {
		fmt.Fprintf(os.Stderr, "cannot write evidence: %s\n", err)
		os.Exit(2)
	}

	summary := map[string]any{}
	for _, k := range []string{"states", "transitions", "evaluations", "distinct_nontrivial", "exhaustive", "traces_validated_against_impl"} {
		if v, ok := coverage[k]; ok {
			summary[k] = v
		}
	}
	sb, _ := json.Marshal(summary)
	fmt.Printf("%s %s: violations=%d known=%d wall=%.1fs %s\n", r.ID, r.Tier, len(r.viols), len(r.knownHit), time.Since(r.start).Seconds(), sb)

	for _, e := range r.HarnessErrors {
		fmt.Fprintf(os.Stderr, "HARNESS-ERROR: %s\n", firstLines(e, 30))
	}
	if len(r.viols) > 0 {
		os.Exit(1) // violations were found and printed; harness errors (if any) are listed above
	}
	if len(r.HarnessErrors) > 0 {
		os.Exit(2)
	}
	os.Exit(0)
}

func firstLines(s string, n int) string {
	lines := strings.Split(s, "\n")
	if len(lines) > n {
		lines = append(lines[:n], "...")
	}
	return strings.Join(lines, "\n  ")
}

// Distinct counts distinct string classes.
type Distinct struct {
	mu sync.Mutex
	m  map[string]int
}

func (d *Distinct) Add(k string) {
	d.mu.Lock()
	if d.m == nil {
		d.m = map[string]int{}
	}
	d.m[k]++
	d.mu.Unlock()
}

func (d *Distinct) N() int { d.mu.Lock(); defer d.mu.Unlock(); return len(d.m) }

// Top returns up to n classes with their counts, sorted by key.
func (d *Distinct) Top(n int) map[string]int {
	d.mu.Lock()
	defer d.mu.Unlock()
	keys := make([]string, 0, len(d.m))
	for k := range d.m {
		keys = append(keys, k)
	}
	sort.Strings(keys)
	out := map[string]int{}
	for i, k := range keys {
		if i >= n {
			break
		}
		out[k] = d.m[k]
	}
	return out
}


// genericReplay re-executes the case stored in a replay file five times in a worker subprocess of this
// test binary, without the explorer, and reports whether the violation recurs (exit 1) or not (exit 0).
// It serves every check whose violations carry their worker case ("case" or "loss_case"); the cluster-history
// checks replay through hist.Replay before Start is reached.
func genericReplay(id, path string) {
	b, err := os.ReadFile(path)
	if err != nil {
		fmt.Println("replay:", err)
		os.Exit(2)
	}
	var f struct {
		Key    string                     `json:"key"`
		Replay map[string]json.RawMessage `json:"replay"`
	}
	if err := json.Unmarshal(b, &f); err != nil {
		fmt.Println("replay:", err)
		os.Exit(2)
	}
	var c json.RawMessage
	for _, k := range []string{"case", "loss_case"} {
		if v, ok := f.Replay[k]; ok {
			c = v
			break
		}
	}
	if c == nil {
		fmt.Printf("replay: the payload of %s (%s) is not a worker case; see DESIGN.md section 9.2 for how to re-run it\n", path, f.Key)
		os.Exit(2)
	}
	pool := &Pool{N: 1, CaseTimeout: 10 * time.Minute}
	defer pool.Close()
	fails := 0
	for i := 0; i < 5; i++ {
		pool.Run([]any{c}, func(_ int, out json.RawMessage, crash *Crash, flaky bool) {
			if crash != nil {
				fails++
				fmt.Printf("REPLAY run %d: worker died (timeout=%v)\n%s\n", i+1, crash.Timeout, crash.Output)
				return
			}
			var r struct {
				V []struct {
					Key  string `json:"key"`
					What string `json:"what"`
				} `json:"v"`
				Harness string `json:"harness"`
			}
			_ = json.Unmarshal(out, &r)
			if len(r.V) > 0 {
				fails++
				for _, v := range r.V {
					if i == 0 {
						fmt.Printf("REPLAY VIOLATION key=%s\n%s\n", v.Key, v.What)
					} else {
						fmt.Printf("REPLAY run %d: key=%s\n", i+1, v.Key)
					}
				}
			} else {
				fmt.Printf("REPLAY run %d: no violation%s\n", i+1, map[bool]string{true: " (harness: " + r.Harness + ")", false: ""}[r.Harness != ""])
			}
		})
	}
	fmt.Printf("replay of %s (%s): violation in %d of 5 runs\n", path, f.Key, fails)
	pool.Close()
	if fails > 0 {
		fmt.Printf("VIOLATION property=%s replay=%s\n", id, path)
		os.Exit(1)
	}
	os.Exit(0)
}


// outDir is where evidence and replay files go: /verif/<kind>, or $VERIF_OUT/<kind> for auxiliary runs
// (the race pass) that must not overwrite the evidence of the deciding run.
func outDir(kind string) string {
	if d := os.Getenv("VERIF_OUT"); d != "" {
		return filepath.Join(d, kind)
	}
	return filepath.Join(Root(), kind)
}
