package vlib

import (
	"strings"
	"sort"
	"bufio"
	"log"
	"bytes"
	"encoding/json"
	"fmt"
	"io"
	"os"
	"os/exec"
	"runtime"
	"strconv"
	"sync"
	"syscall"
	"time"
)

// IsWorker reports whether this process was started as a pool worker.
func IsWorker() bool { return os.Getenv("VERIF_WORKER") != "" }

// Serve runs the worker loop: one JSON case per line on stdin, one JSON result
// per line on fd 3. It never returns.
func Serve(handler func(in json.RawMessage) any) {
	if os.Getenv("VERIF_LOG") == "" {
		log.SetOutput(io.Discard)
	}
	if v := os.Getenv("VERIF_WORKER_AS_GB"); v != "" {
		if gb, err := strconv.Atoi(v); err == nil && gb > 0 {
			lim := syscall.Rlimit{Cur: uint64(gb) << 30, Max: uint64(gb) << 30}
			_ = syscall.Setrlimit(syscall.RLIMIT_AS, &lim)
		}
	}
	out := os.NewFile(3, "results")
	w := bufio.NewWriter(out)
	rd := bufio.NewReaderSize(os.Stdin, 1<<20)
	for {
		line, err := rd.ReadBytes('\n')
		if len(line) > 0 {
			res := handler(json.RawMessage(bytes.TrimSpace(line)))
			b, merr := json.Marshal(res)
			if merr != nil {
				b, _ = json.Marshal(map[string]string{"marshal_error": merr.Error()})
			}
			w.Write(b)
			w.WriteByte('\n')
			w.Flush()
		}
		if err != nil {
			os.Exit(0)
		}
	}
}

// Crash describes a worker that died or hung while executing a case.
type Crash struct {
	Timeout bool
	Output  string // tail of the worker's stdout+stderr
	// Killed: the worker was terminated by SIGKILL from outside (the kernel's out-of-memory killer) and left no Go
	// panic or fatal error behind: a statement about the machine, not about the case.
	Killed bool
}

var (
	resMu        sync.Mutex
	resourceSkip []string
)

// ResourceSkips returns the cases that could not be run because the kernel killed their worker even when the case had
// the machine to itself. They are reported and make the run non-exhaustive; they are never a verdict.
func ResourceSkips() []string {
	resMu.Lock()
	defer resMu.Unlock()
	return append([]string(nil), resourceSkip...)
}

func addResourceSkip(desc string) {
	resMu.Lock()
	resourceSkip = append(resourceSkip, desc)
	resMu.Unlock()
	fmt.Printf("RESOURCE: worker killed by the kernel (out of memory?) on a case that ran alone; case not explored: %s\n", desc)
}

// Pool is a set of worker subprocesses (copies of this test binary).
type Pool struct {
	N           int
	CaseTimeout time.Duration // real-time watchdog per case (a hang, never a verdict by itself)
	ASLimitGB   int           // RLIMIT_AS for workers, 0 = none
	Env         []string
	// Abort, if set, is polled before each case is dispatched; when it returns true the remaining cases are skipped.
	Abort func() bool

	workers []*worker
	hangs   int // cases that hung when run alone, over the life of the pool
}

type worker struct {
	cmd   *exec.Cmd
	stdin io.WriteCloser
	res   *bufio.Reader
	resF  *os.File
	out   *tailBuf
}

type tailBuf struct {
	mu  sync.Mutex
	buf []byte
}

func (t *tailBuf) Write(p []byte) (int, error) {
	t.mu.Lock()
	t.buf = append(t.buf, p...)
	if len(t.buf) > 1<<16 {
		t.buf = t.buf[len(t.buf)-(1<<16):]
	}
	t.mu.Unlock()
	return len(p), nil
}

func (t *tailBuf) String() string { t.mu.Lock(); defer t.mu.Unlock(); return string(t.buf) }

// NewPool returns a pool sized to the machine (VERIF_WORKERS overrides).
func NewPool() *Pool {
	n := runtime.NumCPU()
	if v := os.Getenv("VERIF_WORKERS"); v != "" {
		if k, err := strconv.Atoi(v); err == nil && k > 0 {
			n = k
		}
	}
	return &Pool{N: n, CaseTimeout: 300 * time.Second}
}

func (p *Pool) spawn() (*worker, error) {
	pr, pw, err := os.Pipe()
	if err != nil {
		return nil, err
	}
	cmd := exec.Command(os.Args[0], os.Args[1:]...)
	cmd.Env = append(os.Environ(), "VERIF_WORKER=1", "GOMAXPROCS=2")
	if p.ASLimitGB > 0 {
		cmd.Env = append(cmd.Env, "VERIF_WORKER_AS_GB="+strconv.Itoa(p.ASLimitGB))
	}
	cmd.Env = append(cmd.Env, p.Env...)
	cmd.ExtraFiles = []*os.File{pw}
	tb := &tailBuf{}
	cmd.Stdout = tb
	cmd.Stderr = tb
	stdin, err := cmd.StdinPipe()
	if err != nil {
		return nil, err
	}
	if err := cmd.Start(); err != nil {
		return nil, err
	}
	pw.Close()
	return &worker{cmd: cmd, stdin: stdin, res: bufio.NewReaderSize(pr, 1<<20), resF: pr, out: tb}, nil
}

func (w *worker) kill() {
	if w == nil {
		return
	}
	_ = w.stdin.Close()
	_ = w.cmd.Process.Kill()
	_ = w.cmd.Wait()
	_ = w.resF.Close()
}

// Close terminates all workers.
func (p *Pool) Close() {
	for _, w := range p.workers {
		if w != nil {
			_ = w.stdin.Close()
			done := make(chan struct{})
			go func(w *worker) { _ = w.cmd.Wait(); close(done) }(w)
			select {
			case <-done:
			case <-time.After(5 * time.Second):
				_ = w.cmd.Process.Kill()
				<-done
			}
			_ = w.resF.Close()
		}
	}
	p.workers = nil
}

// exec1 runs one case on worker slot i, (re)spawning the worker when needed.
func (p *Pool) exec1(i int, in []byte) (json.RawMessage, *Crash) {
	if p.workers[i] == nil {
		w, err := p.spawn()
		if err != nil {
			return nil, &Crash{Output: "spawn: " + err.Error()}
		}
		p.workers[i] = w
	}
	w := p.workers[i]
	type rr struct {
		line []byte
		err  error
	}
	ch := make(chan rr, 1)
	go func() {
		if _, err := w.stdin.Write(append(append([]byte{}, in...), '\n')); err != nil {
			ch <- rr{nil, err}
			return
		}
		line, err := w.res.ReadBytes('\n')
		ch <- rr{line, err}
	}()
	timeout := p.CaseTimeout
	if timeout == 0 {
		timeout = 300 * time.Second
	}
	select {
	case r := <-ch:
		if r.err != nil || len(r.line) == 0 {
			_ = w.cmd.Wait()
			c := &Crash{Output: w.out.String()}
			if ps := w.cmd.ProcessState; ps != nil {
				if ws, ok := ps.Sys().(syscall.WaitStatus); ok && ws.Signaled() && ws.Signal() == syscall.SIGKILL &&
					!strings.Contains(c.Output, "panic:") && !strings.Contains(c.Output, "fatal error:") {
					c.Killed = true
				}
			}
			w.kill()
			p.workers[i] = nil
			return nil, c
		}
		return json.RawMessage(bytes.TrimSpace(r.line)), nil
	case <-time.After(timeout):
		// Ask the runtime for goroutine stacks before killing.
		_ = w.cmd.Process.Signal(syscall.SIGQUIT)
		time.Sleep(500 * time.Millisecond)
		c := &Crash{Timeout: true, Output: w.out.String()}
		w.kill()
		p.workers[i] = nil
		return nil, c
	}
}

// Run executes every case on the pool. A case whose worker dies is re-run once
// in a fresh worker; onResult receives either the result or the confirmed crash.
// flaky is set when the first attempt crashed and the second did not.
func (p *Pool) Run(cases []any, onResult func(i int, out json.RawMessage, crash *Crash, flaky bool)) {
	if p.N <= 0 {
		p.N = 1
	}
	if p.workers == nil {
		p.workers = make([]*worker, p.N)
	}
	enc := make([][]byte, len(cases))
	for i, c := range cases {
		b, err := json.Marshal(c)
		if err != nil {
			panic(fmt.Sprintf("pool: cannot marshal case %d: %s", i, err))
		}
		enc[i] = b
	}
	var next int
	var mu sync.Mutex
	var cbMu sync.Mutex
	var wg sync.WaitGroup
	var deferred []int // cases whose worker the kernel killed: run again at the end, one at a time
	for wi := 0; wi < p.N; wi++ {
		wg.Add(1)
		go func(wi int) {
			defer wg.Done()
			for {
				mu.Lock()
				i := next
				next++
				mu.Unlock()
				if i >= len(enc) {
					return
				}
				if p.Abort != nil && p.Abort() {
					continue
				}
				out, crash := p.exec1(wi, enc[i])
				flaky := false
				if crash != nil && (crash.Killed || crash.Timeout) {
					// the kernel killed the worker, or the case did not finish in time: both can be the machine (memory,
					// load from the other workers) rather than the case - decide when the case has the machine to itself
					mu.Lock()
					deferred = append(deferred, i)
					mu.Unlock()
					continue
				}
				if crash != nil {
					out2, crash2 := p.exec1(wi, enc[i])
					if crash2 == nil {
						out, crash, flaky = out2, nil, true
					} else {
						crash = crash2
					}
				}
				cbMu.Lock()
				onResult(i, out, crash, flaky)
				cbMu.Unlock()
			}
		}(wi)
	}
	wg.Wait()
	if len(deferred) == 0 {
		return
	}
	// Every other worker gives its memory back first.
	for wi := range p.workers {
		if p.workers[wi] != nil {
			p.workers[wi].kill()
			p.workers[wi] = nil
		}
	}
	sort.Ints(deferred)
	saved := p.CaseTimeout
	if saved == 0 {
		saved = 300 * time.Second
	}
	p.CaseTimeout = 4 * saved
	defer func() { p.CaseTimeout = saved }()
	unretried := 0
	for _, i := range deferred {
		if p.hangs >= 2 {
			// Two cases have hung with the machine to themselves: the verdict of this run is settled, and every
			// further one would cost four times the case limit. The rest is not run again and not judged.
			unretried++
			continue
		}
		out, crash := p.exec1(0, enc[i])
		if crash != nil && crash.Killed {
			addResourceSkip(string(enc[i]))
			continue
		}
		if crash != nil {
			p.hangs++
		}
		if crash == nil {
			fmt.Printf("NOTE: a case that was killed or timed out next to the other workers finished when run alone: %s\n", truncate(string(enc[i]), 300))
		}
		// a second time-out, alone and with four times the limit, is a hang
		onResult(i, out, crash, false)
	}
	if unretried > 0 {
		fmt.Printf("NOTE: %d further cases that timed out next to the other workers were not run again (two hangs already confirmed)\n", unretried)
	}
}

// MemAvailableGiB returns MemAvailable from /proc/meminfo in GiB (a large number when it cannot be read).
func MemAvailableGiB() int {
	b, err := os.ReadFile("/proc/meminfo")
	if err != nil {
		return 1 << 20
	}
	for _, line := range strings.Split(string(b), "\n") {
		var kb int
		if _, err := fmt.Sscanf(line, "MemAvailable: %d kB", &kb); err == nil {
			return kb >> 20
		}
	}
	return 1 << 20
}

func truncate(s string, n int) string {
	if len(s) > n {
		return s[:n] + "..."
	}
	return s
}
