#!/bin/bash
# Auxiliary, NOT a deciding step: builds the named checks with the race detector and runs their quick tier
# free-running (no cooperative scheduler involved in these checks' node code paths), with halt_on_error so that
# a detected data race kills the worker and surfaces as a crash with the race report in its output.
# Usage: ./race.sh [IDs...]   (default: the checks that drive real concurrent goroutines)
cd "$(dirname "$0")"
export GOFLAGS=-mod=mod GOPROXY=off GOSUMDB=off GOTOOLCHAIN=local
ids=${@:-C01 C04 C05 C06 C07 C09 C13 C14 C15 C16 C19 C20}
out=/dev/shm/verif-race; mkdir -p $out
for id in $ids; do
  pkg=$(echo $id | tr A-Z a-z)
  go1.26.8 test -race -c -tags verif -vet=off -o $out/$pkg.race ./checks/$pkg || { echo "$id race build failed"; continue; }
  s=$(date +%s)
  res=$(GORACE="halt_on_error=1" VERIF_OUT=$out VERIF_TIER=quick VERIF_WORKERS=${VERIF_WORKERS:-8} timeout 1800 $out/$pkg.race -test.run '^TestCheck$' -test.timeout 0 2>&1)
  races=$(grep -c "DATA RACE" $out/replay/$id-*.json 2>/dev/null | awk -F: '{s+=$NF} END {print s+0}')
  echo "$id race-pass: $(echo "$res" | grep "^$id quick" | tail -1 | cut -c1-120) races_reported=$races $(( $(date +%s) - s ))s"
  [ "$races" != "0" ] && grep -h -A14 "DATA RACE" $out/replay/$id-*.json | head -40
  rm -f $out/$pkg.race
done
# C12: the property's own "concurrent goroutines under the race detector" clause (auxiliary; see checks/c12/race_test.go)
if [ $# -eq 0 ] || echo "$@" | grep -q C12; then
  r=$(VERIF_RACE_AUX=1 go1.26.8 test -race -tags verif -vet=off -count=1 -run '^TestRaceAux$' ./checks/c12 2>&1 | tail -3 | tr '\n' ' ')
  echo "C12 race-aux: $r"
fi
