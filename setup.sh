#!/bin/bash
# Offline setup: pre-build every check's test binary (warms GOCACHE incl. cgo).
set -u
cd "$(dirname "$0")"
export GOFLAGS=-mod=mod GOPROXY=off GOSUMDB=off GOTOOLCHAIN=local
mkdir -p .bin evidence replay
rc=0
for d in checks/*/; do
  pkg=$(basename "$d")
  go1.26.8 test -c -tags verif -vet=off -o ".bin/${pkg}.test" "./checks/${pkg}" || rc=2
done
exit $rc
