package lab

import (
	"io"
	"os"
	"path/filepath"

	"github.com/superfly/litefs"
)

// CopyDir copies a directory tree (regular files and directories only).
func CopyDir(src, dst string) error {
	return filepath.Walk(src, func(path string, info os.FileInfo, err error) error {
		if err != nil {
			if os.IsNotExist(err) {
				return nil
			}
			return err
		}
		rel, _ := filepath.Rel(src, path)
		target := filepath.Join(dst, rel)
		if info.IsDir() {
			return os.MkdirAll(target, 0o777)
		}
		if !info.Mode().IsRegular() {
			return nil
		}
		in, err := os.Open(path)
		if err != nil {
			if os.IsNotExist(err) {
				return nil
			}
			return err
		}
		defer in.Close()
		out, err := os.OpenFile(target, os.O_CREATE|os.O_TRUNC|os.O_WRONLY, 0o666)
		if err != nil {
			return err
		}
		if _, err := io.Copy(out, in); err != nil {
			out.Close()
			return err
		}
		if err := out.Close(); err != nil {
			return err
		}
		return os.Chtimes(target, info.ModTime(), info.ModTime())
	})
}

// HookOS wraps a litefs.OS and calls Before ahead of every call that mutates the file system.
type HookOS struct {
	Inner  litefs.OS
	Before func(op, call, name string) error // a non-nil error is returned to the caller instead of performing the call
}

var _ litefs.OS = (*HookOS)(nil)

func (o *HookOS) hook(op, call, name string) error {
	if o.Before != nil {
		return o.Before(op, call, name)
	}
	return nil
}

func (o *HookOS) Create(op, name string) (*os.File, error) {
	if err := o.hook(op, "create", name); err != nil {
		return nil, err
	}
	return o.Inner.Create(op, name)
}
func (o *HookOS) Mkdir(op, path string, perm os.FileMode) error {
	if err := o.hook(op, "mkdir", path); err != nil {
		return err
	}
	return o.Inner.Mkdir(op, path, perm)
}
func (o *HookOS) MkdirAll(op, path string, perm os.FileMode) error {
	if _, err := os.Stat(path); err == nil {
		return nil // nothing to mutate
	}
	if err := o.hook(op, "mkdirall", path); err != nil {
		return err
	}
	return o.Inner.MkdirAll(op, path, perm)
}
func (o *HookOS) Open(op, name string) (*os.File, error) { return o.Inner.Open(op, name) }
func (o *HookOS) OpenFile(op, name string, flag int, perm os.FileMode) (*os.File, error) {
	if flag&(os.O_CREATE|os.O_TRUNC) != 0 {
		if _, err := os.Stat(name); err != nil || flag&os.O_TRUNC != 0 {
			if err := o.hook(op, "openfile-create", name); err != nil {
				return nil, err
			}
		}
	}
	return o.Inner.OpenFile(op, name, flag, perm)
}
func (o *HookOS) ReadDir(op, name string) ([]os.DirEntry, error) { return o.Inner.ReadDir(op, name) }
func (o *HookOS) ReadFile(op, name string) ([]byte, error)       { return o.Inner.ReadFile(op, name) }
func (o *HookOS) Remove(op, name string) error {
	if _, err := os.Lstat(name); err != nil {
		return o.Inner.Remove(op, name) // nothing to mutate
	}
	if err := o.hook(op, "remove", name); err != nil {
		return err
	}
	return o.Inner.Remove(op, name)
}
func (o *HookOS) RemoveAll(op, name string) error {
	if err := o.hook(op, "removeall", name); err != nil {
		return err
	}
	return o.Inner.RemoveAll(op, name)
}
func (o *HookOS) Rename(op, oldpath, newpath string) error {
	if err := o.hook(op, "rename", newpath); err != nil {
		return err
	}
	return o.Inner.Rename(op, oldpath, newpath)
}
func (o *HookOS) Stat(op, name string) (os.FileInfo, error) { return o.Inner.Stat(op, name) }
func (o *HookOS) Truncate(op, name string, size int64) error {
	if err := o.hook(op, "truncate", name); err != nil {
		return err
	}
	return o.Inner.Truncate(op, name, size)
}
func (o *HookOS) WriteFile(op, name string, data []byte, perm os.FileMode) error {
	if err := o.hook(op, "writefile", name); err != nil {
		return err
	}
	return o.Inner.WriteFile(op, name, data, perm)
}
