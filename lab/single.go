package lab

import (
	"fmt"
	"os"
	"testing/synctest"
	"time"

	"github.com/superfly/litefs"
)

// StartPrimary starts a single static-lease primary on dir and waits until it is primary.
func StartPrimary(dir string, cfg NodeConfig) (*Node, error) {
	if cfg.Name == "" {
		cfg.Name = "P"
	}
	if cfg.ID == 0 {
		cfg.ID = 0x1111
	}
	cfg.Dir = dir
	cfg.Candidate = true
	if cfg.Leaser == nil {
		cfg.Leaser = litefs.NewStaticLeaser(true, cfg.Name, "http://"+cfg.Name)
	}
	n := NewNode(cfg)
	if err := n.Start(); err != nil {
		return nil, err
	}
	synctest.Wait()
	if !WaitFor(5*time.Second, n.Store.IsPrimary) {
		_ = n.Stop()
		return nil, fmt.Errorf("node did not become primary")
	}
	return n, nil
}

// RemoveAll removes a scratch directory.
func RemoveAll(dir string) { _ = os.RemoveAll(dir) }
