package lab

import (
	"context"
	"fmt"
	"sync"
	"time"

	"github.com/superfly/litefs"
)

// LeaseService is an in-memory TTL lease service with the service-side truth
// (holder, expiry on the bubble's clock, cluster ID, primary info). Every call
// a node makes can be overridden by Script (used for deviation-bounded search).
type LeaseService struct {
	// ClusterIDSource, if set, is where the cluster ID really lives (the Consul key in Consul mode).
	ClusterIDSource func() string

	mu        sync.Mutex
	TTL       time.Duration
	holderID  string // lease ID that currently holds the key ("" = none)
	holder    string // node name of the holder
	expires   time.Time
	info      litefs.PrimaryInfo
	clusterID string
	nextID    int

	Log []LeaseCall // every call, in order

	// Script, if set, may replace the truthful answer of a call.
	// It is invoked with the service lock NOT held. Returning ok=false keeps the truth.
	Script func(node, call string) (dev Deviation, ok bool)
}

// Deviation is a scripted answer of the lease service.
type Deviation struct {
	Err error // returned instead of the truthful result (for PrimaryInfo: ErrNoPrimary etc.)
	// StaleInfo, for PrimaryInfo: answer with this info although the truth differs.
	StaleInfo *litefs.PrimaryInfo
	// EmptyClusterID, for ClusterID: answer "no cluster ID stored" although one is (the key was wiped; the static leaser always answers so).
	EmptyClusterID bool
}

// LeaseCall is one recorded call to the lease service.
type LeaseCall struct {
	At     time.Time
	Node   string
	Call   string // Acquire, AcquireExisting, PrimaryInfo, ClusterID, SetClusterID, Renew, Close, Handoff
	Arg    string
	Result string
}

func NewLeaseService(ttl time.Duration) *LeaseService { return &LeaseService{TTL: ttl} }

func (s *LeaseService) record(node, call, arg, result string) {
	s.Log = append(s.Log, LeaseCall{At: time.Now(), Node: node, Call: call, Arg: arg, Result: result})
}

func (s *LeaseService) script(node, call string) (Deviation, bool) {
	if s.Script == nil {
		return Deviation{}, false
	}
	return s.Script(node, call)
}

func (s *LeaseService) expireLocked() {
	if s.holderID != "" && !time.Now().Before(s.expires) {
		s.holderID, s.holder = "", ""
	}
}

// Holder returns the node currently holding a live lease ("" if none) and the lease ID.
func (s *LeaseService) Holder() (node, leaseID string) {
	s.mu.Lock()
	defer s.mu.Unlock()
	s.expireLocked()
	return s.holder, s.holderID
}

// ClusterIDValue returns the cluster ID stored in the service.
func (s *LeaseService) ClusterIDValue() string {
	if s.ClusterIDSource != nil {
		return s.ClusterIDSource()
	}
	s.mu.Lock()
	defer s.mu.Unlock()
	return s.clusterID
}

// SetClusterIDValue forces the service-side cluster ID (lab setup).
func (s *LeaseService) SetClusterIDValue(v string) { s.mu.Lock(); s.clusterID = v; s.mu.Unlock() }

// Revoke removes the current lease on the service side (as a session invalidation would).
func (s *LeaseService) Revoke() {
	s.mu.Lock()
	s.holderID, s.holder = "", ""
	s.mu.Unlock()
}

// Calls returns a copy of the call log.
func (s *LeaseService) Calls() []LeaseCall {
	s.mu.Lock()
	defer s.mu.Unlock()
	return append([]LeaseCall(nil), s.Log...)
}

// SimLeaser is one node's client of the LeaseService.
type SimLeaser struct {
	Svc     *LeaseService
	Node    string
	Host    string
	URL     string
	OnLease func(l *SimLease) // called when a lease object is handed to the node
}

var _ litefs.Leaser = (*SimLeaser)(nil)

func NewSimLeaser(svc *LeaseService, node string) *SimLeaser {
	return &SimLeaser{Svc: svc, Node: node, Host: node, URL: "http://" + node}
}

func (l *SimLeaser) Close() error         { return nil }
func (l *SimLeaser) Type() string         { return "sim" }
func (l *SimLeaser) Hostname() string     { return l.Host }
func (l *SimLeaser) AdvertiseURL() string { return l.URL }

func (l *SimLeaser) Acquire(ctx context.Context) (litefs.Lease, error) {
	if dev, ok := l.Svc.script(l.Node, "Acquire"); ok && dev.Err != nil {
		l.Svc.mu.Lock()
		l.Svc.record(l.Node, "Acquire", "", "scripted:"+dev.Err.Error())
		l.Svc.mu.Unlock()
		return nil, dev.Err
	}
	s := l.Svc
	s.mu.Lock()
	defer s.mu.Unlock()
	s.expireLocked()
	if s.holderID != "" {
		s.record(l.Node, "Acquire", "", "primary-exists")
		return nil, litefs.ErrPrimaryExists
	}
	s.nextID++
	id := fmt.Sprintf("lease-%d", s.nextID)
	s.holderID, s.holder = id, l.Node
	s.expires = time.Now().Add(s.TTL)
	s.info = litefs.PrimaryInfo{Hostname: l.Host, AdvertiseURL: l.URL}
	s.record(l.Node, "Acquire", "", "ok:"+id)
	lease := &SimLease{leaser: l, id: id, renewedAt: time.Now(), handoffCh: make(chan uint64)}
	if l.OnLease != nil {
		l.OnLease(lease)
	}
	return lease, nil
}

func (l *SimLeaser) AcquireExisting(ctx context.Context, leaseID string) (litefs.Lease, error) {
	if dev, ok := l.Svc.script(l.Node, "AcquireExisting"); ok && dev.Err != nil {
		l.Svc.mu.Lock()
		l.Svc.record(l.Node, "AcquireExisting", leaseID, "scripted:"+dev.Err.Error())
		l.Svc.mu.Unlock()
		return nil, dev.Err
	}
	s := l.Svc
	s.mu.Lock()
	defer s.mu.Unlock()
	s.expireLocked()
	if s.holderID == "" || s.holderID != leaseID {
		s.record(l.Node, "AcquireExisting", leaseID, "expired")
		return nil, litefs.ErrLeaseExpired
	}
	s.holder = l.Node
	s.expires = time.Now().Add(s.TTL)
	s.info = litefs.PrimaryInfo{Hostname: l.Host, AdvertiseURL: l.URL}
	s.record(l.Node, "AcquireExisting", leaseID, "ok")
	lease := &SimLease{leaser: l, id: leaseID, renewedAt: time.Now(), handoffCh: make(chan uint64)}
	if l.OnLease != nil {
		l.OnLease(lease)
	}
	return lease, nil
}

func (l *SimLeaser) PrimaryInfo(ctx context.Context) (litefs.PrimaryInfo, error) {
	if dev, ok := l.Svc.script(l.Node, "PrimaryInfo"); ok {
		l.Svc.mu.Lock()
		defer l.Svc.mu.Unlock()
		if dev.StaleInfo != nil {
			l.Svc.record(l.Node, "PrimaryInfo", "", "scripted-stale:"+dev.StaleInfo.Hostname)
			return *dev.StaleInfo, nil
		}
		if dev.Err != nil {
			l.Svc.record(l.Node, "PrimaryInfo", "", "scripted:"+dev.Err.Error())
			return litefs.PrimaryInfo{}, dev.Err
		}
	}
	s := l.Svc
	s.mu.Lock()
	defer s.mu.Unlock()
	s.expireLocked()
	if s.holderID == "" {
		s.record(l.Node, "PrimaryInfo", "", "no-primary")
		return litefs.PrimaryInfo{}, litefs.ErrNoPrimary
	}
	s.record(l.Node, "PrimaryInfo", "", "ok:"+s.info.Hostname)
	return s.info, nil
}

func (l *SimLeaser) ClusterID(ctx context.Context) (string, error) {
	if dev, ok := l.Svc.script(l.Node, "ClusterID"); ok && dev.Err != nil {
		l.Svc.mu.Lock()
		l.Svc.record(l.Node, "ClusterID", "", "scripted:"+dev.Err.Error())
		l.Svc.mu.Unlock()
		return "", dev.Err
	} else if ok && dev.EmptyClusterID {
		l.Svc.mu.Lock()
		l.Svc.record(l.Node, "ClusterID", "", "scripted:empty")
		l.Svc.mu.Unlock()
		return "", nil
	}
	s := l.Svc
	s.mu.Lock()
	defer s.mu.Unlock()
	s.record(l.Node, "ClusterID", "", "ok:"+s.clusterID)
	return s.clusterID, nil
}

func (l *SimLeaser) SetClusterID(ctx context.Context, clusterID string) error {
	if dev, ok := l.Svc.script(l.Node, "SetClusterID"); ok && dev.Err != nil {
		l.Svc.mu.Lock()
		l.Svc.record(l.Node, "SetClusterID", clusterID, "scripted:"+dev.Err.Error())
		l.Svc.mu.Unlock()
		return dev.Err
	}
	s := l.Svc
	s.mu.Lock()
	defer s.mu.Unlock()
	if s.clusterID != "" {
		s.record(l.Node, "SetClusterID", clusterID, "already-set")
		return fmt.Errorf("cluster already initialized, cannot set cluster id")
	}
	s.clusterID = clusterID
	s.record(l.Node, "SetClusterID", clusterID, "ok")
	return nil
}

// SimLease is a lease handed to a node.
type SimLease struct {
	leaser    *SimLeaser
	id        string
	mu        sync.Mutex
	renewedAt time.Time
	handoffCh chan uint64
	Closed    int // number of Close calls
}

var _ litefs.Lease = (*SimLease)(nil)

func (l *SimLease) ID() string { return l.id }
func (l *SimLease) RenewedAt() time.Time {
	l.mu.Lock()
	defer l.mu.Unlock()
	return l.renewedAt
}
func (l *SimLease) TTL() time.Duration { return l.leaser.Svc.TTL }

func (l *SimLease) Renew(ctx context.Context) error {
	s := l.leaser.Svc
	if dev, ok := s.script(l.leaser.Node, "Renew"); ok && dev.Err != nil {
		s.mu.Lock()
		s.record(l.leaser.Node, "Renew", l.id, "scripted:"+dev.Err.Error())
		s.mu.Unlock()
		return dev.Err
	}
	s.mu.Lock()
	defer s.mu.Unlock()
	s.expireLocked()
	if s.holderID != l.id {
		s.record(l.leaser.Node, "Renew", l.id, "expired")
		return litefs.ErrLeaseExpired
	}
	s.expires = time.Now().Add(s.TTL)
	l.mu.Lock()
	l.renewedAt = time.Now()
	l.mu.Unlock()
	s.record(l.leaser.Node, "Renew", l.id, "ok")
	return nil
}

func (l *SimLease) Handoff(ctx context.Context, nodeID uint64) error {
	ctx, cancel := context.WithTimeoutCause(ctx, 5*time.Second, fmt.Errorf("sim handoff timeout"))
	defer cancel()
	s := l.leaser.Svc
	select {
	case <-ctx.Done():
		s.mu.Lock()
		s.record(l.leaser.Node, "Handoff", fmt.Sprintf("%016X", nodeID), "timeout")
		s.mu.Unlock()
		return context.Cause(ctx)
	case l.handoffCh <- nodeID:
		s.mu.Lock()
		s.record(l.leaser.Node, "Handoff", fmt.Sprintf("%016X", nodeID), "ok")
		s.mu.Unlock()
		return nil
	}
}

func (l *SimLease) HandoffCh() <-chan uint64 { return l.handoffCh }

func (l *SimLease) Close() error {
	s := l.leaser.Svc
	s.mu.Lock()
	defer s.mu.Unlock()
	l.mu.Lock()
	l.Closed++
	l.mu.Unlock()
	if s.holderID == l.id {
		s.holderID, s.holder = "", ""
		s.record(l.leaser.Node, "Close", l.id, "released")
	} else {
		s.record(l.leaser.Node, "Close", l.id, "not-holder")
	}
	return nil
}
