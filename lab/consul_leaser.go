package lab

import (
	"context"
	"encoding/json"
	"errors"
	"sync"
	"time"

	"github.com/superfly/litefs"
	"github.com/superfly/litefs/consul"
)

// RecLeaser runs the real consul.Leaser (talking to a FakeConsul through the
// lab network) behind the same scripting and call log as SimLeaser: before
// every call the LeaseService script is consulted, a deviation is turned into
// the Consul answer that produces it (see faultFor), and the call and its
// outcome are recorded in the service's log in SimLeaser's vocabulary.
type RecLeaser struct {
	Inner *consul.Leaser
	Svc   *LeaseService
	Node  string
	Fake  *FakeConsul
	Key   string

	OnLease func(l *RecLease)

	mu      sync.Mutex
	pending string
}

// NewRecLeaser creates and opens the Consul leaser of node. The caller must have set consul.VerifHTTPClient.
func NewRecLeaser(svc *LeaseService, fake *FakeConsul, node, key string, ttl time.Duration) (*RecLeaser, error) {
	in := consul.NewLeaser("http://consul", key, node, "http://"+node)
	in.TTL = ttl
	if err := in.Open(); err != nil {
		return nil, err
	}
	return &RecLeaser{Inner: in, Svc: svc, Node: node, Fake: fake, Key: key}, nil
}

func (l *RecLeaser) setPending(p string) { l.mu.Lock(); l.pending = p; l.mu.Unlock() }

// FaultFor maps the deviation pending for the current leaser call to the answer of one Consul request.
func (l *RecLeaser) FaultFor(op string) string {
	l.mu.Lock()
	defer l.mu.Unlock()
	switch l.pending {
	case "create-500":
		if op == "session.create" {
			return "500"
		}
	case "acquire-false":
		if op == "kv.acquire" {
			return "false"
		}
	case "renew-500":
		if op == "session.renew" {
			return "500"
		}
	case "renew-expire":
		if op == "session.renew" {
			return "expire"
		}
	case "get-404":
		if op == "kv.get" {
			return "404"
		}
	case "get-500":
		if op == "kv.get" {
			return "500"
		}
	case "put-500":
		if op == "kv.put" {
			return "500"
		}
	default:
		if len(l.pending) > 6 && l.pending[:6] == "value:" && op == "kv.get" {
			return l.pending
		}
	}
	return ""
}

func (l *RecLeaser) rec(call, arg, result string) {
	l.Svc.mu.Lock()
	l.Svc.record(l.Node, call, arg, result)
	l.Svc.mu.Unlock()
}

func errResult(err error) string {
	switch {
	case err == nil:
		return "ok"
	case errors.Is(err, litefs.ErrPrimaryExists):
		return "primary-exists"
	case errors.Is(err, litefs.ErrLeaseExpired):
		return "expired"
	case errors.Is(err, litefs.ErrNoPrimary):
		return "no-primary"
	}
	return "error:" + err.Error()
}

func (l *RecLeaser) Close() error         { return l.Inner.Close() }
func (l *RecLeaser) Type() string         { return l.Inner.Type() }
func (l *RecLeaser) Hostname() string     { return l.Inner.Hostname() }
func (l *RecLeaser) AdvertiseURL() string { return l.Inner.AdvertiseURL() }

func (l *RecLeaser) Acquire(ctx context.Context) (litefs.Lease, error) {
	scripted := ""
	if dev, ok := l.Svc.script(l.Node, "Acquire"); ok && dev.Err != nil {
		scripted = "scripted:" + dev.Err.Error()
		if errors.Is(dev.Err, litefs.ErrPrimaryExists) {
			l.setPending("acquire-false")
		} else {
			l.setPending("create-500")
		}
	}
	in, err := l.Inner.Acquire(ctx)
	l.setPending("")
	if err != nil {
		if scripted != "" {
			l.rec("Acquire", "", scripted+" -> "+errResult(err))
		} else {
			l.rec("Acquire", "", errResult(err))
		}
		return nil, err
	}
	l.rec("Acquire", "", "ok:"+in.ID())
	lease := &RecLease{Lease: in, leaser: l}
	if l.OnLease != nil {
		l.OnLease(lease)
	}
	return lease, nil
}

func (l *RecLeaser) AcquireExisting(ctx context.Context, leaseID string) (litefs.Lease, error) {
	scripted := ""
	if dev, ok := l.Svc.script(l.Node, "AcquireExisting"); ok && dev.Err != nil {
		scripted = "scripted:" + dev.Err.Error()
		l.setPending("renew-500")
	}
	in, err := l.Inner.AcquireExisting(ctx, leaseID)
	l.setPending("")
	if err != nil {
		l.rec("AcquireExisting", leaseID, scripted+errResult(err))
		return nil, err
	}
	l.rec("AcquireExisting", leaseID, "ok")
	lease := &RecLease{Lease: in, leaser: l}
	if l.OnLease != nil {
		l.OnLease(lease)
	}
	return lease, nil
}

func (l *RecLeaser) PrimaryInfo(ctx context.Context) (litefs.PrimaryInfo, error) {
	if dev, ok := l.Svc.script(l.Node, "PrimaryInfo"); ok {
		switch {
		case dev.StaleInfo != nil:
			b, _ := json.Marshal(dev.StaleInfo)
			l.setPending("value:" + string(b))
		case errors.Is(dev.Err, litefs.ErrNoPrimary):
			l.setPending("get-404")
		case dev.Err != nil:
			l.setPending("get-500")
		}
	}
	info, err := l.Inner.PrimaryInfo(ctx)
	l.setPending("")
	if err != nil {
		l.rec("PrimaryInfo", "", errResult(err))
	} else {
		l.rec("PrimaryInfo", "", "ok:"+info.Hostname)
	}
	return info, err
}

func (l *RecLeaser) ClusterID(ctx context.Context) (string, error) {
	if dev, ok := l.Svc.script(l.Node, "ClusterID"); ok {
		if dev.Err != nil {
			l.setPending("get-500")
		} else if dev.EmptyClusterID {
			l.setPending("get-404")
		}
	}
	id, err := l.Inner.ClusterID(ctx)
	l.setPending("")
	if err != nil {
		l.rec("ClusterID", "", errResult(err))
	} else {
		l.rec("ClusterID", "", "ok:"+id)
	}
	return id, err
}

func (l *RecLeaser) SetClusterID(ctx context.Context, clusterID string) error {
	if dev, ok := l.Svc.script(l.Node, "SetClusterID"); ok && dev.Err != nil {
		l.setPending("put-500")
	}
	err := l.Inner.SetClusterID(ctx, clusterID)
	l.setPending("")
	l.rec("SetClusterID", clusterID, errResult(err))
	return err
}

// RecLease wraps a consul lease.
type RecLease struct {
	litefs.Lease
	leaser *RecLeaser
	mu     sync.Mutex
	closed int
}

// NClosed returns how often Close was called.
func (l *RecLease) NClosed() int { l.mu.Lock(); defer l.mu.Unlock(); return l.closed }

func (l *RecLease) Renew(ctx context.Context) error {
	scripted := ""
	if dev, ok := l.leaser.Svc.script(l.leaser.Node, "Renew"); ok && dev.Err != nil {
		scripted = "y"
		if errors.Is(dev.Err, litefs.ErrLeaseExpired) {
			l.leaser.setPending("renew-expire")
		} else {
			l.leaser.setPending("renew-500")
		}
	}
	err := l.Lease.Renew(ctx)
	l.leaser.setPending("")
	res := errResult(err)
	if scripted != "" {
		res += " [scripted]"
	}
	l.leaser.rec("Renew", l.ID(), res)
	return err
}

func (l *RecLease) Close() error {
	l.mu.Lock()
	l.closed++
	l.mu.Unlock()
	holder, _ := l.leaser.Fake.Holder(l.leaser.Key)
	err := l.Lease.Close()
	if holder == l.ID() {
		l.leaser.rec("Close", l.ID(), "released")
	} else {
		l.leaser.rec("Close", l.ID(), "not-holder")
	}
	return err
}

// NClosed returns how often Close was called on the simulated lease.
func (l *SimLease) NClosed() int {
	l.mu.Lock()
	defer l.mu.Unlock()
	return l.Closed
}
