// Package lab is the node laboratory: real litefs.Store instances driven
// through the real handler methods of package litefs/fuse, with the kernel's
// role (POSIX lock owners, page cache refreshed only by explicit invalidation)
// played by a small simulator.
package lab

import (
	"context"
	"errors"
	"fmt"
	"io"
	"sort"
	"sync"
	"syscall"

	bfuse "bazil.org/fuse"
	"bazil.org/fuse/fs"
	"github.com/superfly/litefs"
	lfuse "github.com/superfly/litefs/fuse"
)

// CachePage is the kernel page-cache granularity.
const CachePage = 4096

// PageCache simulates the kernel page cache of one mount. Data is cached on
// read and on the node's own writes and is dropped ONLY by Invalidator calls
// (the mount uses ExplicitInvalidateData and OpenKeepCache).
type PageCache struct {
	mu    sync.Mutex
	files map[string]map[int64][]byte // name -> cache page index -> bytes (short page = EOF inside)
	Log   []string                    // invalidation log (most recent last), bounded
	// Disabled turns the cache into a pass-through (used to diagnose).
	Disabled bool
}

func NewPageCache() *PageCache { return &PageCache{files: map[string]map[int64][]byte{}} }

func (pc *PageCache) logf(format string, args ...any) {
	if len(pc.Log) > 256 {
		pc.Log = pc.Log[128:]
	}
	pc.Log = append(pc.Log, fmt.Sprintf(format, args...))
}

func (pc *PageCache) dropAll(name string) {
	pc.mu.Lock()
	delete(pc.files, name)
	pc.logf("inval-all %s", name)
	pc.mu.Unlock()
}

func (pc *PageCache) dropRange(name string, off, size int64) {
	pc.mu.Lock()
	defer pc.mu.Unlock()
	pc.logf("inval-range %s %d+%d", name, off, size)
	m := pc.files[name]
	if m == nil {
		return
	}
	if size <= 0 {
		for idx := range m {
			if idx >= off/CachePage {
				delete(m, idx)
			}
		}
		return
	}
	for idx := off / CachePage; idx <= (off+size-1)/CachePage; idx++ {
		delete(m, idx)
	}
}

func (pc *PageCache) get(name string, idx int64) ([]byte, bool) {
	pc.mu.Lock()
	defer pc.mu.Unlock()
	if pc.Disabled {
		return nil, false
	}
	b, ok := pc.files[name][idx]
	return b, ok
}

func (pc *PageCache) put(name string, idx int64, b []byte) {
	pc.mu.Lock()
	defer pc.mu.Unlock()
	if pc.Disabled {
		return
	}
	m := pc.files[name]
	if m == nil {
		m = map[int64][]byte{}
		pc.files[name] = m
	}
	m[idx] = append([]byte(nil), b...)
}

// truncate drops cached data beyond size (the kernel truncates the page cache on setattr(size)).
func (pc *PageCache) truncate(name string, size int64) {
	pc.mu.Lock()
	defer pc.mu.Unlock()
	m := pc.files[name]
	for idx, b := range m {
		switch {
		case idx*CachePage >= size:
			delete(m, idx)
		case idx*CachePage+int64(len(b)) > size:
			m[idx] = b[:size-idx*CachePage]
		}
	}
}

// written merges a successful write into the cache (write-through, as with writeback caching off).
func (pc *PageCache) written(name string, off int64, data []byte) {
	pc.mu.Lock()
	defer pc.mu.Unlock()
	if pc.Disabled {
		return
	}
	m := pc.files[name]
	if m == nil {
		m = map[int64][]byte{}
		pc.files[name] = m
	}
	for len(data) > 0 {
		idx := off / CachePage
		in := off % CachePage
		n := int64(len(data))
		if n > CachePage-in {
			n = CachePage - in
		}
		cur, ok := m[idx]
		switch {
		case ok:
			nb := append([]byte(nil), cur...)
			if int64(len(nb)) < in+n {
				nb = append(nb, make([]byte, in+n-int64(len(nb)))...)
			}
			copy(nb[in:], data[:n])
			m[idx] = nb
		case in == 0 && n == CachePage:
			m[idx] = append([]byte(nil), data[:n]...)
		default:
			// partial write to a page that is not cached: stays uncached
		}
		off += n
		data = data[n:]
	}
}

// Invalidator adapts the page cache to litefs.Invalidator.
type Invalidator struct {
	PC *PageCache
	// M, when set, lets an entry invalidation also drop the node object the root
	// directory caches: the kernel drops the dentry and, with no open file
	// referencing the inode, sends FORGET, which is what removes the cached node.
	M *Mount
}

var _ litefs.Invalidator = (*Invalidator)(nil)

func (iv *Invalidator) InvalidateDB(db *litefs.DB) error { iv.PC.dropAll(db.Name()); return nil }
func (iv *Invalidator) InvalidateDBRange(db *litefs.DB, offset, size int64) error {
	iv.PC.dropRange(db.Name(), offset, size)
	return nil
}
func (iv *Invalidator) InvalidateSHM(db *litefs.DB) error {
	iv.PC.dropAll(db.Name() + "-shm")
	return nil
}
func (iv *Invalidator) InvalidatePos(db *litefs.DB) error {
	iv.PC.dropAll(db.Name() + "-pos")
	return nil
}
func (iv *Invalidator) InvalidateEntry(name string) error {
	iv.PC.dropAll(name)
	if iv.M != nil {
		iv.M.Root.ForgetNodeByName(name)
	}
	return nil
}
func (iv *Invalidator) InvalidateLag() error { return nil }

// Mount drives the handler methods of litefs/fuse the way the kernel would.
type Mount struct {
	FS    *lfuse.FileSystem
	Store *litefs.Store
	PC    *PageCache
	Root  *lfuse.RootNode
	ctx   context.Context

	OpLog func(string) // optional trace of every kernel-level operation
}

func NewMount(store *litefs.Store, pc *PageCache) *Mount {
	fsys := lfuse.NewFileSystem("/nonexistent-mountpoint", store)
	fsys.VerifAttachServer()
	root, _ := fsys.Root()
	return &Mount{FS: fsys, Store: store, PC: pc, Root: root.(*lfuse.RootNode), ctx: context.Background()}
}

func (m *Mount) trace(format string, args ...any) {
	if m.OpLog != nil {
		m.OpLog(fmt.Sprintf(format, args...))
	}
}

// Errno extracts the FUSE errno a handler error would be sent to the kernel as.
func Errno(err error) syscall.Errno {
	if err == nil {
		return 0
	}
	return syscall.Errno(bfuse.ToErrno(err))
}

// IsErrno reports whether err maps to errno e.
func IsErrno(err error, e syscall.Errno) bool { return err != nil && Errno(err) == e }

// File is an open file description held by one lock owner.
type File struct {
	M     *Mount
	Name  string
	Node  fs.Node
	H     fs.Handle
	Owner uint64
}

// Lookup resolves a name in the root directory.
func (m *Mount) Lookup(name string) (fs.Node, error) {
	node, err := m.Root.Lookup(m.ctx, name)
	if err != nil {
		return nil, err
	}
	// bazil's LOOKUP handler fills the entry's attributes with node.Attr(); an
	// error there is the LOOKUP's error (e.g. ENOENT for a remembered, dropped database).
	var a bfuse.Attr
	if err := node.Attr(m.ctx, &a); err != nil {
		return nil, err
	}
	return node, nil
}

// Open opens an existing file.
func (m *Mount) Open(name string, owner uint64) (*File, error) {
	node, err := m.Lookup(name)
	if err != nil {
		m.trace("open %s -> %v", name, err)
		return nil, err
	}
	opener, ok := node.(fs.NodeOpener)
	if !ok {
		return nil, syscall.ENOSYS
	}
	var resp bfuse.OpenResponse
	h, err := opener.Open(m.ctx, &bfuse.OpenRequest{Flags: bfuse.OpenReadWrite}, &resp)
	m.trace("open %s -> %v", name, err)
	if err != nil {
		return nil, err
	}
	return &File{M: m, Name: name, Node: node, H: h, Owner: owner}, nil
}

// Create creates a file (O_CREAT|O_EXCL semantics: the kernel looks the name up first).
func (m *Mount) Create(name string, owner uint64) (*File, error) {
	if _, err := m.Lookup(name); err == nil {
		m.trace("create %s -> EEXIST", name)
		return nil, syscall.EEXIST
	}
	var resp bfuse.CreateResponse
	node, h, err := m.Root.Create(m.ctx, &bfuse.CreateRequest{Name: name, Flags: bfuse.OpenReadWrite | bfuse.OpenCreate | bfuse.OpenExclusive, Mode: 0o644}, &resp)
	m.trace("create %s -> %v", name, err)
	if err != nil {
		return nil, err
	}
	// A new inode starts with an empty page cache.
	m.PC.dropAll(name)
	return &File{M: m, Name: name, Node: node, H: h, Owner: owner}, nil
}

// OpenOrCreate is open(O_CREAT) without O_EXCL.
func (m *Mount) OpenOrCreate(name string, owner uint64) (*File, bool, error) {
	if _, err := m.Lookup(name); err == nil {
		f, err := m.Open(name, owner)
		return f, false, err
	}
	f, err := m.Create(name, owner)
	return f, true, err
}

// Exists reports whether a lookup of name succeeds.
func (m *Mount) Exists(name string) bool {
	node, err := m.Lookup(name)
	if err != nil {
		return false
	}
	var a bfuse.Attr
	if err := node.Attr(m.ctx, &a); err != nil {
		// The node object is cached by the root but the file is gone: the kernel would drop it.
		m.forget(name, node)
		return false
	}
	return true
}

func (m *Mount) forget(name string, node fs.Node) {
	if f, ok := node.(fs.NodeForgetter); ok {
		f.Forget()
	} else {
		m.Root.ForgetNodeByName(name)
	}
}

// Remove unlinks a file.
func (m *Mount) Remove(name string) error {
	node, lerr := m.Lookup(name)
	if lerr != nil {
		m.trace("unlink %s -> %v", name, lerr)
		return lerr
	}
	err := m.Root.Remove(m.ctx, &bfuse.RemoveRequest{Name: name})
	m.trace("unlink %s -> %v", name, err)
	if err == nil {
		m.forget(name, node)
		m.PC.dropAll(name)
	}
	return err
}

// Attr returns size and mode of a name.
func (m *Mount) Attr(name string) (bfuse.Attr, error) {
	var a bfuse.Attr
	node, err := m.Lookup(name)
	if err != nil {
		return a, err
	}
	err = node.Attr(m.ctx, &a)
	return a, err
}

// RootAttr returns the attributes of the mount's root directory.
func (m *Mount) RootAttr() bfuse.Attr {
	var a bfuse.Attr
	_ = m.Root.Attr(m.ctx, &a)
	return a
}

// ReadDir lists the root directory.
func (m *Mount) ReadDir() ([]string, error) {
	var resp bfuse.OpenResponse
	h, err := m.Root.Open(m.ctx, &bfuse.OpenRequest{Dir: true}, &resp)
	if err != nil {
		return nil, err
	}
	ents, err := h.(fs.HandleReadDirAller).ReadDirAll(m.ctx)
	if err != nil {
		return nil, err
	}
	names := make([]string, 0, len(ents))
	for _, e := range ents {
		names = append(names, e.Name)
	}
	sort.Strings(names)
	return names, nil
}

// Size returns the current size from a fresh getattr (attr validity is zero on this mount).
func (f *File) Size() (int64, error) {
	var a bfuse.Attr
	if err := f.Node.Attr(f.M.ctx, &a); err != nil {
		return 0, err
	}
	return int64(a.Size), nil
}

func (f *File) readDirect(off int64, n int) ([]byte, error) {
	rd, ok := f.H.(fs.HandleReader)
	if !ok {
		return nil, syscall.ENOSYS
	}
	resp := bfuse.ReadResponse{Data: make([]byte, 0, n)}
	err := rd.Read(f.M.ctx, &bfuse.ReadRequest{Offset: off, Size: n, LockOwner: bfuse.LockOwner(f.Owner)}, &resp)
	if err == io.EOF {
		err = nil
	}
	if err != nil {
		return nil, err
	}
	return resp.Data, nil
}

// Pread reads through the simulated page cache.
func (f *File) Pread(off int64, n int) ([]byte, error) {
	size, err := f.Size()
	if err != nil {
		return nil, err
	}
	// The kernel has just learnt the file's size: if the file shrank behind its back (LiteFS truncated it while
	// applying a transaction) the cached pages beyond the new size are dropped (fuse_change_attributes ->
	// truncate_pagecache), so that they cannot come back when the file grows again.
	f.M.PC.truncate(f.Name, size)
	if off >= size {
		return nil, nil
	}
	if off+int64(n) > size {
		n = int(size - off)
	}
	out := make([]byte, 0, n)
	for len(out) < n {
		pos := off + int64(len(out))
		idx := pos / CachePage
		pg, ok := f.M.PC.get(f.Name, idx)
		if !ok {
			b, err := f.readDirect(idx*CachePage, CachePage)
			if err != nil {
				return nil, err
			}
			pg = b
			f.M.PC.put(f.Name, idx, pg)
		}
		in := pos % CachePage
		if in >= int64(len(pg)) {
			// Cached page is shorter than the file now says: the rest reads as zeros (kernel zero-fills a short page).
			need := int64(n-len(out)) + in
			if need > CachePage {
				need = CachePage
			}
			pg = append(append([]byte(nil), pg...), make([]byte, need-int64(len(pg)))...)
		}
		take := int64(n - len(out))
		if take > int64(len(pg))-in {
			take = int64(len(pg)) - in
		}
		out = append(out, pg[in:in+take]...)
	}
	return out, nil
}

// PreadDirect bypasses the cache (diagnostics / oracle only).
func (f *File) PreadDirect(off int64, n int) ([]byte, error) { return f.readDirect(off, n) }

// Pwrite issues one write request.
func (f *File) Pwrite(off int64, data []byte) error {
	w, ok := f.H.(fs.HandleWriter)
	if !ok {
		return syscall.ENOSYS
	}
	var resp bfuse.WriteResponse
	err := w.Write(f.M.ctx, &bfuse.WriteRequest{Offset: off, Data: append([]byte(nil), data...), LockOwner: bfuse.LockOwner(f.Owner)}, &resp)
	f.M.trace("write %s off=%d n=%d -> %v", f.Name, off, len(data), err)
	if err != nil {
		return err
	}
	if resp.Size != len(data) {
		return fmt.Errorf("short write: %d of %d", resp.Size, len(data))
	}
	f.M.PC.written(f.Name, off, data)
	return nil
}

// Truncate is ftruncate().
func (f *File) Truncate(size int64) error {
	sa, ok := f.Node.(fs.NodeSetattrer)
	if !ok {
		return syscall.ENOSYS
	}
	var resp bfuse.SetattrResponse
	err := sa.Setattr(f.M.ctx, &bfuse.SetattrRequest{Valid: bfuse.SetattrSize, Size: uint64(size)}, &resp)
	f.M.trace("truncate %s size=%d -> %v", f.Name, size, err)
	if err == nil {
		f.M.PC.truncate(f.Name, size)
	}
	return err
}

// Fsync is fsync().
func (f *File) Fsync() error {
	fsn, ok := f.Node.(fs.NodeFsyncer)
	if !ok {
		return syscall.ENOSYS
	}
	err := fsn.Fsync(f.M.ctx, &bfuse.FsyncRequest{})
	f.M.trace("fsync %s -> %v", f.Name, err)
	return err
}

// ErrBusy is what a failed non-blocking lock attempt returns (EAGAIN).
var ErrBusy = syscall.EAGAIN

// Lock is fcntl(F_SETLK) with F_RDLCK / F_WRLCK on the inclusive byte range [start, end].
func (f *File) Lock(start, end uint64, write bool) error {
	lk, ok := f.H.(fs.HandlePOSIXLocker)
	if !ok {
		return syscall.ENOSYS
	}
	typ := bfuse.LockRead
	if write {
		typ = bfuse.LockWrite
	}
	err := lk.Lock(f.M.ctx, &bfuse.LockRequest{LockOwner: bfuse.LockOwner(f.Owner), Lock: bfuse.FileLock{Start: start, End: end, Type: typ}})
	f.M.trace("lock %s owner=%d %d..%d %v -> %v", f.Name, f.Owner, start, end, typ, err)
	return err
}

// LockWait is fcntl(F_SETLKW).
func (f *File) LockWait(ctx context.Context, start, end uint64, write bool) error {
	lk, ok := f.H.(fs.HandlePOSIXLocker)
	if !ok {
		return syscall.ENOSYS
	}
	typ := bfuse.LockRead
	if write {
		typ = bfuse.LockWrite
	}
	err := lk.LockWait(ctx, &bfuse.LockWaitRequest{LockOwner: bfuse.LockOwner(f.Owner), Lock: bfuse.FileLock{Start: start, End: end, Type: typ}})
	f.M.trace("lockwait %s owner=%d %d..%d %v -> %v", f.Name, f.Owner, start, end, typ, err)
	return err
}

// Unlock is fcntl(F_SETLK) with F_UNLCK.
func (f *File) Unlock(start, end uint64) error {
	lk, ok := f.H.(fs.HandlePOSIXLocker)
	if !ok {
		return syscall.ENOSYS
	}
	err := lk.Unlock(f.M.ctx, &bfuse.UnlockRequest{LockOwner: bfuse.LockOwner(f.Owner), Lock: bfuse.FileLock{Start: start, End: end, Type: bfuse.LockUnlock}})
	f.M.trace("unlock %s owner=%d %d..%d -> %v", f.Name, f.Owner, start, end, err)
	return err
}

// UnlockCtx is Unlock under a context of the caller's: cancelling it is the FUSE INTERRUPT a signal sends while the
// request is in flight.
func (f *File) UnlockCtx(ctx context.Context, start, end uint64) error {
	lk, ok := f.H.(fs.HandlePOSIXLocker)
	if !ok {
		return syscall.ENOSYS
	}
	err := lk.Unlock(ctx, &bfuse.UnlockRequest{LockOwner: bfuse.LockOwner(f.Owner), Lock: bfuse.FileLock{Start: start, End: end, Type: bfuse.LockUnlock}})
	f.M.trace("unlock(ctx) %s owner=%d %d..%d -> %v", f.Name, f.Owner, start, end, err)
	return err
}

// Query is fcntl(F_GETLK): it returns the conflicting lock type, or LockUnlock when the request would succeed.
func (f *File) Query(start, end uint64, write bool) (bfuse.LockType, error) {
	lk, ok := f.H.(fs.HandlePOSIXLocker)
	if !ok {
		return 0, syscall.ENOSYS
	}
	typ := bfuse.LockRead
	if write {
		typ = bfuse.LockWrite
	}
	resp := bfuse.QueryLockResponse{Lock: bfuse.FileLock{Type: bfuse.LockUnlock}}
	err := lk.QueryLock(f.M.ctx, &bfuse.QueryLockRequest{LockOwner: bfuse.LockOwner(f.Owner), Lock: bfuse.FileLock{Start: start, End: end, Type: typ}}, &resp)
	return resp.Lock.Type, err
}

// Close is close(): flush (drops this owner's POSIX locks on the file) then release.
func (f *File) Close() error {
	var err error
	if fl, ok := f.H.(fs.HandleFlusher); ok {
		err = fl.Flush(f.M.ctx, &bfuse.FlushRequest{LockOwner: bfuse.LockOwner(f.Owner)})
	}
	if rl, ok := f.H.(fs.HandleReleaser); ok {
		if e := rl.Release(f.M.ctx, &bfuse.ReleaseRequest{LockOwner: bfuse.LockOwner(f.Owner)}); err == nil {
			err = e
		}
	}
	f.M.trace("close %s owner=%d -> %v", f.Name, f.Owner, err)
	return err
}

// Flush issues the FLUSH request a close(2) of one descriptor sends (the handle stays usable: other descriptors
// of the same open file may still exist, and RELEASE only follows the last one).
func (f *File) Flush() error {
	if fl, ok := f.H.(fs.HandleFlusher); ok {
		return fl.Flush(f.M.ctx, &bfuse.FlushRequest{LockOwner: bfuse.LockOwner(f.Owner)})
	}
	return nil
}

// ReadAll reads the whole file through the cache.
func (f *File) ReadAll() ([]byte, error) {
	size, err := f.Size()
	if err != nil {
		return nil, err
	}
	return f.Pread(0, int(size))
}

// ReadPos reads and parses "<db>-pos" through the cache.
func (m *Mount) ReadPos(db string) (string, error) {
	f, err := m.Open(db+"-pos", 0)
	if err != nil {
		return "", err
	}
	defer f.Close()
	b, err := f.Pread(0, lfuse.PosFileSize)
	if err != nil {
		return "", err
	}
	if len(b) == 0 {
		return "", errors.New("empty pos file")
	}
	return string(b), nil
}
