package lab

import (
	"encoding/base64"
	"encoding/json"
	"fmt"
	"io"
	"net/http"
	"strings"
	"sync"
	"time"
)

// FakeConsul is an in-process Consul HTTP endpoint implementing the part of
// the session and KV API that consul.Leaser uses:
//
//	PUT /v1/session/create            -> {"ID": ...}
//	PUT /v1/session/renew/<id>        -> [entry] | 404
//	PUT /v1/session/destroy/<id>      -> true
//	GET /v1/kv/<key>                  -> [pair] | 404
//	PUT /v1/kv/<key>                  -> true
//	PUT /v1/kv/<key>?acquire=<id>     -> true | false
//	PUT /v1/kv/<key>?release=<id>     -> true | false
//	PUT /v1/catalog/register          -> true
//
// with Consul's semantics for them: a session lives for its TTL after its
// creation or last renewal (on the fake clock; Consul may keep it up to twice
// as long, the earliest moment is what safety has to allow for); invalidating a
// session that holds a lock with behaviour "delete" deletes the key and starts
// the lock delay during which nobody can acquire it; releasing a lock clears
// the key's session but keeps its value.
type FakeConsul struct {
	mu       sync.Mutex
	sessions map[string]*consulSession
	kv       map[string]*consulPair
	delay    map[string]time.Time // key -> end of lock delay
	seq      int
	index    uint64
	Log      []string

	// Fault, if set, is asked before every request (in the handler's goroutine) whether to answer differently:
	// "" = truthfully, "500" = internal error, "404" = not found, "false" = a KV write answers false,
	// "expire" = (session renew) the session is invalidated first, then answered truthfully (404),
	// "value:<json>" = (KV get) answer with this value.
	Fault func(from, op string, r *http.Request) string
}

type consulSession struct {
	ID        string
	Behavior  string
	TTL       time.Duration
	LockDelay time.Duration
	Expires   time.Time
	Creator   string
}

type consulPair struct {
	Value       []byte
	Session     string
	CreateIndex uint64
	ModifyIndex uint64
	LockIndex   uint64
}

func NewFakeConsul() *FakeConsul {
	return &FakeConsul{sessions: map[string]*consulSession{}, kv: map[string]*consulPair{}, delay: map[string]time.Time{}, index: 10}
}

func (c *FakeConsul) logf(format string, args ...any) {
	if len(c.Log) < 4096 {
		c.Log = append(c.Log, fmt.Sprintf(format, args...))
	}
}

// expireLocked invalidates every session whose TTL has run out.
func (c *FakeConsul) expireLocked() {
	now := time.Now()
	for id, s := range c.sessions {
		if !now.Before(s.Expires) {
			c.invalidateLocked(id, "ttl")
		}
	}
}

func (c *FakeConsul) invalidateLocked(id, why string) {
	s := c.sessions[id]
	if s == nil {
		return
	}
	delete(c.sessions, id)
	for k, p := range c.kv {
		if p.Session == id {
			c.index++
			if s.Behavior == "delete" {
				delete(c.kv, k)
			} else {
				p.Session = ""
				p.ModifyIndex = c.index
			}
			if s.LockDelay > 0 {
				c.delay[k] = time.Now().Add(s.LockDelay)
			}
		}
	}
	c.logf("session %s invalidated (%s)", id, why)
}

// Holder returns the session holding key and the key's value.
func (c *FakeConsul) Holder(key string) (session string, value []byte) {
	c.mu.Lock()
	defer c.mu.Unlock()
	c.expireLocked()
	if p := c.kv[key]; p != nil {
		return p.Session, append([]byte(nil), p.Value...)
	}
	return "", nil
}

// Value returns the value stored under key ("" if absent).
func (c *FakeConsul) Value(key string) string {
	c.mu.Lock()
	defer c.mu.Unlock()
	if p := c.kv[key]; p != nil {
		return string(p.Value)
	}
	return ""
}

// SetValue stores a plain value (lab setup).
func (c *FakeConsul) SetValue(key, v string) {
	c.mu.Lock()
	defer c.mu.Unlock()
	c.index++
	c.kv[key] = &consulPair{Value: []byte(v), CreateIndex: c.index, ModifyIndex: c.index}
}

// SessionLive reports whether the session exists (after applying TTLs).
func (c *FakeConsul) SessionLive(id string) bool {
	c.mu.Lock()
	defer c.mu.Unlock()
	c.expireLocked()
	return c.sessions[id] != nil
}

// SessionExpires returns the session's current expiry time.
func (c *FakeConsul) SessionExpires(id string) (time.Time, bool) {
	c.mu.Lock()
	defer c.mu.Unlock()
	if s := c.sessions[id]; s != nil {
		return s.Expires, true
	}
	return time.Time{}, false
}

// Steal makes a foreign session the holder of key (an operator deleted the key and another node acquired it, or a
// node of another deployment shares the key): truthful answers about the key change accordingly.
func (c *FakeConsul) Steal(key string) string {
	c.mu.Lock()
	defer c.mu.Unlock()
	c.seq++
	id := fmt.Sprintf("5e55-%04d-foreign", c.seq)
	c.sessions[id] = &consulSession{ID: id, Behavior: "delete", TTL: time.Hour, Expires: time.Now().Add(time.Hour), Creator: "foreign"}
	c.index++
	pr := c.kv[key]
	if pr == nil {
		pr = &consulPair{CreateIndex: c.index}
		c.kv[key] = pr
	}
	pr.Session, pr.ModifyIndex = id, c.index
	pr.LockIndex++
	c.logf("key %s taken over by foreign session %s", key, id)
	return id
}

// Invalidate destroys a session from outside (operator action, node health check failing).
func (c *FakeConsul) Invalidate(id string) {
	c.mu.Lock()
	defer c.mu.Unlock()
	c.invalidateLocked(id, "forced")
}

func (c *FakeConsul) meta(w http.ResponseWriter) {
	w.Header().Set("X-Consul-Index", fmt.Sprint(c.index))
	w.Header().Set("X-Consul-KnownLeader", "true")
	w.Header().Set("X-Consul-LastContact", "0")
	w.Header().Set("Content-Type", "application/json")
}

func (c *FakeConsul) ServeHTTP(w http.ResponseWriter, r *http.Request) {
	from := r.RemoteAddr
	p := r.URL.Path
	op := ""
	switch {
	case r.Method == "PUT" && p == "/v1/session/create":
		op = "session.create"
	case r.Method == "PUT" && strings.HasPrefix(p, "/v1/session/renew/"):
		op = "session.renew"
	case r.Method == "PUT" && strings.HasPrefix(p, "/v1/session/destroy/"):
		op = "session.destroy"
	case r.Method == "GET" && strings.HasPrefix(p, "/v1/kv/"):
		op = "kv.get"
	case r.Method == "PUT" && strings.HasPrefix(p, "/v1/kv/") && r.URL.Query().Has("acquire"):
		op = "kv.acquire"
	case r.Method == "PUT" && strings.HasPrefix(p, "/v1/kv/") && r.URL.Query().Has("release"):
		op = "kv.release"
	case r.Method == "PUT" && strings.HasPrefix(p, "/v1/kv/"):
		op = "kv.put"
	case r.Method == "PUT" && p == "/v1/catalog/register":
		op = "catalog.register"
	}
	body, _ := io.ReadAll(r.Body)
	fault := ""
	if c.Fault != nil {
		fault = c.Fault(from, op, r)
	}
	c.mu.Lock()
	defer c.mu.Unlock()
	c.expireLocked()
	c.meta(w)
	if op == "" {
		w.WriteHeader(404)
		return
	}
	switch fault {
	case "500":
		c.logf("%s %s %s -> injected 500", from, op, p)
		w.WriteHeader(500)
		_, _ = w.Write([]byte("injected internal error"))
		return
	case "404":
		c.logf("%s %s %s -> injected 404", from, op, p)
		w.WriteHeader(404)
		return
	case "false":
		c.logf("%s %s %s -> injected false", from, op, p)
		_, _ = w.Write([]byte("false"))
		return
	}
	switch op {
	case "session.create":
		var in struct {
			Behavior  string
			TTL       string
			LockDelay any
		}
		_ = json.Unmarshal(body, &in)
		ttl, _ := time.ParseDuration(in.TTL)
		if ttl == 0 {
			ttl = 10 * time.Second
		}
		var ld time.Duration
		switch v := in.LockDelay.(type) {
		case float64:
			ld = time.Duration(v)
		case string:
			ld, _ = time.ParseDuration(v)
		}
		c.seq++
		id := fmt.Sprintf("5e55-%04d-%s", c.seq, from)
		c.sessions[id] = &consulSession{ID: id, Behavior: in.Behavior, TTL: ttl, LockDelay: ld, Expires: time.Now().Add(ttl), Creator: from}
		c.logf("%s session.create -> %s ttl=%s lockdelay=%s behavior=%s", from, id, ttl, ld, in.Behavior)
		_ = json.NewEncoder(w).Encode(map[string]string{"ID": id})
	case "session.renew":
		id := strings.TrimPrefix(p, "/v1/session/renew/")
		if fault == "expire" {
			c.invalidateLocked(id, "injected")
		}
		s := c.sessions[id]
		if s == nil {
			c.logf("%s session.renew %s -> 404", from, id)
			w.WriteHeader(404)
			return
		}
		s.Expires = time.Now().Add(s.TTL)
		c.logf("%s session.renew %s -> ok", from, id)
		_ = json.NewEncoder(w).Encode([]map[string]any{{"ID": id, "TTL": s.TTL.String(), "Behavior": s.Behavior}})
	case "session.destroy":
		id := strings.TrimPrefix(p, "/v1/session/destroy/")
		c.invalidateLocked(id, "destroy by "+from)
		_, _ = w.Write([]byte("true"))
	case "kv.get":
		key := strings.TrimPrefix(p, "/v1/kv/")
		if strings.HasPrefix(fault, "value:") {
			v := strings.TrimPrefix(fault, "value:")
			_ = json.NewEncoder(w).Encode([]map[string]any{{"Key": key, "Value": base64.StdEncoding.EncodeToString([]byte(v)), "Flags": 0, "CreateIndex": 1, "ModifyIndex": 1, "LockIndex": 1, "Session": "stale"}})
			return
		}
		pr := c.kv[key]
		if pr == nil {
			w.WriteHeader(404)
			return
		}
		out := map[string]any{"Key": key, "Value": base64.StdEncoding.EncodeToString(pr.Value), "Flags": 0, "CreateIndex": pr.CreateIndex, "ModifyIndex": pr.ModifyIndex, "LockIndex": pr.LockIndex}
		if pr.Session != "" {
			out["Session"] = pr.Session
		}
		_ = json.NewEncoder(w).Encode([]map[string]any{out})
	case "kv.put":
		key := strings.TrimPrefix(p, "/v1/kv/")
		c.index++
		if pr := c.kv[key]; pr != nil {
			pr.Value, pr.ModifyIndex = body, c.index
		} else {
			c.kv[key] = &consulPair{Value: body, CreateIndex: c.index, ModifyIndex: c.index}
		}
		c.logf("%s kv.put %s", from, key)
		_, _ = w.Write([]byte("true"))
	case "kv.acquire":
		key := strings.TrimPrefix(p, "/v1/kv/")
		id := r.URL.Query().Get("acquire")
		if c.sessions[id] == nil {
			c.logf("%s kv.acquire %s session %s -> 500 (invalid session)", from, key, id)
			w.WriteHeader(500)
			_, _ = w.Write([]byte("invalid session " + id))
			return
		}
		pr := c.kv[key]
		ok := true
		if pr != nil && pr.Session != "" && pr.Session != id {
			ok = false
		}
		if end, has := c.delay[key]; has && time.Now().Before(end) {
			ok = false
		}
		if ok {
			c.index++
			if pr == nil {
				pr = &consulPair{CreateIndex: c.index}
				c.kv[key] = pr
			}
			if pr.Session != id {
				pr.LockIndex++
			}
			pr.Value, pr.Session, pr.ModifyIndex = body, id, c.index
		}
		c.logf("%s kv.acquire %s session %s -> %v", from, key, id, ok)
		_, _ = w.Write([]byte(fmt.Sprint(ok)))
	case "kv.release":
		key := strings.TrimPrefix(p, "/v1/kv/")
		id := r.URL.Query().Get("release")
		pr := c.kv[key]
		ok := pr != nil && pr.Session == id && id != ""
		if ok {
			c.index++
			pr.Session, pr.ModifyIndex = "", c.index
		}
		c.logf("%s kv.release %s session %s -> %v", from, key, id, ok)
		_, _ = w.Write([]byte(fmt.Sprint(ok)))
	case "catalog.register":
		_, _ = w.Write([]byte("true"))
	}
}
