package lab

import (
	"fmt"
	"path/filepath"
	"sort"
	"time"

	"github.com/superfly/litefs"
	"github.com/superfly/ltx"
)

// Cluster is a set of lab nodes sharing one in-process network and one lease service.
type Cluster struct {
	Net   *Net
	Svc   *LeaseService
	Base  string
	Nodes map[string]*Node
	order []string

	// Defaults applied to every node config.
	Compress bool
	Defaults func(cfg *NodeConfig)
}

// NewCluster creates an empty cluster on a fresh scratch directory.
func NewCluster(ttl time.Duration) *Cluster {
	return &Cluster{Net: NewNet(), Svc: NewLeaseService(ttl), Base: ScratchDir("cluster"), Nodes: map[string]*Node{}}
}

var nodeIDs = map[string]uint64{"P": 0x1111, "R1": 0x2221, "R2": 0x2222, "R3": 0x2223, "Q": 0x3333}

// AddNode creates (but does not start) a node.
func (c *Cluster) AddNode(name string, candidate bool, mut func(cfg *NodeConfig)) *Node {
	id := nodeIDs[name]
	if id == 0 {
		id = uint64(0x9000 + len(c.Nodes))
	}
	cfg := NodeConfig{
		Name:      name,
		ID:        id,
		Dir:       filepath.Join(c.Base, name),
		Leaser:    NewSimLeaser(c.Svc, name),
		Candidate: candidate,
		Compress:  c.Compress,
		Net:       c.Net,
	}
	if c.Defaults != nil {
		c.Defaults(&cfg)
	}
	if mut != nil {
		mut(&cfg)
	}
	n := NewNode(cfg)
	c.Nodes[name] = n
	c.order = append(c.order, name)
	return n
}

// Start starts a node.
func (c *Cluster) Start(name string) error { return c.Nodes[name].Start() }

// Names returns node names in creation order.
func (c *Cluster) Names() []string { return append([]string(nil), c.order...) }

// Primary returns the running node that is primary, if exactly one is.
func (c *Cluster) Primary() *Node {
	var p *Node
	for _, name := range c.order {
		n := c.Nodes[name]
		if n.Running() && n.Store.IsPrimary() {
			if p != nil {
				return nil
			}
			p = n
		}
	}
	return p
}

// Primaries returns every running node that believes it is primary.
func (c *Cluster) Primaries() []string {
	var out []string
	for _, name := range c.order {
		n := c.Nodes[name]
		if n.Running() && n.Store.IsPrimary() {
			out = append(out, name)
		}
	}
	return out
}

// Close stops all nodes and removes the scratch directory.
func (c *Cluster) Close() {
	for i := len(c.order) - 1; i >= 0; i-- {
		_ = c.Nodes[c.order[i]].Stop()
	}
	RemoveAll(c.Base)
}

// Converged reports whether every running, connected (not blocked from the
// primary) node has the primary's position for every database the node replicates.
func (c *Cluster) Converged(skip map[string]bool) (bool, string) {
	p := c.Primary()
	if p == nil {
		return false, fmt.Sprintf("primaries=%v", c.Primaries())
	}
	pm := p.Store.PosMap()
	names := make([]string, 0, len(pm))
	for k := range pm {
		names = append(names, k)
	}
	sort.Strings(names)
	for _, nn := range c.order {
		n := c.Nodes[nn]
		if n == p || !n.Running() || skip[nn] {
			continue
		}
		for _, dbn := range names {
			if !n.Replicates(dbn) {
				continue
			}
			want := pm[dbn]
			var got ltx.Pos
			if db := n.Store.DB(dbn); db != nil {
				got = db.Pos()
			}
			if got != want {
				return false, fmt.Sprintf("%s/%s at %s, primary %s at %s", nn, dbn, got, p.Cfg.Name, want)
			}
		}
	}
	return true, ""
}

// Replicates reports whether the node's database filter admits name.
func (n *Node) Replicates(name string) bool {
	if len(n.Cfg.Filter) == 0 {
		return true
	}
	for _, f := range n.Cfg.Filter {
		if f == name {
			return true
		}
	}
	return false
}

// WaitConverged advances the fake clock until the cluster converged (or max elapsed).
func (c *Cluster) WaitConverged(max time.Duration, skip map[string]bool) (bool, string) {
	var why string
	ok := WaitFor(max, func() bool {
		var ok bool
		ok, why = c.Converged(skip)
		return ok
	})
	return ok, why
}

// WaitPrimary advances the fake clock until exactly one node is primary.
func (c *Cluster) WaitPrimary(max time.Duration) *Node {
	var p *Node
	WaitFor(max, func() bool { p = c.Primary(); return p != nil })
	return p
}

var _ = litefs.ErrNoPrimary
