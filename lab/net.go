package lab

import (
	"context"
	"errors"
	"fmt"
	"io"
	"net/http"
	"runtime/debug"
	"sync"
)

// Net is an in-process network: the real lfshttp.Client code runs over an
// http.RoundTripper that invokes the real server handler of the target node.
type Net struct {
	mu       sync.Mutex
	handlers map[string]http.Handler // host -> handler
	blocked  map[[2]string]bool      // (from,to) pairs that cannot connect
	conns    map[*conn]struct{}
	Panics   []string // handler panics (a real net/http server would recover and reset the connection)
	ReqLog   []string // "from->to METHOD path status"

	// OnRequest, if set, is called in the handler goroutine before the handler runs.
	OnRequest func(from, to string, r *http.Request)
	// OnDone, if set, is called in the handler goroutine after the handler returned.
	OnDone func(from, to string, r *http.Request)
	// Tap, if set, observes the bytes of every response body (per request).
	Tap func(from, to string, r *http.Request) io.Writer
	// DropResponse, if it returns true, lets the handler run to completion but
	// fails the client's round trip (a lost reply).
	DropResponse func(from, to string, r *http.Request) bool
	// Spawn, if set, starts the handler goroutine (the schedule engine uses it to attribute the handler to the calling thread).
	Spawn func(fn func())
}

func NewNet() *Net {
	return &Net{handlers: map[string]http.Handler{}, blocked: map[[2]string]bool{}, conns: map[*conn]struct{}{}}
}

// Register binds a host name to a handler (nil removes it: connection refused).
func (n *Net) Register(host string, h http.Handler) {
	n.mu.Lock()
	defer n.mu.Unlock()
	if h == nil {
		delete(n.handlers, host)
		return
	}
	n.handlers[host] = h
}

// Block prevents from->to and to->from connections and cuts the existing ones.
func (n *Net) Block(a, b string) {
	n.mu.Lock()
	n.blocked[[2]string{a, b}] = true
	n.blocked[[2]string{b, a}] = true
	var cut []*conn
	for c := range n.conns {
		if (c.from == a && c.to == b) || (c.from == b && c.to == a) {
			cut = append(cut, c)
		}
	}
	n.mu.Unlock()
	for _, c := range cut {
		c.reset()
	}
}

// Unblock heals a link.
func (n *Net) Unblock(a, b string) {
	n.mu.Lock()
	delete(n.blocked, [2]string{a, b})
	delete(n.blocked, [2]string{b, a})
	n.mu.Unlock()
}

// CutAll resets every open connection to or from host (the node died or restarted).
func (n *Net) CutAll(host string) {
	n.mu.Lock()
	var cut []*conn
	for c := range n.conns {
		if c.from == host || c.to == host {
			cut = append(cut, c)
		}
	}
	n.mu.Unlock()
	for _, c := range cut {
		c.reset()
	}
}

// OpenConns returns the number of open in-flight requests/streams.
func (n *Net) OpenConns() int { n.mu.Lock(); defer n.mu.Unlock(); return len(n.conns) }

type conn struct {
	net      *Net
	from, to string
	cancel   context.CancelFunc
	pr       *io.PipeReader
	pw       *io.PipeWriter
	once     sync.Once
}

var errConnReset = errors.New("lab: connection reset")

func (c *conn) reset() {
	c.once.Do(func() {
		c.cancel()
		_ = c.pw.CloseWithError(errConnReset)
		_ = c.pr.CloseWithError(errConnReset)
	})
}

func (c *conn) done() {
	c.net.mu.Lock()
	delete(c.net.conns, c)
	c.net.mu.Unlock()
}

// respWriter is the pipe-backed http.ResponseWriter.
type respWriter struct {
	hdr    http.Header
	status int
	wrote  bool
	ready  chan struct{}
	w      io.Writer
}

func (w *respWriter) Header() http.Header { return w.hdr }
func (w *respWriter) WriteHeader(code int) {
	if w.wrote {
		return
	}
	w.wrote = true
	w.status = code
	close(w.ready)
}
func (w *respWriter) Write(b []byte) (int, error) {
	if !w.wrote {
		w.WriteHeader(http.StatusOK)
	}
	return w.w.Write(b)
}
func (w *respWriter) Flush() {
	if !w.wrote {
		w.WriteHeader(http.StatusOK)
	}
}

type respBody struct {
	c *conn
}

func (b *respBody) Read(p []byte) (int, error) { return b.c.pr.Read(p) }
func (b *respBody) Close() error {
	b.c.reset()
	return nil
}

// Transport returns the RoundTripper used by node `from`.
func (n *Net) Transport(from string) http.RoundTripper { return &transport{net: n, from: from} }

type transport struct {
	net  *Net
	from string
}

func (t *transport) RoundTrip(req *http.Request) (*http.Response, error) {
	n := t.net
	to := req.URL.Host
	n.mu.Lock()
	h := n.handlers[to]
	blocked := n.blocked[[2]string{t.from, to}]
	n.mu.Unlock()
	if h == nil || blocked {
		if req.Body != nil {
			_ = req.Body.Close()
		}
		return nil, fmt.Errorf("lab: connect %s->%s: connection refused", t.from, to)
	}

	sctx, cancel := context.WithCancel(context.Background())
	pr, pw := io.Pipe()
	c := &conn{net: n, from: t.from, to: to, cancel: cancel, pr: pr, pw: pw}
	n.mu.Lock()
	n.conns[c] = struct{}{}
	n.mu.Unlock()

	// The client's context ending closes the connection.
	stop := context.AfterFunc(req.Context(), c.reset)

	sreq := req.Clone(sctx)
	sreq.Proto, sreq.ProtoMajor, sreq.ProtoMinor = "HTTP/2.0", 2, 0
	sreq.RemoteAddr = t.from
	sreq.RequestURI = req.URL.RequestURI()
	if sreq.Body == nil {
		sreq.Body = http.NoBody
	}

	var w io.Writer = pw
	if n.Tap != nil {
		if tap := n.Tap(t.from, to, sreq); tap != nil {
			w = io.MultiWriter(tap, pw)
		}
	}
	rw := &respWriter{hdr: http.Header{}, ready: make(chan struct{}), w: w}
	finished := make(chan struct{})
	spawn := n.Spawn
	if spawn == nil {
		spawn = func(fn func()) { go fn() }
	}
	spawn(func() {
		defer close(finished)
		defer func() {
			if r := recover(); r != nil {
				n.mu.Lock()
				n.Panics = append(n.Panics, fmt.Sprintf("%s %s: panic: %v\n%s", sreq.Method, sreq.URL.RequestURI(), r, debug.Stack()))
				n.mu.Unlock()
				c.reset()
				return
			}
		}()
		if n.OnRequest != nil {
			n.OnRequest(t.from, to, sreq)
		}
		h.ServeHTTP(rw, sreq)
		if !rw.wrote {
			rw.WriteHeader(http.StatusOK)
		}
		_ = pw.Close()
		if n.OnDone != nil {
			n.OnDone(t.from, to, sreq)
		}
	})

	drop := n.DropResponse != nil && n.DropResponse(t.from, to, sreq)
	if drop {
		// Let the handler finish (draining its output), then report a lost reply.
		go func() { _, _ = io.Copy(io.Discard, pr) }()
		select {
		case <-finished:
		case <-req.Context().Done():
		}
		stop()
		c.reset()
		c.done()
		n.log(t.from, to, sreq, -1)
		return nil, fmt.Errorf("lab: %s->%s: response lost", t.from, to)
	}

	select {
	case <-rw.ready:
	case <-finished:
	case <-req.Context().Done():
	}
	select {
	case <-rw.ready:
	default:
		select {
		case <-finished:
		default:
			// client context ended first
			stop()
			c.reset()
			go func() { <-finished; c.done() }()
			return nil, context.Cause(req.Context())
		}
	}
	select {
	case <-rw.ready:
	default:
		// handler ended (panicked) before writing a header
		stop()
		c.reset()
		c.done()
		n.log(t.from, to, sreq, -2)
		return nil, fmt.Errorf("lab: %s->%s: connection reset by peer", t.from, to)
	}
	n.log(t.from, to, sreq, rw.status)

	go func() {
		<-finished
		stop()
		// Connection bookkeeping ends once the body was fully consumed or closed; keep it
		// registered until the handler is done so that Block/CutAll can reach it.
		c.done()
	}()

	resp := &http.Response{
		Status:        fmt.Sprintf("%d %s", rw.status, http.StatusText(rw.status)),
		StatusCode:    rw.status,
		Proto:         "HTTP/2.0",
		ProtoMajor:    2,
		Header:        rw.hdr.Clone(),
		Body:          &respBody{c: c},
		ContentLength: -1,
		Request:       req,
	}
	return resp, nil
}

func (n *Net) log(from, to string, r *http.Request, status int) {
	n.mu.Lock()
	if len(n.ReqLog) < 4096 {
		n.ReqLog = append(n.ReqLog, fmt.Sprintf("%s->%s %s %s %d", from, to, r.Method, r.URL.RequestURI(), status))
	}
	n.mu.Unlock()
}
