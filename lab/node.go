package lab

import (
	"fmt"
	"net/http"
	"os"
	"sync"
	"testing/synctest"
	"time"

	"github.com/superfly/litefs"
	lfshttp "github.com/superfly/litefs/http"
)

// NodeConfig describes one lab node.
type NodeConfig struct {
	Name      string // host name on the lab network; also the advertise URL host
	ID        uint64 // fixed node ID
	Dir       string // data directory
	Leaser    litefs.Leaser
	Candidate bool
	Compress  bool
	Filter    []string
	Net       *Net

	Retention    time.Duration // 0 = store default
	BackupClient litefs.BackupClient
	BackupDelay  time.Duration // 0 disables the continuous backup monitor (SyncBackup is used explicitly)

	HaltLockTTL        time.Duration
	HaltAcquireTimeout time.Duration
	ReconnectDelay     time.Duration
	DemoteDelay        time.Duration

	// ExitImage makes the node copy its data directory to Dir+".at-exit" at the instant Store.Exit is first called:
	// a real process ends there, so that copy - not what the still-running store object does afterwards - is what a
	// restarted process finds. See RestartFromExitImage.
	ExitImage bool

	// WrapOS, if set, wraps the store's OS interface (recording / crash injection).
	WrapOS func(litefs.OS) litefs.OS
	// Configure, if set, is called on the store before Open.
	Configure func(*litefs.Store)
}

// Node is a real litefs.Store with a simulated kernel on top and a handler on the lab network.
type Node struct {
	Cfg    NodeConfig
	Store  *litefs.Store
	M      *Mount
	PC     *PageCache
	Server *lfshttp.Server

	mu    sync.Mutex
	Exits []int
	open  bool
}

// NewNode creates a node that is not started yet.
func NewNode(cfg NodeConfig) *Node { return &Node{Cfg: cfg, PC: NewPageCache()} }

// Start creates the store on the data directory and opens it.
func (n *Node) Start() error {
	cfg := n.Cfg
	s := litefs.NewStore(cfg.Dir, cfg.Candidate)
	if cfg.ID != 0 {
		s.VerifSetID(cfg.ID)
	}
	s.Leaser = cfg.Leaser
	s.Compress = cfg.Compress
	s.DatabaseFilter = cfg.Filter
	s.Exit = func(code int) {
		if cfg.ExitImage {
			if _, err := os.Stat(cfg.Dir + ".at-exit"); err != nil {
				_ = CopyDir(cfg.Dir, cfg.Dir+".at-exit")
			}
		}
		n.mu.Lock()
		n.Exits = append(n.Exits, code)
		n.mu.Unlock()
	}
	if cfg.Retention != 0 {
		s.Retention = cfg.Retention
	}
	s.BackupClient = cfg.BackupClient
	s.BackupDelay = cfg.BackupDelay
	if cfg.HaltLockTTL != 0 {
		s.HaltLockTTL = cfg.HaltLockTTL
	}
	if cfg.HaltAcquireTimeout != 0 {
		s.HaltAcquireTimeout = cfg.HaltAcquireTimeout
	}
	if cfg.ReconnectDelay != 0 {
		s.ReconnectDelay = cfg.ReconnectDelay
	}
	if cfg.DemoteDelay != 0 {
		s.DemoteDelay = cfg.DemoteDelay
	}
	// A fresh process starts with a cold page cache.
	n.PC = NewPageCache()
	inv := &Invalidator{PC: n.PC}
	s.Invalidator = inv
	if cfg.WrapOS != nil {
		s.OS = cfg.WrapOS(s.OS)
	}
	if cfg.Net != nil {
		c := lfshttp.NewClient()
		c.HTTPClient = &http.Client{Transport: cfg.Net.Transport(cfg.Name)}
		s.Client = c
	}
	if cfg.Configure != nil {
		cfg.Configure(s)
	}
	n.Store = s
	n.M = NewMount(s, n.PC)
	inv.M = n.M
	if err := s.Open(); err != nil {
		// Store.Open may have failed before or after starting goroutines; Close is safe either way.
		_ = s.Close()
		return err
	}
	n.open = true
	if cfg.Net != nil {
		n.Server = lfshttp.NewServer(s, ":0")
		cfg.Net.Register(cfg.Name, n.Server.VerifHandler())
	}
	return nil
}

// Stop closes the store (a clean process exit) and disconnects the node.
func (n *Node) Stop() error {
	if !n.open {
		return nil
	}
	n.open = false
	if n.Cfg.Net != nil {
		n.Cfg.Net.Register(n.Cfg.Name, nil)
		n.Cfg.Net.CutAll(n.Cfg.Name)
	}
	err := n.Store.Close()
	return err
}

// RecordExit records a Store.Exit call (for harnesses that install their own Exit function).
func (n *Node) RecordExit(code int) {
	n.mu.Lock()
	n.Exits = append(n.Exits, code)
	n.mu.Unlock()
}

// ClearExits forgets recorded exits (after the harness emulated the process restart).
func (n *Node) ClearExits() {
	n.mu.Lock()
	n.Exits = nil
	n.mu.Unlock()
}

// Running reports whether the node is started.
func (n *Node) Running() bool { return n.open }

// ExitCodes returns the codes passed to Store.Exit so far.
func (n *Node) ExitCodes() []int {
	n.mu.Lock()
	defer n.mu.Unlock()
	return append([]int(nil), n.Exits...)
}

// DB returns the named database or nil.
func (n *Node) DB(name string) *litefs.DB { return n.Store.DB(name) }

// Settle lets every goroutine in the bubble run until it is durably blocked,
// then advances the fake clock by d in steps, settling after each.
func Settle(d time.Duration) {
	synctest.Wait()
	const step = 50 * time.Millisecond
	for d > 0 {
		s := step
		if d < s {
			s = d
		}
		time.Sleep(s)
		synctest.Wait()
		d -= s
	}
}

// WaitFor advances the fake clock until cond holds or max elapsed.
func WaitFor(max time.Duration, cond func() bool) bool {
	synctest.Wait()
	if cond() {
		return true
	}
	step := 1 * time.Millisecond
	for elapsed := time.Duration(0); elapsed < max; {
		time.Sleep(step)
		elapsed += step
		synctest.Wait()
		if cond() {
			return true
		}
		if step < 200*time.Millisecond {
			step *= 2
		}
	}
	return false
}

// ScratchDir makes a fresh scratch directory (tmpfs when available).
func ScratchDir(prefix string) string {
	base := os.Getenv("VERIF_SCRATCH")
	if base == "" {
		base = "/dev/shm"
		if st, err := os.Stat(base); err != nil || !st.IsDir() {
			base = os.TempDir()
		}
	}
	dir, err := os.MkdirTemp(base, "verif-"+prefix+"-")
	if err != nil {
		panic(fmt.Sprintf("scratch dir: %v", err))
	}
	return dir
}

// RestartFromExitImage ends the node the way Store.Exit ends a process: the store object is closed (whatever that
// does to its directory is discarded), the directory is replaced by the copy taken when Exit was called, and the
// node is started again.
func (n *Node) RestartFromExitImage() error {
	img := n.Cfg.Dir + ".at-exit"
	if _, err := os.Stat(img); err != nil {
		return fmt.Errorf("no exit image: %w", err)
	}
	_ = n.Stop()
	n.ClearExits()
	RemoveAll(n.Cfg.Dir)
	if err := os.Rename(img, n.Cfg.Dir); err != nil {
		return err
	}
	return n.Start()
}
