package lab

import (
	"bytes"
	"context"
	"crypto/sha256"
	"encoding/json"
	"fmt"
	"io"
	"net/http"
	"os"
	"path/filepath"
	"sort"
	"strings"
	"sync"

	"github.com/superfly/litefs"
	"github.com/superfly/ltx"
	"verif/oracle"
)

// BackupSvc is the durable state of a backup service: <Dir>/<db>/<min>-<max>.ltx.
// This is the layout litefs.FileBackupClient writes; the fake LiteFS Cloud
// server below keeps its data in the same layout so that one oracle and one
// set of service mutations serve both client implementations. Everything here
// reads the directory with verif's own decoder, never through the client.
type BackupSvc struct {
	Dir string
	mu  sync.Mutex
}

func NewBackupSvc(dir string) *BackupSvc {
	_ = os.MkdirAll(dir, 0o777)
	return &BackupSvc{Dir: dir}
}

// DBs lists the database names the service knows.
func (s *BackupSvc) DBs() []string {
	ents, _ := os.ReadDir(s.Dir)
	var out []string
	for _, e := range ents {
		if e.IsDir() {
			out = append(out, e.Name())
		}
	}
	sort.Strings(out)
	return out
}

// Files lists the transaction files of db in order.
func (s *BackupSvc) Files(db string) []string {
	ents, _ := os.ReadDir(filepath.Join(s.Dir, db))
	var out []string
	for _, e := range ents {
		if !e.IsDir() && strings.HasSuffix(e.Name(), ".ltx") {
			out = append(out, e.Name())
		}
	}
	sort.Strings(out)
	return out
}

// SvcChain is the decoded content of one database on the service.
type SvcChain struct {
	Files  []*oracle.LTXFile
	Images []*oracle.Image // image after each file
	Errors []string
}

// Pos returns the position of the end of the chain.
func (c *SvcChain) Pos() ltx.Pos {
	if len(c.Files) == 0 {
		return ltx.Pos{}
	}
	f := c.Files[len(c.Files)-1]
	return ltx.Pos{TXID: f.Header.MaxTXID, PostApplyChecksum: f.Trailer.PostApplyChecksum}
}

// Image returns the restored image at the end of the chain (nil if none).
func (c *SvcChain) Image() *oracle.Image {
	if len(c.Images) == 0 {
		return nil
	}
	return c.Images[len(c.Images)-1]
}

// Chain decodes the service's files of db and judges them: every file
// verifies, the first starts at TXID 1, ranges are contiguous, each file's
// pre-apply checksum is its predecessor's post-apply checksum, names match
// headers, and applying them in order yields an image whose checksum is the
// declared one.
func (s *BackupSvc) Chain(db string) *SvcChain {
	c := &SvcChain{}
	var img *oracle.Image
	var prev *oracle.LTXFile
	for _, name := range s.Files(db) {
		f, err := oracle.DecodeLTXFile(filepath.Join(s.Dir, db, name))
		if err != nil {
			c.Errors = append(c.Errors, fmt.Sprintf("%s does not verify: %v", name, err))
			return c
		}
		if want := ltx.FormatFilename(f.Header.MinTXID, f.Header.MaxTXID); want != name {
			c.Errors = append(c.Errors, fmt.Sprintf("%s holds the range %d-%d", name, f.Header.MinTXID, f.Header.MaxTXID))
		}
		if prev == nil {
			if f.Header.MinTXID != 1 {
				c.Errors = append(c.Errors, fmt.Sprintf("chain starts at TXID %d (%s), not 1", f.Header.MinTXID, name))
			}
			if f.Header.PreApplyChecksum != 0 {
				c.Errors = append(c.Errors, fmt.Sprintf("first file %s has a pre-apply checksum", name))
			}
		} else {
			if f.Header.MinTXID != prev.Header.MaxTXID+1 {
				c.Errors = append(c.Errors, fmt.Sprintf("gap or overlap: %s follows %s", name, prev.Name))
			}
			if f.Header.PreApplyChecksum != prev.Trailer.PostApplyChecksum {
				c.Errors = append(c.Errors, fmt.Sprintf("%s pre-apply checksum %016x is not the post-apply checksum %016x of %s", name, uint64(f.Header.PreApplyChecksum), uint64(prev.Trailer.PostApplyChecksum), prev.Name))
			}
		}
		next, err := f.Apply(img)
		if err != nil {
			c.Errors = append(c.Errors, fmt.Sprintf("%s cannot be applied: %v", name, err))
			return c
		}
		if got := next.Checksum(); got != uint64(f.Trailer.PostApplyChecksum) {
			c.Errors = append(c.Errors, fmt.Sprintf("after applying %s the image checksum is %016x but the file declares %016x", name, got, uint64(f.Trailer.PostApplyChecksum)))
		}
		img = next
		prev = f
		c.Files = append(c.Files, f)
		c.Images = append(c.Images, next)
	}
	return c
}

// Digest maps "db/file" to a hash of the file's bytes.
func (s *BackupSvc) Digest() map[string]string {
	out := map[string]string{}
	for _, db := range s.DBs() {
		for _, name := range s.Files(db) {
			b, _ := os.ReadFile(filepath.Join(s.Dir, db, name))
			sum := sha256.Sum256(b)
			out[db+"/"+name] = fmt.Sprintf("%d:%x", len(b), sum[:8])
		}
	}
	return out
}

// Wipe removes db from the service.
func (s *BackupSvc) Wipe(db string) { _ = os.RemoveAll(filepath.Join(s.Dir, db)) }

// RemoveNewest removes the newest file of db.
func (s *BackupSvc) RemoveNewest(db string) {
	if fs := s.Files(db); len(fs) > 0 {
		_ = os.Remove(filepath.Join(s.Dir, db, fs[len(fs)-1]))
	}
}

// Put stores data as the file for the given range.
func (s *BackupSvc) Put(db string, min, max ltx.TXID, data []byte) error {
	dir := filepath.Join(s.Dir, db)
	if err := os.MkdirAll(dir, 0o777); err != nil {
		return err
	}
	return os.WriteFile(filepath.Join(dir, ltx.FormatFilename(min, max)), data, 0o666)
}

// EncodeLTX builds an LTX file.
func EncodeLTX(hdr ltx.Header, pages map[uint32][]byte, post uint64) []byte {
	var buf bytes.Buffer
	enc := ltx.NewEncoder(&buf)
	if err := enc.EncodeHeader(hdr); err != nil {
		panic(err)
	}
	var pgs []int
	for p := range pages {
		pgs = append(pgs, int(p))
	}
	sort.Ints(pgs)
	for _, p := range pgs {
		if err := enc.EncodePage(ltx.PageHeader{Pgno: uint32(p)}, pages[uint32(p)]); err != nil {
			panic(err)
		}
	}
	enc.SetPostApplyChecksum(ltx.Checksum(post))
	if err := enc.Close(); err != nil {
		panic(err)
	}
	return buf.Bytes()
}

// SnapshotLTX encodes img as a snapshot ending at txid.
func SnapshotLTX(img *oracle.Image, txid ltx.TXID) []byte {
	pages := map[uint32][]byte{}
	lock := oracle.LockPgno(img.PageSize)
	for i, p := range img.Pages {
		if uint32(i+1) == lock {
			continue
		}
		pages[uint32(i+1)] = p
	}
	return EncodeLTX(ltx.Header{Version: 1, PageSize: uint32(img.PageSize), Commit: img.N(), MinTXID: 1, MaxTXID: txid, Timestamp: 1, NodeID: 0xC10D}, pages, img.Checksum())
}

// FakeLFSC is a local server for the LiteFS Cloud backup protocol as
// lfsc.BackupClient speaks it: GET /pos, POST /db/tx?db=, GET /db/snapshot?db=,
// EPOSMISMATCH errors as JSON, the high-water mark in the Litefs-Hwm header.
type FakeLFSC struct {
	Svc *BackupSvc
	Log []string
	// HWMLag makes the service acknowledge durability one upload late: the high-water mark returned for an upload
	// is the position the service held before it (data is accepted before it is durable), 0 for the first.
	HWMLag bool
}

type lfscError struct {
	Code  string  `json:"code"`
	Error string  `json:"error"`
	Pos   ltx.Pos `json:"pos"`
}

func (h *FakeLFSC) fail(w http.ResponseWriter, status int, code, msg string, pos ltx.Pos) {
	w.Header().Set("Content-Type", "application/json")
	w.WriteHeader(status)
	_ = json.NewEncoder(w).Encode(lfscError{Code: code, Error: msg, Pos: pos})
}

func (h *FakeLFSC) ServeHTTP(w http.ResponseWriter, r *http.Request) {
	h.Svc.mu.Lock()
	defer h.Svc.mu.Unlock()
	w.Header().Set("Lfsc-Instance-Id", "fake-1")
	db := r.URL.Query().Get("db")
	switch {
	case r.Method == "GET" && r.URL.Path == "/pos":
		m := map[string]ltx.Pos{}
		for _, name := range h.Svc.DBs() {
			if p := h.Svc.Chain(name).Pos(); !p.IsZero() {
				m[name] = p
			}
		}
		w.Header().Set("Content-Type", "application/json")
		_ = json.NewEncoder(w).Encode(m)
	case r.Method == "POST" && r.URL.Path == "/db/tx":
		body, err := io.ReadAll(r.Body)
		if err != nil {
			h.fail(w, 400, "EBADREQ", "read body: "+err.Error(), ltx.Pos{})
			return
		}
		f, err := oracle.DecodeLTX(body)
		if err != nil {
			h.fail(w, 400, "EBADLTX", err.Error(), ltx.Pos{})
			return
		}
		pos := h.Svc.Chain(db).Pos()
		if pos.TXID+1 != f.Header.MinTXID || pos.PostApplyChecksum != f.Header.PreApplyChecksum {
			h.fail(w, 409, "EPOSMISMATCH", "position mismatch", pos)
			return
		}
		if err := h.Svc.Put(db, f.Header.MinTXID, f.Header.MaxTXID, body); err != nil {
			h.fail(w, 500, "EINTERNAL", err.Error(), ltx.Pos{})
			return
		}
		hwm := f.Header.MaxTXID
		if h.HWMLag {
			hwm = pos.TXID
		}
		w.Header().Set("Litefs-Hwm", hwm.String())
		w.WriteHeader(200)
	case r.Method == "GET" && r.URL.Path == "/db/snapshot":
		c := h.Svc.Chain(db)
		if c.Image() == nil {
			h.fail(w, 404, "ENOTFOUND", "no such database", ltx.Pos{})
			return
		}
		w.WriteHeader(200)
		_, _ = w.Write(SnapshotLTX(c.Image(), c.Pos().TXID))
	default:
		h.fail(w, 404, "ENOTFOUND", "no such endpoint", ltx.Pos{})
	}
}

// FaultClient wraps a backup client: it injects one armed fault and reports
// every acknowledged upload.
type FaultClient struct {
	Inner litefs.BackupClient
	// Arm names the fault to inject at the next matching call: wt-before,
	// wt-after (reply lost), wt-partial, pm, pm-omit (position map answered without any database), fs, fs-partial. It is cleared when it fires.
	Arm   string
	Fired string
	// OnAck is called after the service acknowledged an upload for name.
	OnAck func(name string, hwm ltx.TXID)
	// OnPosMap is called after a position map was fetched, OnFault when an injected fault fires,
	// OnFetch before a snapshot is fetched for name (the primary is about to adopt the service's state).
	OnPosMap func()
	OnFault  func(kind string)
	OnFetch  func(name string)
	Calls    []string
	// View approximates what the store's sync loop believes the service holds
	// (its cached position map): the last PosMap answer, updated by each
	// acknowledged upload and each snapshot fetch. It is part of the state key.
	View map[string]string
}

func (c *FaultClient) setView(name, v string) {
	if c.View == nil {
		c.View = map[string]string{}
	}
	c.View[name] = v
}

// ViewString renders View canonically.
func (c *FaultClient) ViewString() string {
	var ks []string
	for k := range c.View {
		ks = append(ks, k)
	}
	sort.Strings(ks)
	var sb strings.Builder
	for _, k := range ks {
		fmt.Fprintf(&sb, "%s=%s;", k, c.View[k])
	}
	return sb.String()
}

func (c *FaultClient) URL() string { return c.Inner.URL() }

func (c *FaultClient) take(kind string) bool {
	if c.Arm == kind {
		c.Arm = ""
		c.Fired = kind
		if c.OnFault != nil {
			c.OnFault(kind)
		}
		return true
	}
	return false
}

func (c *FaultClient) PosMap(ctx context.Context) (map[string]ltx.Pos, error) {
	c.Calls = append(c.Calls, "PosMap")
	if c.take("pm") {
		return nil, fmt.Errorf("injected: backup service unreachable")
	}
	m, err := c.Inner.PosMap(ctx)
	stale := false
	if err == nil && c.take("pm-omit") {
		// a stale answer: the databases another node has uploaded since are not listed yet
		m, stale = map[string]ltx.Pos{}, true
	}
	if err == nil && !stale {
		c.View = map[string]string{}
		for k, v := range m {
			c.setView(k, v.String())
		}
		if c.OnPosMap != nil {
			c.OnPosMap()
		}
	}
	return m, err
}

type cutReader struct {
	r io.Reader
	n int
}

func (c *cutReader) Read(p []byte) (int, error) {
	if c.n <= 0 {
		return 0, fmt.Errorf("injected: connection lost during upload")
	}
	if len(p) > c.n {
		p = p[:c.n]
	}
	n, err := c.r.Read(p)
	c.n -= n
	return n, err
}

func (c *FaultClient) WriteTx(ctx context.Context, name string, r io.Reader) (ltx.TXID, error) {
	c.Calls = append(c.Calls, "WriteTx "+name)
	if c.take("wt-before") {
		// a transport that cannot connect closes the request body it was given
		if cl, ok := r.(io.Closer); ok {
			_ = cl.Close()
		}
		return 0, fmt.Errorf("injected: connection refused")
	}
	in := r
	if c.take("wt-partial") {
		in = &cutReader{r: r, n: 150}
	}
	hwm, err := c.Inner.WriteTx(ctx, name, in)
	if err != nil {
		return 0, err
	}
	if c.take("wt-after") {
		return 0, fmt.Errorf("injected: reply lost")
	}
	if c.OnAck != nil {
		c.OnAck(name, hwm)
	}
	c.setView(name, "uploaded-to-"+hwm.String())
	return hwm, nil
}

type cutReadCloser struct {
	cutReader
	c io.Closer
}

func (c *cutReadCloser) Close() error { return c.c.Close() }

func (c *FaultClient) FetchSnapshot(ctx context.Context, name string) (io.ReadCloser, error) {
	c.Calls = append(c.Calls, "FetchSnapshot "+name)
	if c.OnFetch != nil {
		c.OnFetch(name)
	}
	if c.take("fs") {
		return nil, fmt.Errorf("injected: snapshot unavailable")
	}
	rc, err := c.Inner.FetchSnapshot(ctx, name)
	if err != nil {
		return nil, err
	}
	c.setView(name, "fetched")
	if c.take("fs-partial") {
		return &cutReadCloser{cutReader{r: rc, n: 220}, rc}, nil
	}
	return rc, nil
}
