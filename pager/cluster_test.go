package pager

import (
	"testing"
	"testing/synctest"
	"time"

	"verif/lab"
	"verif/oracle"
)

func TestClusterSmoke(t *testing.T) {
	synctest.Test(t, func(t *testing.T) {
		c := lab.NewCluster(10 * time.Second)
		defer c.Close()
		c.AddNode("P", true, nil)
		c.AddNode("R1", false, nil)
		if err := c.Start("P"); err != nil {
			t.Fatal(err)
		}
		if p := c.WaitPrimary(5 * time.Second); p == nil || p.Cfg.Name != "P" {
			t.Fatalf("no primary: %v", c.Primaries())
		}
		if err := c.Start("R1"); err != nil {
			t.Fatal(err)
		}
		P, R := c.Nodes["P"], c.Nodes["R1"]
		conn := NewConn(P.M, "db", 1, 512)
		res := conn.RunRTx(RTx{Create: true, NewSize: 3, Final: "DELETE", Outcome: "commit"}, nil)
		if res.Err != nil || !res.Committed {
			t.Fatalf("create: %v at %s", res.Err, res.ErrStep)
		}
		img := res.Intended
		if ok, why := c.WaitConverged(10*time.Second, nil); !ok {
			t.Fatalf("not converged: %s; reqlog=%v", why, c.Net.ReqLog)
		}
		rc := NewConn(R.M, "db", 5, 512)
		got, err := rc.ReadImage()
		if err != nil {
			t.Fatal(err)
		}
		if ok, d := got.Equal(img); !ok {
			t.Fatalf("replica image: %s", d)
		}
		rc.Close()
		// second tx, replica must see new content through the cache
		res = conn.RunRTx(RTx{Mods: []uint32{2}, NewSize: 4, Final: "DELETE", Outcome: "commit"}, img)
		if res.Err != nil || !res.Committed {
			t.Fatalf("tx2: %v at %s", res.Err, res.ErrStep)
		}
		img = res.Intended
		if ok, why := c.WaitConverged(10*time.Second, nil); !ok {
			t.Fatalf("not converged: %s", why)
		}
		rc = NewConn(R.M, "db", 5, 512)
		got, err = rc.ReadImage()
		if err != nil {
			t.Fatal(err)
		}
		if ok, d := got.Equal(img); !ok {
			t.Fatalf("replica image 2: %s (cache log %v)", d, R.PC.Log)
		}
		rc.Close()
		// replica write must fail with EACCES
		wc := NewConn(R.M, "db", 6, 512)
		r2 := wc.RunRTx(RTx{Mods: []uint32{2}, Final: "DELETE", Outcome: "commit"}, img)
		t.Logf("replica write: err=%v at %q errno=%v", r2.Err, r2.ErrStep, lab.Errno(r2.Err))
		wc.Close()
		li, _ := oracle.ReadLogicalImage(R.DB("db").Path(), 512)
		if ok, d := li.Equal(img); !ok {
			t.Fatalf("replica disk image: %s", d)
		}
		t.Logf("P=%s R=%s exits=%v/%v panics=%v", P.DB("db").Pos(), R.DB("db").Pos(), P.ExitCodes(), R.ExitCodes(), c.Net.Panics)
		conn.Close()
	})
}
