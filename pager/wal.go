package pager

import (
	"bytes"
	"encoding/binary"
	"errors"
	"fmt"

	bfuse "bazil.org/fuse"

	"verif/oracle"
)

// ErrBusy is returned when a lock SQLite needs is held by someone else.
var ErrBusy = errors.New("pager: SQLITE_BUSY")

const readMarkNotUsed = 0xffffffff

// walIndex is the part of the wal-index (shm) header the simulator uses.
type walIndex struct {
	Change      uint32
	IsInit      bool
	BigEndCksum bool
	PageSize    int
	MxFrame     uint32
	NPage       uint32
	FrameCksum  [2]uint32
	Salt        [2]uint32
	// checkpoint info
	NBackfill uint32
	ReadMark  [5]uint32
}

func (w *walIndex) hdrBytes() []byte {
	b := make([]byte, 48)
	le := binary.LittleEndian
	le.PutUint32(b[0:], 3007000)
	le.PutUint32(b[8:], w.Change)
	if w.IsInit {
		b[12] = 1
	}
	if w.BigEndCksum {
		b[13] = 1
	}
	ps := uint16(w.PageSize)
	if w.PageSize == 65536 {
		ps = 1
	}
	le.PutUint16(b[14:], ps)
	le.PutUint32(b[16:], w.MxFrame)
	le.PutUint32(b[20:], w.NPage)
	le.PutUint32(b[24:], w.FrameCksum[0])
	le.PutUint32(b[28:], w.FrameCksum[1])
	le.PutUint32(b[32:], w.Salt[0])
	le.PutUint32(b[36:], w.Salt[1])
	c0, c1 := walCk(le, 0, 0, b[:40])
	le.PutUint32(b[40:], c0)
	le.PutUint32(b[44:], c1)
	return b
}

func (w *walIndex) ckptBytes() []byte {
	b := make([]byte, 40)
	le := binary.LittleEndian
	le.PutUint32(b[0:], w.NBackfill)
	for i := 0; i < 5; i++ {
		le.PutUint32(b[4+4*i:], w.ReadMark[i])
	}
	le.PutUint32(b[32:], w.NBackfill) // nBackfillAttempted
	return b
}

func walCk(bo binary.ByteOrder, s0, s1 uint32, b []byte) (uint32, uint32) {
	for i := 0; i+8 <= len(b); i += 8 {
		s0 += bo.Uint32(b[i:]) + s1
		s1 += bo.Uint32(b[i+4:]) + s0
	}
	return s0, s1
}

// parseWalIndex returns ok=false when the header is not usable (SQLite would run recovery).
func parseWalIndex(b []byte) (walIndex, bool) {
	var w walIndex
	if len(b) < 136 {
		return w, false
	}
	if !bytes.Equal(b[0:48], b[48:96]) {
		return w, false
	}
	le := binary.LittleEndian
	if b[12] == 0 {
		return w, false
	}
	c0, c1 := walCk(le, 0, 0, b[:40])
	if c0 != le.Uint32(b[40:]) || c1 != le.Uint32(b[44:]) {
		return w, false
	}
	if le.Uint32(b[0:]) != 3007000 {
		return w, false
	}
	w.Change = le.Uint32(b[8:])
	w.IsInit = true
	w.BigEndCksum = b[13] != 0
	ps := int(le.Uint16(b[14:]))
	if ps == 1 {
		ps = 65536
	}
	w.PageSize = ps
	w.MxFrame = le.Uint32(b[16:])
	w.NPage = le.Uint32(b[20:])
	w.FrameCksum = [2]uint32{le.Uint32(b[24:]), le.Uint32(b[28:])}
	w.Salt = [2]uint32{le.Uint32(b[32:]), le.Uint32(b[36:])}
	w.NBackfill = le.Uint32(b[96:])
	for i := 0; i < 5; i++ {
		w.ReadMark[i] = le.Uint32(b[100+4*i:])
	}
	return w, true
}

type walConn struct {
	open     bool
	idx      walIndex // header as of the current read transaction
	readLock int      // -1 none, 0..4
	writing  bool
	ckptSeq  uint32
	saltSeed uint32
}

// WTx is one WAL-mode write transaction as a pager program.
type WTx struct {
	// Frames is the sequence of page numbers written as frames (repeats allowed).
	// Pages beyond the current size are new pages.
	Frames  []uint32
	NewSize uint32 // database size recorded in the commit frame (0 = max(current, highest frame))
	// Split selects how each frame reaches the file: 0 header then body; 1 header as 8+16 then body; 2 header, body in two halves.
	Split int
	// Outcome: commit | rollback (frames written, no commit frame, write lock released) | lockonly
	Outcome string
	BigEndianCksum bool // only honoured when this transaction writes the WAL header
	// SyncHeader issues an fsync after the WAL header is written (synchronous=FULL).
	Sync bool
	// CloseAfter: the connection does not release its locks one by one after the commit frame and the wal-index
	// update but closes its files (a process that exits, or is killed, right after COMMIT): the kernel's release of
	// the -shm descriptor drops every shm lock at once, WRITE included.
	CloseAfter bool
	// Torn (only with Outcome "rollback"): after the complete frames one more frame is begun and abandoned:
	// 1 = its 24-byte header only, 2 = header and half of the page. The write stops there (an interrupted
	// statement, or a process that dies), the write lock is released.
	Torn int
	// FreeLeaves: pages up to NewSize that get no frame are free-list leaves the transaction allocated and freed
	// again (SQLite never writes them); legal only beyond the old size.
	FreeLeaves bool
	// Pad (with Outcome "commit"): the commit frame is written Pad more times right behind itself, as SQLite does to
	// fill the sector when the file system does not promise power-safe overwrite (psow=0) and synchronous=FULL: every
	// copy is a valid commit frame of the same page and enters the wal-index.
	Pad int
}

// WTxResult mirrors RTxResult for WAL programs.
type WTxResult struct {
	Committed  bool
	Intended   *oracle.Image
	Err        error
	ErrStep    string
	Busy       bool
	WALOffset  int64 // offset of the first frame written
	WALSize    int64 // bytes from first frame to end of commit frame
	Salt1      uint32
	Salt2      uint32
	WroteHdr   bool
}

func (c *Conn) wfail(res *WTxResult, desc string, err error) bool {
	if err != nil && res.Err == nil {
		res.Err = err
		res.ErrStep = desc
		if errors.Is(err, ErrBusy) {
			res.Busy = true
		}
	}
	return err != nil
}

// OpenWAL opens db, shm and wal the way sqlite3WalOpen / unixOpenSharedMemory do.
func (c *Conn) OpenWAL() error {
	if c.walState.open {
		return nil
	}
	if err := c.openDB(false); err != nil {
		return err
	}
	c.step("open shm")
	var err error
	if c.shm, _, err = c.M.OpenOrCreate(c.Name+"-shm", c.Owner); err != nil {
		return err
	}
	// unixLockSharedMemory
	c.step("query DMS")
	t, err := c.shm.Query(WALDMSLock, WALDMSLock, true)
	if err != nil {
		return err
	}
	if t == bfuse.LockUnlock {
		c.step("lock DMS w")
		if err := c.shm.Lock(WALDMSLock, WALDMSLock, true); err == nil {
			c.step("shm truncate 3")
			if err := c.shm.Truncate(3); err != nil {
				return err
			}
		}
	} else if t == bfuse.LockWrite {
		return ErrBusy
	}
	c.step("lock DMS r")
	if err := c.shm.Lock(WALDMSLock, WALDMSLock, false); err != nil {
		return ErrBusy
	}
	c.step("open wal")
	if c.wal, _, err = c.M.OpenOrCreate(c.Name+"-wal", c.Owner); err != nil {
		return err
	}
	c.walState.open = true
	c.walState.readLock = -1
	c.walState.saltSeed = uint32(c.Owner)*7919 + 12345
	if c.Det {
		c.walState.saltSeed = 0x5eed5eed
	}
	return nil
}

func (c *Conn) readWalIndex() (walIndex, bool, error) {
	c.step("read shm header")
	b, err := c.shm.Pread(0, 136)
	if err != nil {
		return walIndex{}, false, err
	}
	w, ok := parseWalIndex(b)
	return w, ok, nil
}

func (c *Conn) writeWalIndexHdr(w *walIndex) error {
	hb := w.hdrBytes()
	c.step("write shm header copy 2")
	if err := c.shm.Pwrite(48, hb); err != nil {
		return err
	}
	c.step("write shm header copy 1")
	return c.shm.Pwrite(0, hb)
}

func (c *Conn) writeCkptInfo(w *walIndex) error {
	c.step("write shm ckpt info")
	return c.shm.Pwrite(96, w.ckptBytes())
}

func (c *Conn) shmLock(start, n int, write bool) error {
	kind := "r"
	if write {
		kind = "w"
	}
	return c.retry(func() error {
		c.step(fmt.Sprintf("lock shm %d+%d %s", start, n, kind))
		if err := c.shm.Lock(uint64(start), uint64(start+n-1), write); err != nil {
			return ErrBusy
		}
		return nil
	})
}

func (c *Conn) shmUnlock(start, n int) {
	c.step(fmt.Sprintf("unlock shm %d+%d", start, n))
	_ = c.shm.Unlock(uint64(start), uint64(start+n-1))
}

func (c *Conn) walFrameSize() int64 { return int64(24 + c.PageSize) }

// scanWAL reads the WAL file through the mount and applies SQLite's validity rules.
func (c *Conn) scanWAL() (oracle.WALInfo, error) {
	c.step("read wal")
	b, err := c.wal.ReadAll()
	if err != nil {
		return oracle.WALInfo{}, err
	}
	return oracle.ScanWAL(b), nil
}

// recoverIndex is walIndexRecover: caller holds WRITE.
func (c *Conn) recoverIndex() (walIndex, error) {
	if err := c.shmLock(WALCkptLock, 2, true); err != nil {
		return walIndex{}, err
	}
	defer c.shmUnlock(WALCkptLock, 2)
	info, err := c.scanWAL()
	if err != nil {
		return walIndex{}, err
	}
	ps, n, _, err := c.ReadHeader()
	if err != nil {
		return walIndex{}, err
	}
	if ps != 0 {
		c.PageSize = ps
	}
	w := walIndex{IsInit: true, PageSize: c.PageSize, NPage: n}
	w.Change = 1
	if info.Valid && info.LastCommit > 0 {
		last := info.Frames[info.LastCommit-1]
		w.MxFrame = uint32(info.LastCommit)
		w.NPage = last.Commit
		w.BigEndCksum = info.BigEndian
		w.Salt = [2]uint32{info.Salt1, info.Salt2}
		// frame checksum of the last committed frame is stored in its header
		hb, err := c.wal.Pread(last.Offset, 24)
		if err != nil {
			return walIndex{}, err
		}
		w.FrameCksum = [2]uint32{binary.BigEndian.Uint32(hb[16:]), binary.BigEndian.Uint32(hb[20:])}
	} else if info.Valid {
		w.BigEndCksum = info.BigEndian
		w.Salt = [2]uint32{info.Salt1, info.Salt2}
		hb, _ := c.wal.Pread(0, 32)
		if len(hb) == 32 {
			w.FrameCksum = [2]uint32{binary.BigEndian.Uint32(hb[24:]), binary.BigEndian.Uint32(hb[28:])}
		}
	}
	w.NBackfill = 0
	w.ReadMark = [5]uint32{0, readMarkNotUsed, readMarkNotUsed, readMarkNotUsed, readMarkNotUsed}
	if w.MxFrame > 0 {
		w.ReadMark[1] = w.MxFrame
	}
	if err := c.writeWalIndexHdr(&w); err != nil {
		return walIndex{}, err
	}
	if err := c.writeCkptInfo(&w); err != nil {
		return walIndex{}, err
	}
	return w, nil
}

// BeginRead starts a read transaction (walTryBeginRead).
func (c *Conn) BeginRead() error {
	if err := c.OpenWAL(); err != nil {
		return err
	}
	ws := &c.walState
	for attempt := 0; attempt < 5; attempt++ {
		w, ok, err := c.readWalIndex()
		if err != nil {
			return err
		}
		if !ok {
			if err := c.shmLock(WALWriteLock, 1, true); err != nil {
				return err
			}
			w, ok, err = c.readWalIndex()
			if err == nil && !ok {
				w, err = c.recoverIndex()
			}
			c.shmUnlock(WALWriteLock, 1)
			if err != nil {
				return err
			}
		}
		if w.PageSize != 0 {
			c.PageSize = w.PageSize
		}
		if w.MxFrame == w.NBackfill {
			if err := c.shmLock(WALReadLock0, 1, false); err != nil {
				return err
			}
			w2, ok2, err := c.readWalIndex()
			if err != nil || !ok2 || w2 != w {
				c.shmUnlock(WALReadLock0, 1)
				continue
			}
			ws.idx, ws.readLock = w, 0
			return nil
		}
		// Use read mark 1; refresh it when possible.
		if w.ReadMark[1] != w.MxFrame {
			if err := c.shmLock(WALReadLock0+1, 1, true); err == nil {
				w.ReadMark[1] = w.MxFrame
				if err := c.writeCkptInfo(&w); err != nil {
					c.shmUnlock(WALReadLock0+1, 1)
					return err
				}
				c.shmUnlock(WALReadLock0+1, 1)
			}
		}
		if err := c.shmLock(WALReadLock0+1, 1, false); err != nil {
			return err
		}
		w2, ok2, err := c.readWalIndex()
		if err != nil || !ok2 || w2.MxFrame != w.MxFrame || w2.Salt != w.Salt || w2.Change != w.Change {
			c.shmUnlock(WALReadLock0+1, 1)
			continue
		}
		if w.ReadMark[1] != readMarkNotUsed && w.ReadMark[1] < w.MxFrame {
			// We read as of the (older) mark.
			w.MxFrame = w.ReadMark[1]
		}
		ws.idx, ws.readLock = w, 1
		return nil
	}
	return ErrBusy
}

// EndRead ends the read transaction.
func (c *Conn) EndRead() {
	ws := &c.walState
	if ws.readLock >= 0 {
		c.shmUnlock(WALReadLock0+ws.readLock, 1)
		ws.readLock = -1
	}
}

// readPageWAL returns the content of pgno as of the current read transaction.
func (c *Conn) readPageWAL(pgno uint32, info *oracle.WALInfo) ([]byte, error) {
	ws := &c.walState
	if ws.readLock != 0 && info != nil {
		for i := int(ws.idx.MxFrame) - 1; i >= 0 && i < len(info.Frames); i-- {
			if info.Frames[i].Pgno == pgno {
				return info.Frames[i].Data, nil
			}
		}
	}
	return c.readDBPage(pgno)
}

// ReadImageWAL reads the whole logical database as a WAL-mode reader.
func (c *Conn) ReadImageWAL() (*oracle.Image, error) {
	if err := c.BeginRead(); err != nil {
		return nil, err
	}
	defer c.EndRead()
	ws := &c.walState
	var info *oracle.WALInfo
	if ws.readLock != 0 {
		wi, err := c.scanWAL()
		if err != nil {
			return nil, err
		}
		if uint32(len(wi.Frames)) < ws.idx.MxFrame {
			return nil, fmt.Errorf("wal-index says mxFrame=%d but the WAL has only %d valid frames", ws.idx.MxFrame, len(wi.Frames))
		}
		info = &wi
	}
	n := ws.idx.NPage
	if ws.idx.MxFrame == 0 || n == 0 {
		// size from the database file header / file size
		ps, hn, _, err := c.ReadHeader()
		if err != nil {
			return nil, err
		}
		if ps != 0 {
			c.PageSize = ps
		}
		if n == 0 {
			n = hn
		}
	}
	im := &oracle.Image{PageSize: c.PageSize}
	for p := uint32(1); p <= n; p++ {
		b, err := c.readPageWAL(p, info)
		if err != nil {
			return nil, err
		}
		im.Pages = append(im.Pages, append([]byte(nil), b...))
	}
	return im, nil
}

func (c *Conn) salt2For(salt1 uint32) uint32 {
	if c.Det {
		return salt1*0x9E3779B9 + 0x7F4A7C15
	}
	return c.nextSalt()
}

func (c *Conn) nextSalt() uint32 {
	ws := &c.walState
	ws.saltSeed = ws.saltSeed*1664525 + 1013904223
	return ws.saltSeed
}

// beginWrite takes the WRITE lock and restarts the log when SQLite would.
func (c *Conn) beginWrite() error {
	ws := &c.walState
	if err := c.shmLock(WALWriteLock, 1, true); err != nil {
		return err
	}
	w, ok, err := c.readWalIndex()
	if err != nil || !ok || w.Change != ws.idx.Change || w.MxFrame != ws.idx.MxFrame || w.Salt != ws.idx.Salt {
		c.shmUnlock(WALWriteLock, 1)
		if err != nil {
			return err
		}
		return ErrBusy // SQLITE_BUSY_SNAPSHOT
	}
	ws.writing = true
	// walRestartLog
	if ws.readLock == 0 && w.NBackfill > 0 {
		if err := c.shmLock(WALReadLock0+1, 4, true); err == nil {
			w.MxFrame = 0
			w.Salt[0]++
			w.Salt[1] = c.salt2For(w.Salt[0])
			w.NBackfill = 0
			w.ReadMark = [5]uint32{0, 0, readMarkNotUsed, readMarkNotUsed, readMarkNotUsed}
			ws.ckptSeq++
			e1 := c.writeWalIndexHdr(&w)
			e2 := c.writeCkptInfo(&w)
			c.shmUnlock(WALReadLock0+1, 4)
			if e1 != nil {
				return e1
			}
			if e2 != nil {
				return e2
			}
			ws.idx = w
		}
		// drop READ0 and begin the read transaction again
		c.shmUnlock(WALReadLock0, 1)
		ws.readLock = -1
		if err := c.shmLock(WALReadLock0, 1, false); err != nil {
			return err
		}
		ws.readLock = 0
	}
	return nil
}

func (c *Conn) endWrite() {
	ws := &c.walState
	if ws.writing {
		c.shmUnlock(WALWriteLock, 1) // this is where LiteFS captures the transaction
		ws.writing = false
		if c.ackOnEndWrite {
			c.Acked, c.ackOnEndWrite = true, false
		}
	}
}

func (c *Conn) walWrite(desc string, off int64, data []byte) error {
	c.step(desc)
	return c.wal.Pwrite(off, data)
}

// RunWTx executes one WAL-mode write transaction. cur is the committed logical image.
func (c *Conn) RunWTx(tx WTx, cur *oracle.Image) (res WTxResult) {
	res.Intended = cur
	if cur != nil && cur.N() > 0 {
		c.PageSize = cur.PageSize
	}
	if err := c.BeginRead(); c.wfail(&res, "begin read", err) {
		return
	}
	defer c.EndRead()
	if err := c.beginWrite(); c.wfail(&res, "begin write", err) {
		return
	}
	defer c.endWrite()
	ws := &c.walState
	if tx.Outcome == "lockonly" {
		return
	}
	w := ws.idx
	bo := binary.ByteOrder(binary.LittleEndian)
	// Write the WAL header when this is the first frame of the log.
	if w.MxFrame == 0 {
		if w.Salt == [2]uint32{} {
			w.Salt = [2]uint32{c.nextSalt(), c.nextSalt()}
			if c.Det {
				w.Salt = [2]uint32{0x10000001, 0x20000002}
			}
		}
		w.BigEndCksum = tx.BigEndianCksum
		hdr := make([]byte, 32)
		magic := uint32(0x377f0682)
		if w.BigEndCksum {
			magic = 0x377f0683
			bo = binary.BigEndian
		}
		binary.BigEndian.PutUint32(hdr[0:], magic)
		binary.BigEndian.PutUint32(hdr[4:], 3007000)
		binary.BigEndian.PutUint32(hdr[8:], uint32(c.PageSize))
		binary.BigEndian.PutUint32(hdr[12:], ws.ckptSeq)
		binary.BigEndian.PutUint32(hdr[16:], w.Salt[0])
		binary.BigEndian.PutUint32(hdr[20:], w.Salt[1])
		c0, c1 := walCk(bo, 0, 0, hdr[:24])
		binary.BigEndian.PutUint32(hdr[24:], c0)
		binary.BigEndian.PutUint32(hdr[28:], c1)
		w.FrameCksum = [2]uint32{c0, c1}
		if err := c.walWrite("wal write header", 0, hdr); c.wfail(&res, "wal header", err) {
			return
		}
		res.WroteHdr = true
		if tx.Sync {
			c.step("wal fsync")
			_ = c.wal.Fsync()
		}
	} else if w.BigEndCksum {
		bo = binary.BigEndian
	}
	res.Salt1, res.Salt2 = w.Salt[0], w.Salt[1]

	next := cur.Clone()
	if next == nil {
		next = &oracle.Image{PageSize: c.PageSize}
	}
	size := cur.N()
	newSize := tx.NewSize
	hi := size
	for _, p := range tx.Frames {
		if p > hi {
			hi = p
		}
	}
	if newSize == 0 {
		newSize = hi
	}
	lock := oracle.LockPgno(c.PageSize)
	wal := true
	cc := uint32(1)
	if cur.N() > 0 {
		cc = binary.BigEndian.Uint32(cur.Pages[0][24:]) + 1
	}
	frameNo := w.MxFrame
	ck := w.FrameCksum
	res.WALOffset = 32 + int64(frameNo)*c.walFrameSize()
	commit := tx.Outcome != "rollback"
	pending := map[uint32][]byte{}
	p1v := page1Next(cur)
	for i, p := range tx.Frames {
		if p == lock {
			continue
		}
		var old []byte
		if b, ok := pending[p]; ok {
			old = b
		} else if p <= cur.N() {
			old = cur.Pages[p-1]
		}
		var content []byte
		if p == 1 {
			content = MakePage1(c.PageSize, c.ver(1, old, p1v, !commit), newSize, wal, cc)
		} else {
			content = MakePage(c.PageSize, p, c.ver(p, old, p1v, !commit))
		}
		pending[p] = content
		last := i == len(tx.Frames)-1
		fh := make([]byte, 24)
		binary.BigEndian.PutUint32(fh[0:], p)
		if last && commit {
			binary.BigEndian.PutUint32(fh[4:], newSize)
		}
		binary.BigEndian.PutUint32(fh[8:], w.Salt[0])
		binary.BigEndian.PutUint32(fh[12:], w.Salt[1])
		c0, c1 := walCk(bo, ck[0], ck[1], fh[:8])
		c0, c1 = walCk(bo, c0, c1, content)
		binary.BigEndian.PutUint32(fh[16:], c0)
		binary.BigEndian.PutUint32(fh[20:], c1)
		ck = [2]uint32{c0, c1}
		off := 32 + int64(frameNo)*c.walFrameSize()
		var err error
		switch tx.Split {
		case 1:
			if err = c.walWrite(fmt.Sprintf("wal write frame %d hdr[0:8]", frameNo+1), off, fh[:8]); err == nil {
				err = c.walWrite(fmt.Sprintf("wal write frame %d hdr[8:24]", frameNo+1), off+8, fh[8:])
			}
			if err == nil {
				err = c.walWrite(fmt.Sprintf("wal write frame %d page %d", frameNo+1, p), off+24, content)
			}
		case 2:
			h := len(content) / 2
			if err = c.walWrite(fmt.Sprintf("wal write frame %d hdr", frameNo+1), off, fh); err == nil {
				err = c.walWrite(fmt.Sprintf("wal write frame %d page %d [a]", frameNo+1, p), off+24, content[:h])
			}
			if err == nil {
				err = c.walWrite(fmt.Sprintf("wal write frame %d page %d [b]", frameNo+1, p), off+24+int64(h), content[h:])
			}
		default:
			if err = c.walWrite(fmt.Sprintf("wal write frame %d hdr", frameNo+1), off, fh); err == nil {
				err = c.walWrite(fmt.Sprintf("wal write frame %d page %d", frameNo+1, p), off+24, content)
			}
		}
		if c.wfail(&res, "wal frame", err) {
			return
		}
		frameNo++
		if last && commit {
			for k := 0; k < tx.Pad; k++ {
				pc0, pc1 := walCk(bo, ck[0], ck[1], fh[:8])
				pc0, pc1 = walCk(bo, pc0, pc1, content)
				pfh := append([]byte{}, fh...)
				binary.BigEndian.PutUint32(pfh[16:], pc0)
				binary.BigEndian.PutUint32(pfh[20:], pc1)
				ck = [2]uint32{pc0, pc1}
				poff := 32 + int64(frameNo)*c.walFrameSize()
				if err = c.walWrite(fmt.Sprintf("wal write frame %d hdr (padding)", frameNo+1), poff, pfh); err == nil {
					err = c.walWrite(fmt.Sprintf("wal write frame %d page %d (padding)", frameNo+1, p), poff+24, content)
				}
				if c.wfail(&res, "wal frame (padding)", err) {
					return
				}
				frameNo++
			}
		}
	}
	res.WALSize = 32 + int64(frameNo)*c.walFrameSize() - res.WALOffset
	if !commit && tx.Torn > 0 {
		off := 32 + int64(frameNo)*c.walFrameSize()
		fh := make([]byte, 24)
		binary.BigEndian.PutUint32(fh[0:], 2)
		binary.BigEndian.PutUint32(fh[8:], w.Salt[0])
		binary.BigEndian.PutUint32(fh[12:], w.Salt[1])
		body := MakePage(c.PageSize, 2, 0x7ea7)
		c0, c1 := walCk(bo, ck[0], ck[1], fh[:8])
		c0, c1 = walCk(bo, c0, c1, body)
		binary.BigEndian.PutUint32(fh[16:], c0)
		binary.BigEndian.PutUint32(fh[20:], c1)
		err := c.walWrite(fmt.Sprintf("wal write frame %d hdr (torn)", frameNo+1), off, fh)
		if err == nil && tx.Torn == 2 {
			err = c.walWrite(fmt.Sprintf("wal write frame %d half page (torn)", frameNo+1), off+24, body[:len(body)/2])
		}
		if c.wfail(&res, "wal frame (torn)", err) {
			return
		}
	}
	if !commit {
		// walUndo: nothing reaches the wal-index; the frames stay in the file beyond mxFrame.
		return
	}
	if tx.Sync {
		c.step("wal fsync")
		_ = c.wal.Fsync()
	}
	// Build intended image.
	var unwritten []uint32
	for p, b := range pending {
		for uint32(len(next.Pages)) < p {
			next.Pages = append(next.Pages, nil)
		}
		next.Pages[p-1] = b
	}
	if uint32(len(next.Pages)) > newSize {
		next.Pages = next.Pages[:newSize]
	}
	for uint32(len(next.Pages)) < newSize {
		next.Pages = append(next.Pages, nil)
	}
	for i := range next.Pages {
		if next.Pages[i] == nil {
			if uint32(i+1) == lock {
				next.Pages[i] = make([]byte, c.PageSize)
			} else if tx.FreeLeaves && uint32(i+1) > size {
				// a free-list leaf allocated and freed inside the transaction: never written, not even as a frame.
				// Readers find it in an earlier frame of this log generation (a page spilled and then truncated away by
				// an earlier transaction is still there), else in the database file, else - beyond its end - as zeros.
				next.Pages[i] = make([]byte, c.PageSize)
				unwritten = append(unwritten, uint32(i+1))
			} else {
				c.wfail(&res, "program", fmt.Errorf("illegal program: page %d of %d has no content", i+1, newSize))
				return
			}
		}
	}
	next.PageSize = c.PageSize
	w.MxFrame = frameNo
	w.NPage = newSize
	w.FrameCksum = ck
	w.Change++
	w.IsInit = true
	w.PageSize = c.PageSize
	if err := c.writeWalIndexHdr(&w); c.wfail(&res, "shm header", err) {
		return
	}
	if len(unwritten) > 0 {
		// what a reader of the new snapshot finds for the unwritten pages
		ws.idx = w
		savedLock := ws.readLock
		ws.readLock = 1 // look into the log as a reader with a read mark does (this connection just wrote frames)
		defer func() { ws.readLock = savedLock }()
		info, err := c.scanWAL()
		if c.wfail(&res, "scan wal", err) {
			return
		}
		for _, p := range unwritten {
			b, err := c.readPageWAL(p, &info)
			if c.wfail(&res, "read unwritten page", err) {
				return
			}
			next.Pages[p-1] = append([]byte(nil), b...)
		}
	}
	ws.idx = w
	res.Committed = true
	res.Intended = next
	// The deferred endWrite() releases WRITE; SQLite's COMMIT returns after that.
	c.ackOnEndWrite = true
	if tx.CloseAfter {
		c.Close() // wal, shm (drops WRITE and the read lock), db
		c.walState.readLock = -1
		c.Acked, c.ackOnEndWrite = true, false
	}
	return
}

// StrayWALWrite issues a write to the log file by a connection that does not hold the WAL write lock (no SQLite
// connection does that; LiteFS must refuse it and the refusal must have no effect): kind "header" is a 32-byte
// header with fresh salts at offset 0, "frame" a 24-byte frame header with those salts at the end of the file.
// It returns the error of the write (nil if it was accepted).
func (c *Conn) StrayWALWrite(kind string) error {
	if err := c.OpenWAL(); err != nil {
		return err
	}
	hdr := make([]byte, 32)
	binary.BigEndian.PutUint32(hdr[0:], 0x377f0682)
	binary.BigEndian.PutUint32(hdr[4:], 3007000)
	binary.BigEndian.PutUint32(hdr[8:], uint32(c.PageSize))
	binary.BigEndian.PutUint32(hdr[12:], 77)
	binary.BigEndian.PutUint32(hdr[16:], 0x51a17001)
	binary.BigEndian.PutUint32(hdr[20:], 0x51a17002)
	c0, c1 := walCk(binary.LittleEndian, 0, 0, hdr[:24])
	binary.BigEndian.PutUint32(hdr[24:], c0)
	binary.BigEndian.PutUint32(hdr[28:], c1)
	if kind == "header" {
		return c.walWrite("wal write header (no write lock)", 0, hdr)
	}
	sz, err := c.wal.Size()
	if err != nil {
		return err
	}
	if sz < 32 {
		sz = 32
	}
	if kind == "held-body" {
		// a connection that does hold the write lock rewrites the body of the newest frame, which LiteFS has captured
		// already (SQLite never does: the log only grows between restarts)
		if sz < 32+c.walFrameSize() {
			return fmt.Errorf("no frame to rewrite")
		}
		if err := c.shmLock(WALWriteLock, 1, true); err != nil {
			return err
		}
		defer c.shmUnlock(WALWriteLock, 1)
		return c.walWrite("wal rewrite of a captured frame body", sz-c.walFrameSize()+24, bytes.Repeat([]byte{0x5a}, c.PageSize))
	}
	fh := make([]byte, 24)
	binary.BigEndian.PutUint32(fh[0:], 2)
	copy(fh[8:16], hdr[16:24])
	return c.walWrite("wal write frame header (no write lock)", sz, fh)
}

// LeaveWAL is the first half of PRAGMA journal_mode=DELETE|TRUNCATE|PERSIST on a WAL database
// (sqlite3PagerCloseWal): with no other connection attached, everything in the log is checkpointed into the
// database file, the connection drops its wal-index and log handles and unlinks both files. The caller then
// runs the rollback-journal transaction that rewrites the version bytes of page 1 (RTx{FromWAL: true}).
func (c *Conn) LeaveWAL() error {
	if err := c.Checkpoint("PASSIVE", 0); err != nil {
		return err
	}
	c.Close()
	for _, suffix := range []string{"-wal", "-shm"} {
		if c.M.Exists(c.Name + suffix) {
			c.step("unlink " + c.Name + suffix)
			if err := c.M.Remove(c.Name + suffix); err != nil {
				return err
			}
		}
	}
	return nil
}

// Checkpoint runs sqlite3WalCheckpoint in the given mode:
// PASSIVE | FULL | RESTART | TRUNCATE. maxFrames > 0 limits a PASSIVE
// checkpoint to the first maxFrames frames (as if a reader pinned the rest).
func (c *Conn) Checkpoint(mode string, maxFrames uint32) error {
	if err := c.OpenWAL(); err != nil {
		return err
	}
	if err := c.shmLock(WALCkptLock, 1, true); err != nil {
		return err
	}
	defer c.shmUnlock(WALCkptLock, 1)
	holdWrite := false
	if mode != "PASSIVE" {
		if err := c.shmLock(WALWriteLock, 1, true); err == nil {
			holdWrite = true
		} else {
			mode = "PASSIVE"
		}
	}
	defer func() {
		if holdWrite {
			c.shmUnlock(WALWriteLock, 1)
		}
	}()
	w, ok, err := c.readWalIndex()
	if err != nil {
		return err
	}
	if !ok {
		if !holdWrite {
			if err := c.shmLock(WALWriteLock, 1, true); err != nil {
				return err
			}
			w, err = c.recoverIndex()
			c.shmUnlock(WALWriteLock, 1)
		} else {
			w, err = c.recoverIndex()
		}
		if err != nil {
			return err
		}
	}
	if w.PageSize != 0 {
		c.PageSize = w.PageSize
	}
	if w.MxFrame == 0 {
		return nil
	}
	mxSafe := w.MxFrame
	if maxFrames > 0 && maxFrames < mxSafe {
		mxSafe = maxFrames
	}
	for i := 1; i < 5; i++ {
		y := w.ReadMark[i]
		if mxSafe > y {
			if err := c.shmLock(WALReadLock0+i, 1, true); err == nil {
				if i == 1 {
					w.ReadMark[i] = mxSafe
				} else {
					w.ReadMark[i] = readMarkNotUsed
				}
				_ = c.writeCkptInfo(&w)
				c.shmUnlock(WALReadLock0+i, 1)
			} else {
				mxSafe = y
			}
		}
	}
	if w.NBackfill < mxSafe {
		if err := c.shmLock(WALReadLock0, 1, true); err != nil {
			return err
		}
		info, err := c.scanWAL()
		if err != nil {
			c.shmUnlock(WALReadLock0, 1)
			return err
		}
		if uint32(len(info.Frames)) < mxSafe {
			c.shmUnlock(WALReadLock0, 1)
			return fmt.Errorf("wal-index says mxFrame=%d but the WAL has only %d valid frames", mxSafe, len(info.Frames))
		}
		c.step("wal fsync")
		_ = c.wal.Fsync()
		latest := map[uint32][]byte{}
		for i := w.NBackfill; i < mxSafe; i++ {
			latest[info.Frames[i].Pgno] = info.Frames[i].Data
		}
		pgs := make([]uint32, 0, len(latest))
		for p := range latest {
			pgs = append(pgs, p)
		}
		sortU32(pgs)
		for _, p := range pgs {
			if p > w.NPage {
				continue
			}
			c.step(fmt.Sprintf("db write page %d (checkpoint)", p))
			if err := c.db.Pwrite(int64(p-1)*int64(c.PageSize), latest[p]); err != nil {
				c.shmUnlock(WALReadLock0, 1)
				return err
			}
		}
		if mxSafe == w.MxFrame {
			c.step(fmt.Sprintf("db truncate to %d pages (checkpoint)", w.NPage))
			if err := c.db.Truncate(int64(w.NPage) * int64(c.PageSize)); err != nil {
				c.shmUnlock(WALReadLock0, 1)
				return err
			}
			c.step("db fsync")
			_ = c.db.Fsync()
		}
		w.NBackfill = mxSafe
		_ = c.writeCkptInfo(&w)
		c.shmUnlock(WALReadLock0, 1)
	}
	if mode != "PASSIVE" && w.NBackfill < w.MxFrame {
		return ErrBusy
	}
	if (mode == "RESTART" || mode == "TRUNCATE") && holdWrite {
		if err := c.shmLock(WALReadLock0+1, 4, true); err != nil {
			return err
		}
		if mode == "TRUNCATE" {
			w.MxFrame = 0
			w.Salt[0]++
			w.Salt[1] = c.salt2For(w.Salt[0])
			w.NBackfill = 0
			w.ReadMark = [5]uint32{0, 0, readMarkNotUsed, readMarkNotUsed, readMarkNotUsed}
			c.walState.ckptSeq++
			_ = c.writeWalIndexHdr(&w)
			_ = c.writeCkptInfo(&w)
			c.step("wal truncate 0")
			if err := c.wal.Truncate(0); err != nil {
				c.shmUnlock(WALReadLock0+1, 4)
				return err
			}
		}
		c.shmUnlock(WALReadLock0+1, 4)
	}
	return nil
}

// WALChecksum is SQLite's WAL checksum over b (a multiple of 8 bytes) continued from (s0, s1).
func WALChecksum(bo binary.ByteOrder, s0, s1 uint32, b []byte) (uint32, uint32) { return walCk(bo, s0, s1, b) }
