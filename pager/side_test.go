package pager

import (
	"testing"
	"testing/synctest"

	"verif/lab"
	"verif/oracle"
)

func sideNode(t *testing.T) (*lab.Node, func()) {
	dir := lab.ScratchDir("side")
	n, err := lab.StartPrimary(dir, lab.NodeConfig{})
	if err != nil {
		t.Fatal(err)
	}
	return n, func() { n.Stop(); lab.RemoveAll(dir) }
}

// A: first transaction on a new database rolled back.
func TestSideCreateRollback(t *testing.T) {
	synctest.Test(t, func(t *testing.T) {
		n, done := sideNode(t)
		defer done()
		c := NewConn(n.M, "db", 1, 512)
		c.KeepTrace = true
		res := c.RunRTx(RTx{Create: true, NewSize: 3, Final: "DELETE", Outcome: "rollback", SyncMode: 2}, nil)
		t.Logf("err=%v at %q committed=%v exits=%v\n%v", res.Err, res.ErrStep, res.Committed, n.Exits, c.Trace)
	})
}

// B: WAL -> DELETE switch.
func TestSideLeaveWAL(t *testing.T) {
	synctest.Test(t, func(t *testing.T) {
		n, done := sideNode(t)
		defer done()
		c := NewConn(n.M, "db", 1, 512)
		c.KeepTrace = true
		res := c.RunRTx(RTx{Create: true, NewSize: 3, Final: "DELETE", Outcome: "commit", ToWAL: true}, nil)
		if res.Err != nil {
			t.Fatal(res.Err)
		}
		img := res.Intended
		w := c.RunWTx(WTx{Frames: []uint32{1, 2}, Outcome: "commit"}, img)
		if w.Err != nil {
			t.Fatal(w.Err)
		}
		img = w.Intended
		if err := c.Checkpoint("PASSIVE", 0); err != nil {
			t.Fatal(err)
		}
		c.Close()
		_ = n.M.Remove("db-wal")
		_ = n.M.Remove("db-shm")
		db := n.DB("db")
		before := db.Pos()
		c = NewConn(n.M, "db", 2, 512)
		c.KeepTrace = true
		res = c.RunRTx(RTx{FromWAL: true, Final: "DELETE", Outcome: "commit"}, img)
		t.Logf("err=%v at %q committed=%v exits=%v", res.Err, res.ErrStep, res.Committed, n.Exits)
		t.Logf("pos %s -> %s, intended checksum %x mode=%v", before, db.Pos(), res.Intended.Checksum(), db.Mode())
		d, err := oracle.DecodeLTXFile(db.LTXPath(db.Pos().TXID, db.Pos().TXID))
		if err != nil {
			t.Fatal(err)
		}
		t.Logf("ltx: hdr=%+v pages=%d post=%x", d.Header, len(d.Pages), d.Trailer.PostApplyChecksum)
	})
}

// C: WAL transaction with a spilled frame beyond the commit size.
func TestSideWALFrameBeyondCommit(t *testing.T) {
	synctest.Test(t, func(t *testing.T) {
		n, done := sideNode(t)
		defer done()
		c := NewConn(n.M, "db", 1, 512)
		c.KeepTrace = true
		res := c.RunRTx(RTx{Create: true, NewSize: 3, Final: "DELETE", Outcome: "commit", ToWAL: true}, nil)
		if res.Err != nil {
			t.Fatal(res.Err)
		}
		img := res.Intended
		w := c.RunWTx(WTx{Frames: []uint32{4, 1}, NewSize: 3, Outcome: "commit"}, img)
		t.Logf("err=%v at %q committed=%v exits=%v pos=%s", w.Err, w.ErrStep, w.Committed, n.Exits, n.DB("db").Pos())
	})
}
