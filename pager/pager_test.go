package pager

import (
	"testing"
	"testing/synctest"

	"verif/lab"
	"verif/oracle"
)

func TestSmoke(t *testing.T) {
	synctest.Test(t, func(t *testing.T) {
		dir := lab.ScratchDir("smoke")
		defer lab.RemoveAll(dir)
		n, err := lab.StartPrimary(dir, lab.NodeConfig{})
		if err != nil {
			t.Fatal(err)
		}
		defer n.Stop()
		c := NewConn(n.M, "db", 1, 512)
		c.KeepTrace = true
		res := c.RunRTx(RTx{Create: true, NewSize: 3, Final: "DELETE", Outcome: "commit"}, nil)
		if res.Err != nil || !res.Committed {
			t.Fatalf("create: %v at %s\n%v", res.Err, res.ErrStep, c.Trace)
		}
		db := n.DB("db")
		t.Logf("pos=%s pageN=%d", db.Pos(), db.PageN())
		if got, want := uint64(db.Pos().PostApplyChecksum), res.Intended.Checksum(); got != want {
			t.Fatalf("checksum %x want %x", got, want)
		}
		img := res.Intended
		res = c.RunRTx(RTx{Mods: []uint32{2}, NewSize: 5, SpillAfter: []int{1}, Final: "PERSIST", Outcome: "commit"}, img)
		if res.Err != nil || !res.Committed {
			t.Fatalf("tx2: %v at %s\n%v", res.Err, res.ErrStep, c.Trace)
		}
		img = res.Intended
		t.Logf("pos=%s pageN=%d", db.Pos(), db.PageN())
		if got, want := uint64(db.Pos().PostApplyChecksum), img.Checksum(); got != want {
			t.Fatalf("checksum %x want %x", got, want)
		}
		res = c.RunRTx(RTx{Mods: []uint32{3}, NewSize: 2, Final: "TRUNCATE", Outcome: "commit", ToWAL: true}, img)
		if res.Err != nil || !res.Committed {
			t.Fatalf("tx3: %v at %s\n%v", res.Err, res.ErrStep, c.Trace)
		}
		img = res.Intended
		t.Logf("pos=%s pageN=%d mode=%v", db.Pos(), db.PageN(), db.Mode())
		c.Close()
		// WAL mode now
		c2 := NewConn(n.M, "db", 2, 512)
		c2.KeepTrace = true
		w := c2.RunWTx(WTx{Frames: []uint32{1, 2, 3, 2}, Outcome: "commit"}, img)
		if w.Err != nil || !w.Committed {
			t.Fatalf("wtx1: %v at %s\n%v", w.Err, w.ErrStep, c2.Trace)
		}
		img = w.Intended
		t.Logf("pos=%s pageN=%d", db.Pos(), db.PageN())
		if got, want := uint64(db.Pos().PostApplyChecksum), img.Checksum(); got != want {
			t.Fatalf("checksum %x want %x", got, want)
		}
		w = c2.RunWTx(WTx{Frames: []uint32{2}, Outcome: "rollback"}, img)
		t.Logf("rollback: err=%v pos=%s", w.Err, db.Pos())
		w = c2.RunWTx(WTx{Frames: []uint32{3, 1}, Outcome: "commit"}, img)
		if w.Err != nil || !w.Committed {
			t.Fatalf("wtx3: %v at %s\n%v", w.Err, w.ErrStep, c2.Trace)
		}
		img = w.Intended
		got, err := c2.ReadImageWAL()
		if err != nil {
			t.Fatal(err)
		}
		if ok, d := got.Equal(img); !ok {
			t.Fatalf("image differs: %s", d)
		}
		if err := c2.Checkpoint("TRUNCATE", 0); err != nil {
			t.Fatalf("ckpt: %v\n%v", err, c2.Trace[len(c2.Trace)-20:])
		}
		w = c2.RunWTx(WTx{Frames: []uint32{1, 4}, Outcome: "commit"}, img)
		if w.Err != nil || !w.Committed {
			t.Fatalf("wtx4: %v at %s", w.Err, w.ErrStep)
		}
		img = w.Intended
		t.Logf("pos=%s pageN=%d exits=%v", db.Pos(), db.PageN(), n.ExitCodes())
		li, err := oracle.ReadLogicalImage(db.Path(), 512)
		if err != nil {
			t.Fatal(err)
		}
		if ok, d := li.Equal(img); !ok {
			t.Fatalf("on-disk logical image differs: %s", d)
		}
		if got, want := uint64(db.Pos().PostApplyChecksum), img.Checksum(); got != want {
			t.Fatalf("checksum %x want %x", got, want)
		}
		ch := oracle.CheckChain(db.LTXDir(), uint64(db.Pos().TXID), uint64(db.Pos().PostApplyChecksum))
		if len(ch.Errors) > 0 {
			t.Fatalf("chain: %v", ch.Errors)
		}
		c2.Close()
	})
}
