// Package pager simulates, at the level of individual file operations, what
// SQLite's pager and WAL modules do to a database's files (unix VFS locking
// protocol included). It drives a lab.Mount; nothing here imports package
// litefs except through the mount.
package pager

import (
	"bytes"
	"encoding/binary"
	"errors"
	"fmt"

	"verif/lab"
	"verif/oracle"
)

// SQLite lock bytes.
const (
	PendingByte  = 0x40000000
	ReservedByte = PendingByte + 1
	SharedFirst  = PendingByte + 2
	SharedSize   = 510

	WALWriteLock   = 120
	WALCkptLock    = 121
	WALRecoverLock = 122
	WALReadLock0   = 123
	WALDMSLock     = 128
)

var journalMagic = []byte{0xd9, 0xd5, 0x05, 0xf9, 0x20, 0xa1, 0x63, 0xd7}

// Abort is panicked by a Before hook to stop a connection at a step (crash / cut).
type Abort struct{ Step int }

// MakePage returns the deterministic content of (pgno, version). Distinct
// (pgno, version) pairs have distinct bytes everywhere in the page.
func MakePage(pageSize int, pgno uint32, version uint32) []byte {
	b := make([]byte, pageSize)
	x := uint64(pgno)<<32 | uint64(version)
	for i := 0; i+8 <= pageSize; i += 8 {
		x ^= x << 13
		x ^= x >> 7
		x ^= x << 17
		x += 0x9E3779B97F4A7C15
		binary.LittleEndian.PutUint64(b[i:], x)
	}
	binary.BigEndian.PutUint32(b[0:], version) // readable version tag (pages other than page 1)
	return b
}

// VersionOf extracts the version tag of a page produced by MakePage / MakePage1.
func VersionOf(pgno uint32, b []byte) uint32 {
	if pgno == 1 {
		if len(b) < 108 {
			return 0
		}
		return binary.BigEndian.Uint32(b[104:])
	}
	if len(b) < 4 {
		return 0
	}
	return binary.BigEndian.Uint32(b[0:])
}

// Header builds page 1 with a valid 100-byte SQLite header.
func MakePage1(pageSize int, version uint32, pageN uint32, wal bool, changeCounter uint32) []byte {
	b := MakePage(pageSize, 1, version)
	for i := 0; i < 100; i++ {
		b[i] = 0
	}
	copy(b, "SQLite format 3\x00")
	ps := uint16(pageSize)
	if pageSize == 65536 {
		ps = 1
	}
	binary.BigEndian.PutUint16(b[16:], ps)
	b[18], b[19] = 1, 1
	if wal {
		b[18], b[19] = 2, 2
	}
	b[20] = 0
	b[21], b[22], b[23] = 64, 32, 32
	binary.BigEndian.PutUint32(b[24:], changeCounter)
	binary.BigEndian.PutUint32(b[28:], pageN)
	binary.BigEndian.PutUint32(b[40:], version+1) // schema cookie
	binary.BigEndian.PutUint32(b[44:], 4)         // schema format
	binary.BigEndian.PutUint32(b[56:], 1)         // text encoding utf8
	binary.BigEndian.PutUint32(b[92:], changeCounter)
	binary.BigEndian.PutUint32(b[96:], 3039002)
	binary.BigEndian.PutUint32(b[104:], version)
	return b
}

// Conn is one SQLite connection (one POSIX lock owner) on one database of one mount.
type Conn struct {
	M     *lab.Mount
	Name  string
	Owner uint64

	PageSize   int
	SectorSize int

	// Before is called before every file operation the connection issues.
	Before func(step int, desc string)
	// Det selects state-determined page contents: a modified page gets version old+1, an appended page the
	// new version of page 1; rolled-back content carries the high bit. Two histories that reach the same logical
	// state then produce identical bytes (needed for state merging); otherwise a per-connection counter is used.
	Det bool

	// Busy, if set, is SQLite's busy handler: called when a lock request fails; returning true retries the request.
	Busy func() bool

	// Acked is set once a commit has returned success to the application (journal finalised / WAL write lock released after a commit).
	Acked bool

	Steps  int
	Trace  []string
	KeepTrace bool

	db  *lab.File
	jrn *lab.File
	wal *lab.File
	shm *lab.File

	version uint32 // page content version counter (per connection; combined with owner for uniqueness)

	// lock state as SQLite tracks it
	eLock int // 0 none 1 shared 2 reserved 3 pending 4 exclusive

	walState      walConn
	ackOnEndWrite bool
}

// NewConn returns a connection. pageSize is used when the database does not exist yet.
func NewConn(m *lab.Mount, name string, owner uint64, pageSize int) *Conn {
	return &Conn{M: m, Name: name, Owner: owner, PageSize: pageSize, SectorSize: 512, version: uint32(owner) << 20}
}

func (c *Conn) step(desc string) {
	c.Steps++
	if c.KeepTrace {
		c.Trace = append(c.Trace, desc)
	}
	if c.Before != nil {
		c.Before(c.Steps, desc)
	}
}

// NextVersion returns a fresh content version.
func (c *Conn) NextVersion() uint32 { c.version++; return c.version }

// ver picks the version for new content of page p whose current content is old (nil for an appended page).
func (c *Conn) ver(p uint32, old []byte, page1New uint32, uncommitted bool) uint32 {
	if !c.Det {
		return c.NextVersion()
	}
	var v uint32
	if old != nil {
		v = (VersionOf(p, old) & 0x7fffffff) + 1
	} else {
		v = page1New
	}
	if uncommitted {
		v |= 0x80000000
	}
	return v
}

func page1Next(cur *oracle.Image) uint32 {
	if cur.N() == 0 {
		return 1
	}
	return (VersionOf(1, cur.Pages[0]) & 0x7fffffff) + 1
}

// ---- file handles ----

func (c *Conn) openDB(create bool) error {
	if c.db != nil {
		return nil
	}
	c.step("open db")
	var err error
	if create {
		c.db, _, err = c.M.OpenOrCreate(c.Name, c.Owner)
	} else {
		c.db, err = c.M.Open(c.Name, c.Owner)
	}
	return err
}

// Close closes all handles (which drops all of this owner's locks, as close(2) does).
func (c *Conn) Close() {
	for _, f := range []**lab.File{&c.jrn, &c.wal, &c.shm, &c.db} {
		if *f != nil {
			c.step("close " + (*f).Name)
			_ = (*f).Close()
			*f = nil
		}
	}
	c.eLock = 0
	c.walState = walConn{}
}

// ---- rollback-mode locking (unix VFS) ----

// retry runs a lock attempt under the busy handler.
func (c *Conn) retry(f func() error) error {
	for {
		err := f()
		if err == nil || c.Busy == nil || !c.Busy() {
			return err
		}
	}
}

func (c *Conn) lockShared() error {
	if c.eLock >= 1 {
		return nil
	}
	if err := c.retry(func() error {
		c.step("lock PENDING r")
		return c.db.Lock(PendingByte, PendingByte, false)
	}); err != nil {
		return err
	}
	c.step("lock SHARED r")
	err := c.db.Lock(SharedFirst, SharedFirst+SharedSize-1, false)
	c.step("unlock PENDING")
	_ = c.db.Unlock(PendingByte, PendingByte)
	if err != nil {
		return err
	}
	c.eLock = 1
	return nil
}

func (c *Conn) lockReserved() error {
	if err := c.retry(func() error {
		c.step("lock RESERVED w")
		return c.db.Lock(ReservedByte, ReservedByte, true)
	}); err != nil {
		return err
	}
	c.eLock = 2
	return nil
}

func (c *Conn) lockExclusive() error {
	if c.eLock >= 4 {
		return nil
	}
	if c.eLock < 3 {
		if err := c.retry(func() error {
			c.step("lock PENDING w")
			return c.db.Lock(PendingByte, PendingByte, true)
		}); err != nil {
			return err
		}
		c.eLock = 3
	}
	if err := c.retry(func() error {
		c.step("lock SHARED w")
		return c.db.Lock(SharedFirst, SharedFirst+SharedSize-1, true)
	}); err != nil {
		return err
	}
	c.eLock = 4
	return nil
}

func (c *Conn) unlockToShared() {
	if c.eLock <= 1 {
		return
	}
	c.step("lock SHARED r (downgrade)")
	_ = c.db.Lock(SharedFirst, SharedFirst+SharedSize-1, false)
	c.step("unlock PENDING+RESERVED")
	_ = c.db.Unlock(PendingByte, PendingByte+1)
	c.eLock = 1
}

func (c *Conn) unlockAll() {
	if c.db == nil {
		return
	}
	c.unlockToShared()
	c.step("unlock all")
	_ = c.db.Unlock(0, 0x7fffffffffffffff)
	c.eLock = 0
}

// ---- reading ----

// ReadHeader reads the first 100 bytes through the page cache and returns (pageSize, pageN, walMode).
func (c *Conn) ReadHeader() (int, uint32, bool, error) {
	c.step("read db header")
	b, err := c.db.Pread(0, 100)
	if err != nil {
		return 0, 0, false, err
	}
	if len(b) < 100 {
		return 0, 0, false, nil
	}
	ps := oracle.HeaderPageSize(b)
	if ps == 0 {
		return 0, 0, false, fmt.Errorf("invalid database header")
	}
	return ps, oracle.HeaderPageCount(b), b[18] == 2 && b[19] == 2, nil
}

func (c *Conn) readDBPage(pgno uint32) ([]byte, error) {
	c.step(fmt.Sprintf("read db page %d", pgno))
	b, err := c.db.Pread(int64(pgno-1)*int64(c.PageSize), c.PageSize)
	if err != nil {
		return nil, err
	}
	if len(b) < c.PageSize {
		// SQLite zero-fills a short read.
		b = append(b, make([]byte, c.PageSize-len(b))...)
	}
	return b, nil
}

// RTx describes one rollback-journal write transaction as a pager program.
type RTx struct {
	Mods    []uint32 // existing pages (besides page 1) whose content changes
	NewSize uint32   // database size after the transaction (0 = unchanged)
	// Peak, if larger than both the old and the new size, is the size the image had in the middle of the
	// transaction: pages up to Peak were appended, written to the file by the first cache spill, and the ones
	// beyond NewSize freed again before the commit (SQLite truncates the file after the journal is finalised).
	// Ignored without a spill.
	Peak uint32
	// SpillAfter lists, in increasing order, the number of journalled pages after
	// which the cache spills (journal sync, EXCLUSIVE, dirty pages written, new journal segment).
	SpillAfter []int
	SyncMode   int    // 0: nRec written at sync (FULL/NORMAL); 2: no-sync (nRec = 0xffffffff, magic written with the header)
	Final      string // DELETE | TRUNCATE | PERSIST
	// Outcome: commit | rollback (after whatever was written) | lockonly (RESERVED taken and released, nothing written)
	Outcome string
	ToWAL   bool // switch header bytes 18/19 to 2 (PRAGMA journal_mode=WAL commits this through the journal)
	FromWAL bool // switch header back to rollback mode
	Create  bool // database file is created by this transaction
	// RewriteOnly: pages in Mods are rewritten with identical bytes (SQLite may do this); default is new content.
	SameBytes bool
	// VersionBytes22: the modified pages other than page 1 carry the bytes 02 02 at offset 18 (where page 1 keeps its
	// write/read version, which is how a WAL database is recognised); any b-tree or overflow page may.
	VersionBytes22 bool
	// FreeLeaves (with NewSize >= old size + 2, no spill): the appended pages except the last are free-list leaves
	// that SQLite never writes; the last appended page reaches the file as a zero page when the commit extends it.
	FreeLeaves bool
	// FirstNew (with FreeLeaves): the first FirstNew appended pages are ordinary new pages and are written; the
	// unwritten leaves come after them.
	FirstNew int
	// SpillNew (with Create): the first transaction is larger than the page cache: SpillNew of its new pages other
	// than page 1 - which stays pinned for the whole write transaction - are written to the still empty file by a
	// cache spill before the commit writes page 1 and the rest.
	SpillNew int
}

// RTxResult is what the simulator knows after a program ran.
type RTxResult struct {
	Committed bool
	// Intended is the logical image SQLite now believes is committed.
	Intended *oracle.Image
	Err      error // first error an operation returned (a legal program on a writable node must see none)
	ErrStep  string
}

func (c *Conn) fail(res *RTxResult, desc string, err error) bool {
	if err != nil && res.Err == nil {
		res.Err = err
		res.ErrStep = desc
	}
	return err != nil
}

// journal header (sector padded). magic/nRec follow SQLite: zero until synced unless no-sync.
func (c *Conn) journalHeader(nRec uint32, withMagic bool, nonce, origSize uint32) []byte {
	n := c.SectorSize
	if n > c.PageSize {
		n = c.PageSize
	}
	// SQLite writes JOURNAL_HDR_SZ bytes in chunks of at most pageSize; we emit the chunk list below.
	b := make([]byte, c.SectorSize)
	if withMagic {
		copy(b, journalMagic)
		binary.BigEndian.PutUint32(b[8:], nRec)
	}
	binary.BigEndian.PutUint32(b[12:], nonce)
	binary.BigEndian.PutUint32(b[16:], origSize)
	binary.BigEndian.PutUint32(b[20:], uint32(c.SectorSize))
	binary.BigEndian.PutUint32(b[24:], uint32(c.PageSize))
	_ = n
	return b
}

func journalCksum(data []byte, nonce uint32) uint32 {
	ck := nonce
	for i := len(data) - 200; i > 0; i -= 200 {
		ck += uint32(data[i])
	}
	return ck
}

func (c *Conn) jwrite(desc string, off int64, data []byte) error {
	c.step(desc)
	return c.jrn.Pwrite(off, data)
}

func (c *Conn) writeJournalHeaderAt(off int64, hdr []byte) error {
	chunk := c.PageSize
	if chunk > len(hdr) {
		chunk = len(hdr)
	}
	for w := 0; w < len(hdr); w += chunk {
		if err := c.jwrite(fmt.Sprintf("journal write header @%d+%d", off+int64(w), chunk), off+int64(w), hdr[w:w+chunk]); err != nil {
			return err
		}
	}
	return nil
}

func sectorAlign(off int64, sector int) int64 {
	if off == 0 {
		return 0
	}
	return ((off-1)/int64(sector) + 1) * int64(sector)
}

// RunRTx executes the program against the mount. cur is the committed image
// before the transaction (nil or empty for a new database).
func (c *Conn) RunRTx(tx RTx, cur *oracle.Image) (res RTxResult) {
	res.Intended = cur
	origSize := cur.N()
	if cur != nil && cur.N() > 0 {
		c.PageSize = cur.PageSize
	}
	if err := c.openDB(tx.Create); c.fail(&res, "open db", err) {
		return
	}
	if err := c.lockShared(); c.fail(&res, "lock shared", err) {
		c.unlockAll()
		return
	}
	if origSize > 0 {
		if ps, n, _, err := c.ReadHeader(); c.fail(&res, "read header", err) {
			c.unlockAll()
			return
		} else if ps != c.PageSize || n != origSize {
			c.fail(&res, "read header", fmt.Errorf("header says pageSize=%d pageN=%d, simulator expects %d/%d", ps, n, c.PageSize, origSize))
			c.unlockAll()
			return
		}
	}
	if err := c.lockReserved(); c.fail(&res, "lock reserved", err) {
		c.unlockAll()
		return
	}
	if tx.Outcome == "lockonly" {
		c.unlockAll()
		return
	}

	// Open the journal: create it, or reuse a leftover from PERSIST/TRUNCATE mode.
	c.step("open journal")
	var err error
	c.jrn, _, err = c.M.OpenOrCreate(c.Name+"-journal", c.Owner)
	if c.fail(&res, "open journal", err) {
		c.unlockAll()
		return
	}

	newSize := tx.NewSize
	if newSize == 0 {
		newSize = origSize
	}
	p1v := page1Next(cur)
	unc := tx.Outcome == "rollback"
	nonce := uint32(0x1234567) + p1v
	if !c.Det {
		nonce += c.NextVersion()
	}
	noSync := tx.SyncMode == 2

	// New image.
	next := &oracle.Image{PageSize: c.PageSize}
	if cur != nil {
		next = cur.Clone()
		next.PageSize = c.PageSize
	}
	wal := false
	cc := uint32(1)
	if origSize > 0 {
		wal = cur.Pages[0][18] == 2
		cc = binary.BigEndian.Uint32(cur.Pages[0][24:]) + 1
	}
	if tx.ToWAL {
		wal = true
	}
	if tx.FromWAL {
		wal = false
	}
	// pages to modify: page 1 always (change counter), plus Mods within the old size.
	mods := []uint32{}
	seen := map[uint32]bool{}
	for _, p := range tx.Mods {
		if p >= 2 && p <= origSize && !seen[p] {
			seen[p] = true
			mods = append(mods, p)
		}
	}
	if origSize > 0 {
		mods = append(mods, 1)
	}
	dirty := map[uint32][]byte{}
	lock := oracle.LockPgno(c.PageSize)

	segStart := int64(0) // offset of the current segment header
	jOff := int64(0)
	nRecSeg := uint32(0)
	hdrWritten := false
	writeHdr := func() error {
		segStart = sectorAlign(jOff, c.SectorSize)
		hdr := c.journalHeader(0xffffffff, noSync, nonce, origSize)
		if !noSync {
			hdr = c.journalHeader(0, false, nonce, origSize)
		}
		if err := c.writeJournalHeaderAt(segStart, hdr); err != nil {
			return err
		}
		jOff = segStart + int64(c.SectorSize)
		nRecSeg = 0
		hdrWritten = true
		return nil
	}
	syncJournal := func() error {
		if noSync {
			return nil
		}
		c.step("journal fsync")
		if err := c.jrn.Fsync(); err != nil {
			return err
		}
		b := make([]byte, 12)
		copy(b, journalMagic)
		binary.BigEndian.PutUint32(b[8:], nRecSeg)
		if err := c.jwrite(fmt.Sprintf("journal write nRec=%d @%d", nRecSeg, segStart), segStart, b); err != nil {
			return err
		}
		c.step("journal fsync")
		return c.jrn.Fsync()
	}
	flushDirty := func(limit uint32) error {
		if err := c.lockExclusive(); err != nil {
			return err
		}
		pgs := make([]uint32, 0, len(dirty))
		for p := range dirty {
			pgs = append(pgs, p)
		}
		sortU32(pgs)
		for _, p := range pgs {
			if p > limit || p == lock {
				continue
			}
			c.step(fmt.Sprintf("db write page %d", p))
			if err := c.db.Pwrite(int64(p-1)*int64(c.PageSize), dirty[p]); err != nil {
				return err
			}
		}
		dirty = map[uint32][]byte{}
		return nil
	}

	if err := writeHdr(); c.fail(&res, "journal header", err) {
		c.abandon()
		return
	}

	spill := append([]int(nil), tx.SpillAfter...)
	journalled := 0
	wroteDB := false
	peak := tx.Peak
	if peak <= newSize || peak <= origSize || len(spill) == 0 {
		peak = 0
	}
	peakWritten := false
	for _, p := range mods {
		// Journal the original content of p.
		orig, err := c.readDBPage(p)
		if c.fail(&res, "read original page", err) {
			c.abandon()
			return
		}
		if !bytes.Equal(orig, cur.Pages[p-1]) {
			c.fail(&res, "read original page", fmt.Errorf("page %d read through the mount differs from the committed image", p))
			c.abandon()
			return
		}
		var pg [4]byte
		binary.BigEndian.PutUint32(pg[:], p)
		if err := c.jwrite(fmt.Sprintf("journal write pgno %d @%d", p, jOff), jOff, pg[:]); c.fail(&res, "journal pgno", err) {
			c.abandon()
			return
		}
		if err := c.jwrite(fmt.Sprintf("journal write data %d @%d", p, jOff+4), jOff+4, orig); c.fail(&res, "journal data", err) {
			c.abandon()
			return
		}
		var ck [4]byte
		binary.BigEndian.PutUint32(ck[:], journalCksum(orig, nonce))
		if err := c.jwrite(fmt.Sprintf("journal write cksum %d @%d", p, jOff+4+int64(c.PageSize)), jOff+4+int64(c.PageSize), ck[:]); c.fail(&res, "journal cksum", err) {
			c.abandon()
			return
		}
		jOff += int64(8 + c.PageSize)
		nRecSeg++
		journalled++

		// Modify the page in the cache.
		var content []byte
		if p == 1 {
			content = MakePage1(c.PageSize, c.ver(1, orig, p1v, unc), newSize, wal, cc)
			if tx.SameBytes && !tx.ToWAL && !tx.FromWAL && newSize == origSize {
				content = append([]byte(nil), orig...)
			}
		} else if tx.SameBytes {
			content = append([]byte(nil), orig...)
		} else {
			content = MakePage(c.PageSize, p, c.ver(p, orig, p1v, unc))
			if tx.VersionBytes22 {
				content[18], content[19] = 2, 2
			}
		}
		dirty[p] = content
		if p <= newSize {
			next.Pages[p-1] = content
		}

		if len(spill) > 0 && journalled == spill[0] {
			spill = spill[1:]
			if err := syncJournal(); c.fail(&res, "journal sync (spill)", err) {
				c.abandon()
				return
			}
			// At spill time SQLite does not know yet that the image will shrink: every dirty page of the old image is written.
			limit := origSize
			if peak > 0 && !peakWritten {
				// ... nor that pages it has appended so far will be freed again: they are dirty and are written too.
				for p := origSize + 1; p <= peak; p++ {
					if p != lock {
						dirty[p] = MakePage(c.PageSize, p, c.ver(p, nil, p1v, unc || p > newSize))
					}
				}
				limit, peakWritten = peak, true
			}
			if err := flushDirty(limit); c.fail(&res, "spill write", err) {
				c.abandon()
				return
			}
			wroteDB = true
			// SQLite starts a new journal segment after a sync; in no-sync mode (nRec = 0xffffffff)
			// syncJournal() does nothing and the journal stays a single segment.
			if !noSync {
				if err := writeHdr(); c.fail(&res, "journal header (segment)", err) {
					c.abandon()
					return
				}
			}
		}
	}
	_ = hdrWritten

	// Appended pages (never journalled) and the first page of a new database.
	holes := map[uint32]bool{}
	if origSize == 0 {
		dirty[1] = MakePage1(c.PageSize, c.ver(1, nil, p1v, unc), newSize, wal, cc)
	}
	for p := origSize + 1; p <= newSize; p++ {
		if p == 1 {
			continue
		}
		if p == lock {
			dirty[p] = make([]byte, c.PageSize) // never written; placeholder
			continue
		}
		if tx.FreeLeaves && int(p-origSize) > tx.FirstNew {
			// free-list leaves allocated and freed inside the transaction are never written (PGHDR_DONT_WRITE); at
			// commit the file is extended to the new size by one zero page at its end. Readers see zeros.
			if p < newSize {
				holes[p] = true
				continue
			}
			dirty[p] = make([]byte, c.PageSize)
			continue
		}
		dirty[p] = MakePage(c.PageSize, p, c.ver(p, nil, p1v, unc))
	}
	// Build the intended image.
	if newSize < uint32(len(next.Pages)) {
		next.Pages = next.Pages[:newSize]
	}
	for uint32(len(next.Pages)) < newSize {
		next.Pages = append(next.Pages, nil)
	}
	for p := range holes {
		if p <= newSize {
			next.Pages[p-1] = make([]byte, c.PageSize)
		}
	}
	for p, b := range dirty {
		if p <= newSize {
			next.Pages[p-1] = b
		}
	}

	if tx.Create && tx.SpillNew > 0 && origSize == 0 {
		if err := syncJournal(); c.fail(&res, "journal sync (spill)", err) {
			c.abandon()
			return
		}
		if err := c.lockExclusive(); c.fail(&res, "spill lock", err) {
			c.abandon()
			return
		}
		for p := uint32(2); p <= newSize && int(p-1) <= tx.SpillNew; p++ {
			if p == lock || dirty[p] == nil {
				continue
			}
			c.step(fmt.Sprintf("db write page %d", p))
			if err := c.db.Pwrite(int64(p-1)*int64(c.PageSize), dirty[p]); c.fail(&res, "spill write", err) {
				c.abandon()
				return
			}
			delete(dirty, p)
		}
		wroteDB = true
	}
	if tx.Outcome == "rollback" {
		c.rollbackFromJournal(&res, cur, wroteDB, tx.Final)
		return
	}

	// Commit phase one: sync journal, EXCLUSIVE, write all dirty pages, fsync.
	if err := syncJournal(); c.fail(&res, "journal sync", err) {
		c.abandon()
		return
	}
	if err := flushDirty(newSize); c.fail(&res, "db write", err) {
		c.abandon()
		return
	}
	c.step("db fsync")
	if err := c.db.Fsync(); c.fail(&res, "db fsync", err) {
		c.abandon()
		return
	}
	// Commit phase two: finalise the journal. This is the commit point.
	if err := c.finalizeJournal(tx.Final); c.fail(&res, "journal finalise ("+tx.Final+")", err) {
		c.abandon()
		return
	}
	res.Committed = true
	res.Intended = next
	c.Acked = true
	// Shrink (also of a file a spill had grown beyond the final size): the file is truncated after the journal is finalised.
	if newSize < origSize || (peakWritten && peak > newSize) {
		c.step(fmt.Sprintf("db truncate to %d pages", newSize))
		if err := c.db.Truncate(int64(newSize) * int64(c.PageSize)); c.fail(&res, "db truncate", err) {
			c.unlockAll()
			return
		}
	}
	c.unlockAll()
	return
}

func (c *Conn) finalizeJournal(mode string) error {
	switch mode {
	case "DELETE", "":
		c.step("close journal")
		_ = c.jrn.Close()
		c.jrn = nil
		c.step("unlink journal")
		return c.M.Remove(c.Name + "-journal")
	case "TRUNCATE":
		c.step("journal truncate 0")
		if err := c.jrn.Truncate(0); err != nil {
			return err
		}
		c.step("journal fsync")
		err := c.jrn.Fsync()
		jr := c.jrn
		c.jrn = nil
		c.step("close journal")
		_ = jr.Close()
		return err
	case "PERSIST":
		c.step("journal write zero header")
		if err := c.jrn.Pwrite(0, make([]byte, 28)); err != nil {
			return err
		}
		c.step("journal fsync")
		err := c.jrn.Fsync()
		jr := c.jrn
		c.jrn = nil
		c.step("close journal")
		_ = jr.Close()
		return err
	}
	return errors.New("bad journal mode " + mode)
}

// rollbackFromJournal plays the journal back (only needed if the database file was written) and finalises.
func (c *Conn) rollbackFromJournal(res *RTxResult, cur *oracle.Image, wroteDB bool, final string) {
	if wroteDB {
		if err := c.lockExclusive(); c.fail(res, "rollback lock", err) {
			c.abandon()
			return
		}
		// Restore every page of the original image that may have been overwritten.
		// (SQLite replays the journal records; content is the same.)
		for p := uint32(1); p <= cur.N(); p++ {
			got, err := c.readDBPageDirect(p)
			if c.fail(res, "rollback read", err) {
				c.abandon()
				return
			}
			if !bytes.Equal(got, cur.Pages[p-1]) {
				c.step(fmt.Sprintf("db write page %d (rollback)", p))
				if err := c.db.Pwrite(int64(p-1)*int64(c.PageSize), cur.Pages[p-1]); c.fail(res, "rollback write", err) {
					c.abandon()
					return
				}
			}
		}
		if sz, _ := c.db.Size(); sz != int64(cur.N())*int64(c.PageSize) {
			c.step(fmt.Sprintf("db truncate to %d pages (rollback)", cur.N()))
			if err := c.db.Truncate(int64(cur.N()) * int64(c.PageSize)); c.fail(res, "rollback truncate", err) {
				c.abandon()
				return
			}
		}
		c.step("db fsync")
		_ = c.db.Fsync()
	}
	if err := c.finalizeJournal(final); c.fail(res, "journal finalise (rollback)", err) {
		c.abandon()
		return
	}
	c.unlockAll()
}

func (c *Conn) readDBPageDirect(pgno uint32) ([]byte, error) {
	c.step(fmt.Sprintf("read db page %d", pgno))
	b, err := c.db.Pread(int64(pgno-1)*int64(c.PageSize), c.PageSize)
	if err != nil {
		return nil, err
	}
	if len(b) < c.PageSize {
		b = append(b, make([]byte, c.PageSize-len(b))...)
	}
	return b, nil
}

// abandon releases everything after an operation failed (what SQLite does on an I/O error).
func (c *Conn) abandon() {
	if c.jrn != nil {
		_ = c.jrn.Close()
		c.jrn = nil
	}
	c.unlockAll()
}

func sortU32(a []uint32) {
	for i := 1; i < len(a); i++ {
		for j := i; j > 0 && a[j-1] > a[j]; j-- {
			a[j-1], a[j] = a[j], a[j-1]
		}
	}
}

// HoldRead opens a read transaction and keeps it open (rollback mode: SHARED on the database file; WAL mode: a
// read mark) until DropRead: a long-running SELECT.
func (c *Conn) HoldRead(wal bool) error {
	if wal {
		return c.BeginRead()
	}
	if err := c.openDB(false); err != nil {
		return err
	}
	return c.lockShared()
}

// DropRead ends the read transaction opened by HoldRead.
func (c *Conn) DropRead(wal bool) {
	if wal {
		c.EndRead()
		return
	}
	c.unlockAll()
}

// ReadImage reads the database as a rollback-mode reader would: SHARED lock,
// header, every page through the page cache, unlock.
func (c *Conn) ReadImage() (*oracle.Image, error) {
	if err := c.openDB(false); err != nil {
		return nil, err
	}
	if err := c.lockShared(); err != nil {
		c.unlockAll()
		return nil, err
	}
	defer c.unlockAll()
	sz, err := c.db.Size()
	if err != nil {
		return nil, err
	}
	if sz == 0 {
		return &oracle.Image{PageSize: c.PageSize}, nil
	}
	ps, n, _, err := c.ReadHeader()
	if err != nil {
		return nil, err
	}
	c.PageSize = ps
	im := &oracle.Image{PageSize: ps}
	for p := uint32(1); p <= n; p++ {
		b, err := c.readDBPage(p)
		if err != nil {
			return nil, err
		}
		im.Pages = append(im.Pages, b)
	}
	if int64(n)*int64(ps) != sz {
		return im, fmt.Errorf("file size %d does not match header page count %d x %d", sz, n, ps)
	}
	return im, nil
}
